"""Reflective dump of a griffe tree (what DocstringParser reads of it) into the JSON that
lean/StubGen/Driver/DocJson.lean decodes.  Decides nothing — except that the left spine of an
ExprBinOp tree is flattened into the operand order the implementation visits (rightmost first), and that
`parse_annotation` (griffe) is applied to string annotations here, because Lean cannot run griffe."""
from __future__ import annotations


def expr(e, docstring, numpy: bool):
    from griffe.docstrings.utils import parse_annotation
    from griffe.expressions import (ExprAttribute, ExprBinOp, ExprBoolOp, ExprList, ExprName, ExprSubscript,
                                    ExprTuple)
    if e is None:
        return None
    if isinstance(e, (ExprName, ExprAttribute)):
        return {"k": "name", "path": e.canonical_path, "name": e.canonical_name}
    if isinstance(e, ExprSubscript):
        return {"k": "subscript", "path": e.canonical_path, "name": e.canonical_name, "slice": expr(e.slice, docstring, numpy)}
    if isinstance(e, ExprTuple):
        return {"k": "tuple", "elements": [expr(x, docstring, numpy) for x in e.elements]}
    if isinstance(e, ExprList):
        return {"k": "list", "elements": [expr(x, docstring, numpy) for x in e.elements]}
    if isinstance(e, ExprBoolOp):
        return {"k": "boolop", "values": [expr(x, docstring, numpy) for x in e.values]}
    if isinstance(e, ExprBinOp):
        ops = [expr(e.right, docstring, numpy)]
        left = e.left
        while isinstance(left, ExprBinOp):
            ops.append(expr(left.right, docstring, numpy))
            left = left.left
        ops.append(expr(left, docstring, numpy))
        return {"k": "binop", "operands": ops}
    if isinstance(e, str):
        cut = e.split(", default")[0] if numpy else e
        parsed = parse_annotation(cut, docstring)
        if isinstance(parsed, str) and parsed in (cut, e):
            return {"k": "str", "raw": e, "cut": cut if parsed == cut else parsed, "parsed": None}
        return {"k": "str", "raw": e, "cut": cut, "parsed": expr(parsed, docstring, numpy)}
    return {"k": "other"}


def docstring(d, numpy: bool, google: bool):
    from griffe.enumerations import DocstringSectionKind as K
    if d is None:
        return None
    secs = []
    for s in d.parsed:
        if s.kind == K.text:
            secs.append({"kind": "text", "value": s.value})
        elif s.kind in (K.parameters, K.attributes):
            secs.append({"kind": "parameters" if s.kind == K.parameters else "attributes", "value": [
                {"name": p.name, "annotation": expr(p.annotation, d, numpy), "description": p.description,
                 "default": (str(p.default) if getattr(p, "default", None) else None)} for p in s.value]})
        elif s.kind == K.returns:
            secs.append({"kind": "returns", "value": [
                {"name": r.name or "", "annotation_is_none": r.annotation is None,
                 "annotation": expr(r.annotation, d, numpy),
                 "name_as_annotation": expr(r.name, d, numpy) if (google and r.annotation is None and r.name) else None,
                 "description": r.description} for r in s.value]})
        elif s.kind == K.examples:
            secs.append({"kind": "examples", "value": [x[1] for x in s.value]})
        else:
            secs.append({"kind": "other"})
    return {"value": d.value, "parsed": secs}


def node(n, numpy: bool, google: bool, depth=0, stack=()):
    """`n.modules` / `.classes` / `.functions` / `.attributes` are read exactly as the tool reads them: they
    include inherited members and imported names (griffe aliases).  An alias is followed to its target;
    a target that is already on the current path (cyclic import) is cut to a leaf."""
    def kids(d):
        out = []
        for k in d:
            try:
                c = d[k]
                target_path = c.target_path if getattr(c, "is_alias", False) else c.path
                if getattr(c, "is_alias", False):
                    _ = c.docstring                      # forces resolution; raises if unresolvable
                if target_path in stack or depth > 12:
                    out.append({"name": c.name, "is_class": bool(c.is_class), "docstring": docstring(c.docstring, numpy, google),
                                "modules": [], "classes": [], "functions": [], "attributes": []})
                else:
                    out.append(node(c, numpy, google, depth + 1, stack + (target_path,)))
            except Exception:  # noqa: BLE001  (unresolvable alias: the tool cannot descend into it either)
                continue
        return out
    return {"name": n.name, "is_class": bool(n.is_class), "docstring": docstring(n.docstring, numpy, google),
            "modules": kids(n.modules), "classes": kids(n.classes), "functions": kids(n.functions),
            "attributes": kids(n.attributes)}


def qnames(n, prefix=""):
    """(kind, qualified name, owner class qname or '') of every node"""
    q = f"{prefix}.{n.name}" if prefix else n.name
    out = []
    for k in n.modules:
        c = n.modules[k]
        if not getattr(c, "is_alias", False):
            out += qnames(c, q)
    for k in n.classes:
        c = n.classes[k]
        if not getattr(c, "is_alias", False):
            out.append(("class", f"{q}.{c.name}", ""))
            out += qnames(c, q)
    for k in n.functions:
        c = n.functions[k]
        if not getattr(c, "is_alias", False):
            out.append(("function", f"{q}.{c.name}", q if n.is_class else ""))
    for k in n.attributes:
        c = n.attributes[k]
        if not getattr(c, "is_alias", False):
            out.append(("attribute", f"{q}.{c.name}", q if n.is_class else ""))
    return out
