"""S-N — correspondence of Model/Naming.lean with stubs_generator/_helper.py and _helpers.py,
and the naming oracles (C09: consistent renaming; C02: legal identifiers, keywords back-quoted)."""
from __future__ import annotations

import itertools
import random
import re
import string

from common import driver_batch

KEYWORDS33 = ["_", "and", "annotation", "as", "attr", "class", "const", "enum", "false", "from", "fun", "import",
              "in", "internal", "literal", "not", "null", "or", "out", "package", "pipeline", "private", "schema",
              "segment", "static", "sub", "this", "true", "union", "unknown", "val", "where", "yield"]
ALPHABET = string.ascii_letters + string.digits + "_"
IDENT = re.compile(r"^[A-Za-z_][A-Za-z0-9_]*$")


def load_impl():
    import importlib
    import sys
    from common import REPO
    src = str(REPO / "src")
    if src not in sys.path:
        sys.path.insert(0, src)
    h = importlib.import_module("safeds_stubgen.stubs_generator._helper")
    top = importlib.import_module("safeds_stubgen._helpers")
    return h, top


def spec_camel(name: str, cls: bool) -> str:
    """UpperCamelCase / lowerCamelCase of a snake_case name, written from the property statement."""
    if name == "_":
        return name
    parts = [p for p in name.strip("_").split("_") if p]
    if not parts:
        return ""
    cap = [p[0].upper() + p[1:] for p in parts]
    return "".join(cap) if cls else parts[0] + "".join(cap[1:])


def convertible(name: str) -> bool:
    core = name.lstrip("_")
    return bool(IDENT.match(name)) and core != "" and core[0].isalpha()


def names(tier: str, rng: random.Random) -> tuple[list[str], dict]:
    out: list[str] = []
    info = {}
    full_len = 3
    for n in range(1, full_len + 1):
        out += ["".join(t) for t in itertools.product(ALPHABET, repeat=n)]
    info["exhaustive_full_alphabet_len"] = full_len
    red = "aB1_"
    red_len = 8 if tier == "quick" else 10
    for n in range(4, red_len + 1):
        out += ["".join(t) for t in itertools.product(red, repeat=n)]
    info["exhaustive_reduced_alphabet_len"] = red_len
    if tier == "thorough":
        mid = "abXY01_"
        for n in (4, 5, 6):
            out += ["".join(t) for t in itertools.product(mid, repeat=n)]
        info["exhaustive_mid_alphabet_len"] = 6
    pool = KEYWORDS33 + ["__init__", "my_func_name", "_private", "__dunder__", "HTTPServer", "snake_case_name_",
                         "a__b", "_a_", "x1_y2", "CamelCase", "mixed_Case_Name", "pkg.sub_pkg.mod_name",
                         "pkg._private.mod", "tests.data.my_package", "", "__", "___", "_1", "1a", "a.b"]
    pool += ["_" + k for k in KEYWORDS33] + [k + "_" for k in KEYWORDS33] + [k.upper() for k in KEYWORDS33]
    for _ in range(3000 if tier == "quick" else 30000):
        n = rng.randrange(1, 14)
        pool.append("".join(rng.choice("abcXYZ019___") for _ in range(n)))
    dotted = []
    segs = ["pkg", "sub_pkg", "_private", "mod_name", "a", "_", "__x", "x_", "my_package", "HTTP_server", "tests", "a1_b2"]
    for _ in range(1500 if tier == "quick" else 15000):
        k = rng.randrange(2, 5)
        dotted.append(".".join(rng.choice(segs) if rng.random() < 0.6 else
                               "".join(rng.choice("abXY01__") for _ in range(rng.randrange(1, 8))) for _ in range(k)))
    info["dotted_paths"] = len(set(dotted))
    out += pool + dotted
    return out, info


def run(ctx) -> None:
    rep, tier = ctx.rep, ctx.tier
    h, top = load_impl()
    rng = random.Random(ctx.seed * 104729 + 9)
    ns, info = names(tier, rng)
    rep.extra.update(info)
    rep.exhaustive = True
    rule = ("S-N: every string over [A-Za-z0-9_] up to length 3, over {a,B,1,_} up to length %d, the 33 keywords and "
            "decorated variants, dotted paths, random longer names; both flag values; function and class convention; "
            "non-trivial = the conversion changes the name, or the name is a keyword; distinct by the string"
            % info["exhaustive_reduced_alphabet_len"])
    rep.rule = (rep.rule + " | " if rep.rule else "") + rule
    PY, SD = h.NamingConvention.PYTHON, h.NamingConvention.SAFE_DS
    conv, esc = h._convert_name_to_convention, h._replace_if_safeds_keyword
    impl = {}
    for n in ns:
        try:
            impl[n] = (conv(n, SD), conv(n, SD, True), esc(n), top.is_internal(n), conv(n, PY), conv(n, PY, True))
        except Exception as e:  # noqa: BLE001
            impl[n] = ("!exc", type(e).__name__)
    # ---- oracles on the implementation
    for n, r in impl.items():
        rep.evaluations += 1
        if r[0] == "!exc":
            ctx.oracle_failure("C09", f"name helper raised {r[1]}", {"stage": "S-N", "name": n})
            ctx.oracle_failure("C02", f"name helper raised {r[1]}", {"stage": "S-N", "name": n})
            continue
        f, c, e, _internal, pf, pc = r
        if f != n or n in KEYWORDS33:
            rep.nontrivial.add(n)
        fail = None
        if pf != n or pc != n:
            fail = f"flag off but name changed: {pf!r}/{pc!r}"
        elif "." in n and all(IDENT.match(seg or "-") for seg in n.split(".")):
            # package segments in lowerCamelCase: every segment of a dotted path is rendered on its own
            wf = ".".join(spec_camel(seg, False) for seg in n.split("."))
            wc = ".".join(spec_camel(seg, True) for seg in n.split("."))
            if f != wf:
                fail = f"the package path {n!r} is rendered {f!r}, its segments in lowerCamelCase are {wf!r}"
            elif c != wc:
                fail = f"the dotted name {n!r} is rendered {c!r} as a class path, its segments in UpperCamelCase are {wc!r}"
        elif "." not in n and IDENT.match(n or "-"):
            if f != spec_camel(n, False):
                fail = f"lowerCamelCase of {n!r} is {f!r}, expected {spec_camel(n, False)!r}"
            elif c != spec_camel(n, True):
                fail = f"UpperCamelCase of {n!r} is {c!r}, expected {spec_camel(n, True)!r}"
        if fail:
            ctx.oracle_failure("C09", fail, {"stage": "S-N", "name": n})
        # C02: keyword escaping and identifier legality of the rendered names
        want = f"`{n}`" if n in KEYWORDS33 else n
        if e != want:
            ctx.oracle_failure("C02", f"keyword escaping of {n!r} gave {e!r}, expected {want!r}", {"stage": "S-N", "name": n})
        if IDENT.match(n or "-") and "." not in n:
            for label, out in (("function", f), ("class", c)):
                if not IDENT.match(out or "-"):
                    ctx.oracle_failure("C02", f"converted {label} name of {n!r} is {out!r}: not a legal identifier",
                                       {"stage": "S-N", "name": n, "convertible": convertible(n)})
    rep.bump("names", "total", len(ns))
    rep.bump("names", "changed_by_conversion", sum(1 for n, r in impl.items() if r[0] != "!exc" and r[0] != n))
    rep.sample({"name": "__my_func_name_", "impl": impl.get("__my_func_name_", conv("__my_func_name_", SD))}, limit=10)
    rep.sample({"name": "a_B", "impl": list(impl["a_B"])}, limit=10)
    # ---- correspondence with the model
    if ctx.driver_ok:
        CH = 20000
        for safe in (True, False):
            for i in range(0, len(ns), CH):
                chunk = ns[i:i + CH]
                out = driver_batch([{"op": "convert_batch", "names": chunk, "safe": safe}])[0]["out"]
                for n, m in zip(chunk, out):
                    r = impl[n]
                    if r[0] == "!exc":
                        continue
                    want = [r[0], r[1], r[2], r[3]] if safe else [r[4], r[5], r[2], r[3]]
                    rep.disagreements_checked += 1
                    if m[:4] != want:
                        ctx.disagree("S-N/convert+escape+is_internal", {"name": n, "safe": safe}, m[:4], want)
                    if safe and IDENT.match(n or "-") and "." not in n and m[4] != convertible(n):
                        ctx.disagree("S-N/Convertible-classifier", {"name": n}, m[4], convertible(n))
