"""S-D (discovery part) — Model/Discovery.lean against the discovery loop of get_api and
_get_mypy_asts (mypy itself stubbed out), on generated directory trees; C15 oracle."""
from __future__ import annotations

import importlib
import random
import shutil
from pathlib import Path

import implrun
from common import driver_batch

DIRS = ["pkg", "sub", "core", "_private", "test", "tests", "docs", "testing", "mytests", "docs_old", "test_utils",
        "Tests", "doc", "attest"]
FILES = ["a.py", "b.py", "test_x.py", "tests.py", "docs.py", "conftest.py", "_c.py", "notes.txt", "mod.pyi"]


class Stop(Exception):
    pass


def make_tree(root: Path, rng: random.Random, depth: int, with_init: float) -> None:
    root.mkdir(parents=True, exist_ok=True)
    if rng.random() < with_init:
        (root / "__init__.py").write_text("")
    for f in rng.sample(FILES, rng.choice([0, 1, 2, 3])):
        (root / f).write_text("x = 1\n")
    if depth > 0:
        for d in rng.sample(DIRS, rng.choice([0, 1, 2, 3])):
            make_tree(root / d, rng, depth - 1, with_init)


def run(ctx) -> None:
    rep = ctx.rep
    impl = implrun.load()
    ga = importlib.import_module("safeds_stubgen.api_analyzer._get_api")
    rng = random.Random(ctx.seed * 6151 + 5)
    rule = ("S-D/discovery: random directory trees (depth<=3) with directories named test/tests/docs and look-alikes "
            "(testing, mytests, docs_old, test_utils, Tests, doc, attest), files test_x.py/tests.py/docs.py, with and "
            "without __init__.py (sparse: the nearest package may lie in any subtree), roots that themselves lie under a tests "
            "directory; Path.glob yields a freshly shuffled order in every run; x flag on/off; mypy's build graph "
            "replaced by all .py files of the tree in random order; non-trivial = some file lies in an excluded "
            "directory and some file does not; distinct by tree")
    rep.rule = (rep.rule + " | " if rep.rule else "") + rule
    n = 60 if ctx.tier == "quick" else 500
    base = implrun.tmp_out("sd")
    real_build, real_asts = ga._get_mypy_build, ga._get_mypy_asts
    real_dist, real_ver = ga.distribution, ga.distribution_version
    ga.distribution = lambda package_name: ""          # importlib.metadata scan: slow and irrelevant here
    ga.distribution_version = lambda dist: ""
    reqs, metas = [], []
    try:
        import time
        for i in range(n):
            if time.time() > ctx.deadline:
                break
            top = base / f"t{i}"
            under_tests = rng.random() < 0.08
            root = (top / "tests" / "data" / "proj") if under_tests else (top / rng.choice(["proj", "my_pkg", "docs_project"]))
            make_tree(root, rng, 3, rng.choice([1.0, 0.8, 0.3, 0.15]))
            all_py = sorted(p for p in root.rglob("*.py"))
            graph_paths = [str(p) for p in all_py] + [str(top / "elsewhere" / "typing.pyi")]
            rng.shuffle(graph_paths)
            for flag in (False, True):
                cap = {}

                class FakeState:
                    def __init__(self, path):
                        self.tree = type("T", (), {"path": path})()

                def fake_build(files, cap=cap):
                    cap["files"] = list(files)
                    return type("B", (), {"graph": {f"m{k}": FakeState(p) for k, p in enumerate(graph_paths)}, "types": {}})()

                def wrap(build_result, files, package_paths, cap=cap):
                    cap["packages"] = list(package_paths)
                    cap["selected"] = [a.path for a in real_asts(build_result, files, package_paths)]
                    raise Stop

                ga._get_mypy_build, ga._get_mypy_asts = fake_build, wrap
                # the enumeration order of the file system is not part of the input: every run sees another one
                real_glob = Path.glob
                order_rng = random.Random(rng.randrange(1 << 30))

                def shuffled_glob(self, pattern, *a, _g=real_glob, _r=order_rng, **k):
                    xs = list(_g(self, pattern, *a, **k))
                    _r.shuffle(xs)
                    return iter(xs)
                Path.glob = shuffled_glob
                try:
                    ga.get_api(root.resolve(), is_test_run=flag)
                    out = ("noexc",)
                except Stop:
                    out = ("ok", cap["files"], cap["packages"], cap["selected"])
                except ValueError as e:
                    out = ("ValueError", str(e))
                except Exception as e:  # noqa: BLE001
                    out = ("exc", type(e).__name__)
                finally:
                    Path.glob = real_glob
                    ga._get_mypy_build, ga._get_mypy_asts = real_build, real_asts
                rep.evaluations += 1
                rroot = root.resolve()
                excl = [p for p in all_py if set(p.resolve().parts) & {"test", "tests", "docs"}]
                if excl and len(excl) < len(all_py):
                    rep.nontrivial.add((i, flag))
                rep.bump("discovery", out[0])
                rep.sample({"root": str(rroot.relative_to(base.resolve())), "flag": flag, "py_files": len(all_py),
                            "in_excluded_dirs": len(excl), "outcome": out[0],
                            "kept": [str(Path(f).relative_to(base.resolve())) for f in out[1]][:5] if out[0] == "ok" else out[1:]}, limit=3)
                # ---- C15 oracle on the implementation
                if out[0] == "ok":
                    kept = set(out[1])
                    for f in kept:
                        if not flag and set(Path(f).parts) & {"test", "tests", "docs"}:
                            ctx.oracle_failure("C15", f"file in a test/docs directory analysed without the flag: {f}",
                                               {"stage": "S-D", "tree": i, "file": f})
                    for f in out[3]:
                        if not f.endswith("__init__.py") and f not in kept:
                            ctx.oracle_failure("C15", f"AST of a non-kept file handed to the walker: {f}", {"stage": "S-D", "tree": i})
                        if not flag and set(Path(f).parts) & {"test", "tests", "docs"}:
                            ctx.oracle_failure("C15", f"AST of a file in a test/docs directory handed to the walker: {f}",
                                               {"stage": "S-D", "tree": i})
                elif out[0] == "exc" or out[0] == "noexc":
                    ctx.oracle_failure("C01", f"discovery raised {out}", {"stage": "S-D", "tree": i})
                # what the adjusted root's glob would enumerate: all .py files under the original root
                files_parts = [list(p.resolve().parts) for p in sorted(root.rglob("*.py"))]
                # the implementation globs in directory order; the model is order-preserving, so feed it the
                # same order the implementation saw (walkable order) by sorting both sides when comparing
                reqs.append({"op": "discover", "root": list(rroot.parts), "files": files_parts, "test_run": flag,
                             "graph": graph_paths})
                metas.append((i, flag, out))
        if ctx.driver_ok:
            for (i, flag, out), m in zip(metas, driver_batch(reqs)):
                rep.disagreements_checked += 1
                inp = {"tree": i, "flag": flag}
                if out[0] == "ok":
                    if not m.get("ok"):
                        ctx.disagree("S-D/discover-outcome", inp, m, "ok")
                    elif sorted(m["walkable"]) != sorted(out[1]) or sorted(m["packages"]) != sorted(out[2]):
                        ctx.disagree("S-D/discover-kept", inp, [sorted(m["walkable"]), sorted(m["packages"])],
                                     [sorted(out[1]), sorted(out[2])])
                    elif sorted(m["selected"]) != sorted(out[3]) or \
                            [s.endswith("__init__.py") for s in m["selected"]] != [s.endswith("__init__.py") for s in out[3]]:
                        ctx.disagree("S-D/select-asts", inp, m["selected"], out[3])
                elif out[0] == "ValueError":
                    if m.get("ok") or m.get("err") != "ValueError":
                        ctx.disagree("S-D/discover-outcome", inp, m, out)
    finally:
        ga._get_mypy_build, ga._get_mypy_asts = real_build, real_asts
        ga.distribution, ga.distribution_version = real_dist, real_ver
        shutil.rmtree(base, ignore_errors=True)
