"""Synthetic `API` objects built directly with the repo's dataclasses (no mypy): structured,
mostly well-formed, from one `random.Random`.  Every generated API comes with `features`:
a small record of which constructs it contains (for the evidence distribution)."""
from __future__ import annotations

import random

KEYWORDS = ["_", "and", "annotation", "as", "attr", "class", "const", "enum", "false", "from", "fun", "import",
            "in", "internal", "literal", "not", "null", "or", "out", "package", "pipeline", "private", "schema",
            "segment", "static", "sub", "this", "true", "union", "unknown", "val", "where", "yield"]

FUNC_NAMES = ["f", "g", "my_func", "compute_all_things", "doIt", "get_x", "to_str", "helper_1", "run", "num_sides", "area_of",
              "print_", "filter_", "_init_vals_"]
PRIV_FUNC_NAMES = ["_hidden", "_helper_fn", "__very_private"]
CLASS_NAMES = ["A", "B", "Shape", "my_class", "HTTPServer", "Data_Set", "Node", "Tree", "Base", "Impl", "Type_", "object_"]
PRIV_CLASS_NAMES = ["_Base", "_Mixin", "_Top", "_Impl"]
PARAM_NAMES = ["x", "y", "value", "max_depth", "n_jobs", "alpha", "data_set", "flag", "name", "kw", "opt"]
ATTR_NAMES = ["a", "b", "count", "my_attr", "value_2", "data"]
MODULE_NAMES = ["mod_a", "mod_b", "core", "utils", "shapes", "io_mod", "models", "plots", "helpers", "base", "types_mod", "algo",
                "lambda_", "class_", "_both_ends_"]
PRIV_MODULE_NAMES = ["_impl", "_private_mod"]


class ApiGen:
    def __init__(self, impl, rng: random.Random, keyword_rate: float = 0.12):
        self.m = impl
        self.A = impl.api_mod
        self.T = impl.types
        self.D = impl.doc
        self.r = rng
        self.kw = keyword_rate
        self.features: dict[str, int] = {}

    def feat(self, k: str) -> None:
        self.features[k] = self.features.get(k, 0) + 1

    # ------------------------------------------------------------------ names
    def pick(self, pool):
        if self.r.random() < self.kw:
            self.feat("keyword_name")
            return self.r.choice(KEYWORDS[1:])
        return self.r.choice(pool)

    def uniq(self, pool, used: set, private_pool=None, p_private=0.0):
        for _ in range(50):
            if private_pool and self.r.random() < p_private:
                n = self.r.choice(private_pool)
            else:
                n = self.pick(pool)
            if n not in used:
                used.add(n)
                return n
        n = f"n{len(used)}_x"
        used.add(n)
        return n

    # ------------------------------------------------------------------ types
    def named(self, classes):
        T, r = self.T, self.r
        k = r.randrange(10)
        if k < 5:
            b = r.choice(["int", "str", "bool", "float"])
            return T.NamedType(b, f"builtins.{b}")
        if k == 5:
            return T.NamedType("None", "builtins.None")
        if k == 6:
            return T.NamedType("Any", "typing.Any")
        if k == 7 or not classes:
            self.feat("foreign_class_type")
            n, mod = r.choice([("Path", "pathlib"), ("Tensor", "torch"), ("_Hidden", "numpy"), ("DataFrame", "pandas.core.frame"),
                               ("Parser", "email.parser"), ("HTMLParser", "html.parser"), ("Queue", "asyncio.queues"),
                               ("JoinableQueue", "multiprocessing.queues"), ("Tensor", "numpy"), ("in", "torch.nn"),
                               # classes of other libraries that live in private sub-modules
                               ("Future", "concurrent.futures._base"), ("Policy", "email._policybase"),
                               ("Loader", "importlib._abc"), ("Core_Thing", "some_lib._impl._core")])
            return T.NamedType(n, mod + "." + n)
        c = r.choice(classes)
        self.feat("package_class_type")
        return T.NamedType(c[0], c[1])

    def lits(self):
        r = self.r
        return r.sample([0, 1, 2, -1, True, False, "a", "b c", "x"], r.choice([1, 1, 2, 3]))

    def type_(self, classes, depth=2):
        T, r = self.T, self.r
        if depth <= 0 or r.random() < 0.35:
            return self.named(classes)
        k = r.randrange(14)
        kids = lambda lo=0: [self.type_(classes, depth - 1) for _ in range(r.choice([lo, 1, 1, 2, 2, 3]))]
        if k == 0:
            self.feat("union")
            return T.UnionType(kids(1))
        if k == 1:
            self.feat("optional")
            return T.UnionType([self.type_(classes, depth - 1), T.NamedType("None", "builtins.None")])
        if k == 2:
            self.feat("list")
            return T.ListType(kids())
        if k == 3:
            self.feat("set")
            return T.SetType(kids())
        if k == 4:
            self.feat("tuple")
            return T.TupleType(kids())
        if k == 5:
            self.feat("dict")
            return T.DictType(self.type_(classes, depth - 1), self.type_(classes, depth - 1))
        if k == 6:
            self.feat("callable")
            ret = r.choice([self.type_(classes, depth - 1), T.NamedType("None", "builtins.None"),
                            T.TupleType([self.named(classes), self.named(classes)])])
            return T.CallableType(kids(), ret)
        if k == 7:
            self.feat("literal")
            return T.LiteralType(self.lits())
        if k == 8:
            self.feat("literal_union")
            ms = [T.LiteralType(self.lits()) for _ in range(r.choice([1, 2, 3]))]
            ms += r.choice([[], [T.NamedType("None", "builtins.None")], [self.named(classes)],
                            [self.named(classes), T.NamedType("None", "builtins.None")]])
            r.shuffle(ms)
            return T.UnionType(ms)
        if k == 9:
            self.feat("final")
            return T.FinalType(self.type_(classes, depth - 1))
        if k == 10:
            self.feat("named_sequence")
            n = r.choice(["Sequence2", "MyGeneric", "List", "Set"])
            return T.NamedSequenceType(n, "pkg.generics." + n, kids())
        if k == 11:
            self.feat("type_var_type")
            return T.TypeVarType(r.choice(["T", "K_co", "in"]),
                                 r.choice([None, None, T.NamedType("int", "builtins.int")]))
        if k == 12 and r.random() < 0.15:
            self.feat("unknown_type")
            return T.UnknownType()
        return self.named(classes)

    # ------------------------------------------------------------------ docs
    def text(self, tag: str) -> str:
        r = self.r
        k = r.randrange(6)
        if k == 0:
            return ""
        if k == 1:
            return f"{tag} one line."
        if k == 2:
            return f"{tag} first line.\n\nSecond paragraph of {tag}.\n    indented"
        if k == 3:
            return f"\n{tag} with leading and trailing newlines.\n\n"
        if k == 4:
            return f"{tag}: uses `code` and a slash / star *."
        return f"{tag} short"

    def examples(self):
        r = self.r
        if r.random() < 0.75:
            return []
        self.feat("example")
        return [">>> from pkg import x\n>>> x.run(1)\n... # more\n3" for _ in range(r.choice([1, 2]))]

    # ------------------------------------------------------------------ declarations
    def parameters(self, fid, classes, method_kind):
        A, r, D = self.A, self.r, self.D
        PA = A.ParameterAssignment
        out = []
        used = set()
        if method_kind in ("instance", "class"):
            n = "self" if method_kind == "instance" else "cls"
            out.append(A.Parameter(f"{fid}/{n}", n, False, None, PA.IMPLICIT, D.ParameterDocstring(), None))
            used.add(n)
        kinds = []
        for kind, p in [(PA.POSITION_ONLY, 0.3), (PA.POSITION_OR_NAME, 0.8), (PA.POSITIONAL_VARARG, 0.2),
                        (PA.NAME_ONLY, 0.3), (PA.NAMED_VARARG, 0.2)]:
            if r.random() < p:
                reps = 1 if kind in (PA.POSITIONAL_VARARG, PA.NAMED_VARARG) else r.choice([1, 1, 2, 3])
                kinds += [kind] * reps
        for kind in kinds:
            name = self.uniq(PARAM_NAMES, used)
            typed = r.random() < 0.8
            t = self.type_(classes) if typed else None
            if kind == PA.POSITIONAL_VARARG and typed and r.random() < 0.7:
                t = self.T.TupleType([self.named(classes)])
            optional, default = False, None
            if kind not in (PA.POSITIONAL_VARARG, PA.NAMED_VARARG) and r.random() < 0.45:
                optional = True
                default = r.choice([None, True, False, 0, 1, -5, 1.5, -0.25, 1e-05, '"text"', '""', '"a b"',
                                    A.UnknownValue()])
                self.feat("default")
            elif kind == PA.POSITIONAL_VARARG and r.random() < 0.3:
                optional, default = True, "()"
            elif kind == PA.NAMED_VARARG and r.random() < 0.3:
                optional, default = True, "{}"
            doc = D.ParameterDocstring(type=None, default_value="", description=self.text(f"param {name}"))
            out.append(A.Parameter(f"{fid}/{name}", name, optional, default, kind, doc, t))
            self.feat("param_" + kind.name)
        return out

    def function(self, owner_id, name, classes, method_kind=None, public=True):
        A, r, D, T = self.A, self.r, self.D, self.T
        fid = f"{owner_id}/{name}"
        params = self.parameters(fid, classes, method_kind)
        k = r.randrange(8)
        results, rdocs = [], []
        if k == 0:
            results = [A.Result(f"{fid}/result_1", "result_1", T.NamedType("None", "builtins.None"))]
        elif k == 1:
            results = []
            self.feat("no_results")
        elif k in (2, 3, 4):
            rn = r.choice(["result_1", "result_1", "result_1", "out", "val", "in_"])
            results = [A.Result(f"{fid}/{rn}", rn, self.type_(classes))]
        else:
            n = r.choice([2, 3])
            names = [r.choice([f"result_{i + 1}", r.choice(["first_res", "val", "out_2"]) + str(i)]) for i in range(n)]
            if r.random() < 0.3:
                names[r.randrange(n)] = r.choice(["out", "val", "static", "schema", "sub", "out_"])
                self.feat("keyword_result_name")
            results = [A.Result(f"{fid}/{nm}", nm, self.type_(classes)) for nm in names]
            self.feat("multi_results")
        if r.random() < 0.4:
            rdocs = [D.ResultDocstring(type=None, description=self.text("result"), name=r.choice(["", res.name]))
                     for res in results[: r.choice([1, 2, 3])]]
        tvs = []
        if r.random() < 0.2:
            tvs = [T.TypeVarType(n, r.choice([None, T.NamedType("int", "builtins.int"),
                                               T.TupleType([T.NamedType("int", "builtins.int"), T.NamedType("str", "builtins.str")]),
                                               T.SetType([T.NamedType("int", "builtins.int")]),
                                               T.ListType([T.NamedType("int", "builtins.int"), T.NamedType("str", "builtins.str")])]))
                   for n in r.sample(["T", "K", "in", "my_var"], r.choice([1, 2]))]
            self.feat("function_type_vars")
        fdoc = D.FunctionDocstring(description=self.text(f"function {name}"), full_docstring="", examples=self.examples())
        f = A.Function(id=fid, name=name, docstring=fdoc, is_public=public,
                       is_static=method_kind == "static", is_class_method=method_kind == "class",
                       is_property=False, result_docstrings=rdocs, type_var_types=tvs, results=results,
                       reexported_by=[], parameters=params)
        return f

    def class_(self, api, owner, owner_id, name, classes, depth, public, all_classes):
        A, r, D, T = self.A, self.r, self.D, self.T
        cid = f"{owner_id}/{name}"
        qn = cid.replace("/", ".")
        supers = []
        if classes and r.random() < 0.5:
            for c in r.sample(classes, min(len(classes), r.choice([1, 1, 2, 3]))):
                supers.append(c[1])
                self.feat("private_super" if c[0].startswith("_") else "public_super")
        if r.random() < 0.12:
            supers.append(r.choice(["other.lib.Foreign", "abc.ABC", "typing.Generic"]))
        cdoc = D.ClassDocstring(description=self.text(f"class {name}"), full_docstring="", examples=self.examples())
        c = A.Class(id=cid, name=name, superclasses=supers, is_public=public, docstring=cdoc,
                    inherits_from_exception=r.random() < 0.04)
        used = set()
        # names of members of (private) base classes that this class may override
        inherited_names = []
        for _, _, bc in [x for x in getattr(self, "_all_classes", []) if x[1] in supers]:
            inherited_names += [m.name for m in bc.methods] + [a.name for a in bc.attributes]
        for _ in range(r.choice([0, 0, 1, 2, 3])):
            if inherited_names and r.random() < 0.4:
                an = r.choice(inherited_names)
                if an in used:
                    continue
                used.add(an)
                self.feat("attribute_overrides_inherited")
            else:
                an = self.uniq(ATTR_NAMES, used, ["_hidden_attr"], 0.15)
            t = self.type_(classes) if r.random() < 0.8 else None
            adoc = D.AttributeDocstring(type=None, description=self.text(f"attr {an}"))
            a = A.Attribute(f"{cid}/{an}", an, public and not an.startswith("_"), r.random() < 0.5, t, adoc)
            c.add_attribute(a)
            api.add_attribute(a)
            self.feat("attribute")
        if r.random() < 0.6:
            ctor = self.function(cid, "__init__", classes, "instance", public)
            ctor.results = []
            if r.random() < 0.2:
                ctor.type_var_types = [T.TypeVarType(r.choice(["T", "V"]), None)]
            c.add_constructor(ctor)
            self.feat("constructor")
        if r.random() < 0.2:
            VK = A.VarianceKind
            for tn in r.sample(["T", "K_co", "V_contra", "in"], r.choice([1, 2])):
                c.type_parameters.append(A.TypeParameter(tn, r.choice([None, T.NamedType("int", "builtins.int")]),
                                                         r.choice(list(VK))))
            self.feat("type_parameters")
        for _ in range(r.choice([0, 1, 2, 3, 4])):
            if inherited_names and r.random() < 0.3:
                mn = r.choice(inherited_names)
                if mn in used:
                    continue
                used.add(mn)
                self.feat("method_overrides_inherited")
            else:
                mn = self.uniq(FUNC_NAMES, used, PRIV_FUNC_NAMES, 0.2)
            kind = r.choice(["instance", "instance", "instance", "static", "class"])
            m = self.function(cid, mn, classes, kind, public and not mn.startswith("_"))
            if kind == "instance" and r.random() < 0.25:
                m.is_property = True
                m.parameters = m.parameters[:1]
                self.feat("property")
            c.add_method(m)
            api.add_function(m)
            self.feat("method_" + kind)
        if depth > 0:
            for _ in range(r.choice([0, 0, 0, 1, 2])):
                nn = self.uniq(CLASS_NAMES, used, PRIV_CLASS_NAMES, 0.25)
                self.class_(api, c, cid, nn, classes, depth - 1, public and not nn.startswith("_"), all_classes)
                self.feat("nested_class")
        api.add_class(c)
        owner.add_class(c)
        all_classes.append((name, qn, c))
        return c

    # ------------------------------------------------------------------ whole API
    def api(self):
        A, r, D = self.A, self.r, self.D
        api = A.API("dist", "pkg", "1.0")
        # package layout
        mod_ids = []
        pk_used = set()
        subpkgs = ["pkg"] + [f"pkg/{n}" for n in r.sample(["sub", "_internal", "io_utils"], r.choice([0, 1, 2]))]
        if r.random() < 0.3 and len(subpkgs) > 1:
            subpkgs.append(subpkgs[1] + "/deep")
        used = set()        # module names are unique in the package (same-named modules: known finding K18)
        for sp in subpkgs:
            for _ in range(r.choice([1, 1, 2, 3])):
                mn = self.uniq(MODULE_NAMES, used, PRIV_MODULE_NAMES, 0.3)
                if (sp, mn) not in pk_used:
                    pk_used.add((sp, mn))
                    mod_ids.append((sp, mn))
        modules = []
        all_classes: list = []
        self._all_classes = all_classes
        for sp, mn in mod_ids:
            mid = f"{sp}/{mn}"
            m = A.Module(id_=mid, name=mn, docstring=self.text(f"module {mn}") if r.random() < 0.4 else "")
            path_public = not any(seg.startswith("_") for seg in mid.split("/"))
            used = set()
            avail = [(n, q) for n, q, _ in all_classes]
            for _ in range(r.choice([0, 1, 2, 3])):
                cn = self.uniq(CLASS_NAMES, used, PRIV_CLASS_NAMES, 0.3)
                self.class_(api, m, mid, cn, avail, 1, path_public and not cn.startswith("_"), all_classes)
                avail = [(n, q) for n, q, _ in all_classes]
            for _ in range(r.choice([0, 1, 2, 3])):
                fn = self.uniq(FUNC_NAMES, used, PRIV_FUNC_NAMES, 0.2)
                f = self.function(mid, fn, avail, None, path_public and not fn.startswith("_"))
                m.add_function(f)
                api.add_function(f)
                self.feat("global_function")
            if r.random() < 0.3:
                en = self.uniq(["Color", "my_enum", "Mode"], used, ["_PrivEnum"], 0.2)
                e = A.Enum(f"{mid}/{en}", en, D.ClassDocstring(description=self.text(f"enum {en}")))
                for inst in r.sample(["RED", "green_value", "BLUE", "in", "_x"], r.choice([0, 1, 2, 3])):
                    ei = A.EnumInstance(f"{e.id}/{inst}", inst)
                    e.add_enum_instance(ei)
                    api.add_enum_instance(ei)
                m.add_enum(e)
                api.add_enum(e)
                self.feat("enum")
            modules.append(m)
        # a private mixin whose member names are the camelCase spellings of the snake_case members of its public subclass
        # (legacy aliases): different Python names that CONVERT to the same stub name.  No random draws.
        if modules and len(mod_ids) % 2 == 0:
            m0 = modules[0]
            path_public = not any(seg.startswith("_") for seg in m0.id.split("/"))
            int_t = T_ = self.T.NamedType("int", "builtins.int")

            def plain_fn(cid, name, public, prop=False, extra=None):
                fid = f"{cid}/{name}"
                ps = [A.Parameter(f"{fid}/self", "self", False, None, A.ParameterAssignment.IMPLICIT, D.ParameterDocstring(), None)]
                if extra:
                    ps.append(A.Parameter(f"{fid}/{extra}", extra, False, None, A.ParameterAssignment.POSITION_OR_NAME,
                                          D.ParameterDocstring(description=odd if extra == "new_value" else ""), int_t))
                f = A.Function(id=fid, name=name, docstring=D.FunctionDocstring(), is_public=public, is_static=False,
                               is_class_method=False, is_property=prop, result_docstrings=[], type_var_types=[],
                               results=[A.Result(f"{fid}/result_1", "result_1", int_t)], reexported_by=[], parameters=ps)
                api.add_function(f)
                return f

            # LaTeX in a non-raw docstring (`\frac`, `\vec`, `\rho`) and pasted text: form feed, vertical tab, carriage return,
            # NEL, LINE SEPARATOR inside a line — only `\n` ends a line of a description
            odd = "Energy is \x0crac{a}{b} times \x0bec{v},\u2028pasted\x85text and \rho.\nSecond line."

            def plain_cls(name, supers, public, members):
                cid = f"{m0.id}/{name}"
                c = A.Class(id=cid, name=name, superclasses=supers, is_public=public,
                            docstring=D.ClassDocstring(description=odd if not name.startswith("_") else ""))
                for mn, prop, extra in members:
                    c.add_method(plain_fn(cid, mn, public and not mn.startswith("_"), prop, extra))
                api.add_class(c)
                m0.add_class(c)
                all_classes.append((name, cid.replace("/", "."), c))
                return c
            legacy = plain_cls("_ZzLegacy", [], False, [("zzGetName", False, None), ("zzSetName", False, "newValue"), ("zzItemCount", True, None)])
            holder = plain_cls("ZzHolder", [legacy.id.replace("/", ".")], path_public,
                               [("zz_get_name", False, None), ("zz_set_name", False, "new_value"), ("zz_item_count", True, None)])
            # classes of ONE module of another library next to a class of a SUB-module whose dotted path sorts between them
            # (tabular.Frame < tabular.IO.Reader < tabular.Series): the placeholder stub of `tabular` is written in two steps
            for an, q in (("zz_frame", "tabular.Frame"), ("zz_reader", "tabular.IO.Reader"), ("zz_series", "tabular.Series")):
                a = A.Attribute(f"{holder.id}/{an}", an, path_public, False, self.T.NamedType(q.split(".")[-1], q), D.AttributeDocstring())
                holder.add_attribute(a)
                api.add_attribute(a)
            self.feat("legacy_camel_case_mixin")
            # a flagged type first rendered NEXT TO another type that raises the same marker, then alone in a later
            # declaration of the same module: each declaration needs its own marker
            Tt = self.T
            str_t = Tt.NamedType("str", "builtins.str")

            def plain_top(name, params):
                fid = f"{m0.id}/{name}"
                ps = [A.Parameter(f"{fid}/{n}", n, False, None, A.ParameterAssignment.POSITION_OR_NAME, D.ParameterDocstring(), t)
                      for n, t in params]
                f = A.Function(id=fid, name=name, docstring=D.FunctionDocstring(), is_public=path_public, is_static=False,
                               is_class_method=False, is_property=False, result_docstrings=[], type_var_types=[], results=[],
                               reexported_by=[], parameters=ps)
                m0.add_function(f)
                api.add_function(f)
            plain_top("zz_combine", [("left", Tt.TupleType([int_t, int_t])), ("right", Tt.TupleType([str_t, str_t]))])
            plain_top("zz_lookup", [("key", Tt.TupleType([str_t, str_t]))])
            plain_top("zz_collect", [("items", Tt.SetType([int_t])), ("more", Tt.SetType([str_t]))])
            plain_top("zz_unique", [("names", Tt.SetType([str_t]))])
            # classes that name `object` among their bases (old style): generation must not touch the superclass lists
            for nm, sup in (("ZzPlainObject", ["builtins.object"]), ("ZzMixedObject", [f"{m0.id.replace('/', '.')}.ZzPlainObject", "builtins.object"])):
                c_obj = A.Class(id=f"{m0.id}/{nm}", name=nm, superclasses=list(sup), is_public=path_public, docstring=D.ClassDocstring())
                api.add_class(c_obj)
                m0.add_class(c_obj)
            # Literal values with a quote, a backslash, a backslash before a quote, a line break (escaped in the stub since
            # d913d69), alone and next to None / another type
            odd = Tt.LiteralType(['q"t', "b\\s", 'u\\"v', "l\nb"])
            plain_top("zz_quote", [("zz_mode", odd), ("zz_opt", Tt.UnionType([Tt.LiteralType(['q"t']), Tt.NamedType("None", "builtins.None")])),
                                   ("zz_mix", Tt.UnionType([Tt.LiteralType(["b\\s"]), int_t]))])
            # a class defined in a LATER module, re-exported by the root package under an ALIAS, and used as the superclass of
            # public classes in an earlier and in the same later module: every subclass must name the same superclass
            self._zz_alias_reexport = None
            if len(modules) >= 2 and modules[-1] is not m0:
                ml = modules[-1]
                ml_public = not any(seg.startswith("_") for seg in ml.id.split("/"))
                shape = A.Class(id=f"{ml.id}/ZzShape", name="ZzShape", superclasses=[], is_public=ml_public, docstring=D.ClassDocstring())
                api.add_class(shape)
                ml.add_class(shape)
                all_classes.append(("ZzShape", shape.id.replace("/", "."), shape))
                for owner, nm in ((m0, "ZzBox"), (ml, "ZzTile")):
                    pub = not any(seg.startswith("_") for seg in owner.id.split("/"))
                    c = A.Class(id=f"{owner.id}/{nm}", name=nm, superclasses=[shape.id.replace("/", ".")], is_public=pub,
                                docstring=D.ClassDocstring())
                    api.add_class(c)
                    owner.add_class(c)
                    all_classes.append((nm, c.id.replace("/", "."), c))
                self._zz_alias_reexport = (shape.id.replace("/", "."), "ZzBaseShape")
        # __init__ modules with reexports
        inits = []
        for sp in subpkgs:
            if r.random() < 0.6:
                qis, wis = [], []
                for _ in range(r.choice([1, 1, 2, 3])):
                    k = r.randrange(6)
                    tm = r.choice(modules)
                    tq = tm.id.replace("/", ".")
                    decls = [c.name for c in tm.classes] + [f.name for f in tm.global_functions]
                    if k <= 2 and decls:
                        d = r.choice(decls)
                        self._alias_n = getattr(self, "_alias_n", 0) + 1
                        alias = r.choice([None, None, None, "Alias" + d.strip("_").title().replace("_", ""), f"_hid{self._alias_n}"])
                        form = r.choice([f"{tq}.{d}", f"{tm.name}.{d}", f".{tm.name}.{d}"]) if r.random() < 0.4 else f"{tq}.{d}"
                        qis.append(A.QualifiedImport(form, alias))
                        self.feat("reexport_name" + ("_alias" if alias else ""))
                    elif k == 3:
                        wis.append(A.WildcardImport(r.choice([tq, tm.name])))
                        self.feat("reexport_star")
                    elif k == 4:
                        # aliases are unique within one __init__ (two modules under one alias is out of scope)
                        self._alias_n = getattr(self, "_alias_n", 0) + 1
                        al = r.choice([None, f"mod_alias{self._alias_n}", f"_m{self._alias_n}"])
                        qis.append(A.QualifiedImport(r.choice([tq, tm.name]), al))
                        self.feat("reexport_module")
                    else:
                        qis.append(A.QualifiedImport(r.choice(["os.path", "typing.Any", "numpy"]), None))
                im = A.Module(id_=sp, name="__init__", qualified_imports=qis, wildcard_imports=wis)
                inits.append(im)
        # one declaration re-exported by a deep package whose id sorts BEFORE that of a shallower re-exporting package
        # (the analyser keeps reexported_by sorted by id: [pkg/aa/bb, pkg/zz])
        if r.random() < 0.25:
            cands = [(tm, d) for tm in modules for d in [c.name for c in tm.classes if c.is_public] + [f.name for f in tm.global_functions if f.is_public]
                     if tm.id.count("/") >= 2]
            have = {im.id for im in inits}
            if cands and not ({"pkg/aa/bb", "pkg/zz"} & have):
                tm, d = r.choice(cands)
                for pid in ("pkg/aa/bb", "pkg/zz"):
                    inits.append(A.Module(id_=pid, name="__init__", qualified_imports=[A.QualifiedImport(f"{tm.id.replace('/', '.')}.{d}", None)],
                                          wildcard_imports=[]))
                self.feat("reexport_depth_inversion")
        if getattr(self, "_zz_alias_reexport", None):
            q, alias = self._zz_alias_reexport
            root_init = next((im for im in inits if im.id == "pkg"), None)
            if root_init is None:
                root_init = A.Module(id_="pkg", name="__init__", qualified_imports=[], wildcard_imports=[])
                inits.insert(0, root_init)
            root_init.qualified_imports.append(A.QualifiedImport(q, alias))
            self.feat("aliased_superclass_reexport")
        for im in inits:
            for qi in im.qualified_imports:
                api.reexport_map[qi.qualified_name].add(im)
            for wi in im.wildcard_imports:
                api.reexport_map[f"{wi.module_name}.*"].add(im)
        # reexported_by, computed the way the analyser does it
        vis = self.m.analyzer._ast_visitor.MyPyAstVisitor(None, api, {}, None, None) if hasattr(self.m.analyzer, "_ast_visitor") else None
        if vis is None:
            import importlib
            vm = importlib.import_module("safeds_stubgen.api_analyzer._ast_visitor")
            vis = vm.MyPyAstVisitor(None, api, {}, None, None)
        for m in modules:
            for c in m.classes:
                rb = vis._get_reexported_by(c.id.replace("/", "."))
                rb.sort(key=lambda x: x.id)
                c.reexported_by = rb
                if rb:
                    self.feat("class_reexported")
            for f in m.global_functions:
                rb = vis._get_reexported_by(f.id.replace("/", "."))
                rb.sort(key=lambda x: x.id)
                f.reexported_by = rb
                if rb:
                    self.feat("function_reexported")
        # module dict order: packages first, then modules (as _get_mypy_asts does), sometimes shuffled
        order = inits + modules
        if r.random() < 0.2:
            r.shuffle(order)
        for m in order:
            api.add_module(m)
        return api
