#!/usr/bin/env python3
"""T1 — table translator.

Parses the *working tree* of /repo with `ast` (no import of the package) and emits
lean/StubGen/Generated/Tables.lean: the constant tables the Lean model uses instead of
hand-copied literals.  A change to one of these tables in the source changes the generated
file and thereby the model; `Theorems/Tables.lean` states what the properties need of them.
"""
from __future__ import annotations

import ast
import sys
from pathlib import Path

REPO = Path(sys.argv[1] if len(sys.argv) > 1 else "/repo")
OUT = Path(sys.argv[2] if len(sys.argv) > 2 else Path(__file__).resolve().parent.parent / "lean/StubGen/Generated/Tables.lean")
SRC = REPO / "src/safeds_stubgen"


def lean_str(s: str) -> str:
    out = ['"']
    for ch in s:
        if ch == '"':
            out.append('\\"')
        elif ch == "\\":
            out.append("\\\\")
        elif ch == "\n":
            out.append("\\n")
        elif ch == "\t":
            out.append("\\t")
        elif ord(ch) < 32 or ord(ch) == 127:
            out.append("\\x%02x" % ord(ch))
        else:
            out.append(ch)
    out.append('"')
    return "".join(out)


def lean_list(xs) -> str:
    return "[" + ", ".join(lean_str(x) for x in xs) + "]"


def find_func(tree: ast.AST, name: str) -> ast.FunctionDef:
    for node in ast.walk(tree):
        if isinstance(node, ast.FunctionDef) and node.name == name:
            return node
    raise SystemExit(f"T1: function {name} not found")


def const_strs(node: ast.AST) -> list[str]:
    """String constants of a set/list/tuple display, in source order."""
    if not isinstance(node, (ast.Set, ast.List, ast.Tuple)):
        raise SystemExit(f"T1: expected a display, got {ast.dump(node)[:80]}")
    out = []
    for e in node.elts:
        if not (isinstance(e, ast.Constant) and isinstance(e.value, str)):
            raise SystemExit("T1: non-string element in display")
        out.append(e.value)
    return out


def main() -> None:
    helper = ast.parse((SRC / "stubs_generator/_helper.py").read_text())
    gen = ast.parse((SRC / "stubs_generator/_stub_string_generator.py").read_text())
    types = ast.parse((SRC / "api_analyzer/_types.py").read_text())
    get_api = ast.parse((SRC / "api_analyzer/_get_api.py").read_text())
    helpers_top = ast.parse((SRC / "_helpers.py").read_text())

    # 1. keyword table of _replace_if_safeds_keyword
    f = find_func(helper, "_replace_if_safeds_keyword")
    kw = None
    for node in ast.walk(f):
        if isinstance(node, ast.Compare) and len(node.ops) == 1 and isinstance(node.ops[0], ast.In):
            kw = const_strs(node.comparators[0])
    if kw is None:
        raise SystemExit("T1: keyword set not found")
    # how the keyword is wrapped: the f-string of the return inside the if
    wrap = None
    for node in ast.walk(f):
        if isinstance(node, ast.Return) and isinstance(node.value, ast.JoinedStr):
            parts = node.value.values
            pre = "".join(p.value for p in parts[:1] if isinstance(p, ast.Constant))
            post = "".join(p.value for p in parts[-1:] if isinstance(p, ast.Constant))
            wrap = (pre, post)
    if wrap is None:
        raise SystemExit("T1: keyword wrapping not found")

    # 2. INDENTATION
    indentation = None
    for node in helper.body:
        if isinstance(node, ast.Assign) and getattr(node.targets[0], "id", "") == "INDENTATION":
            indentation = node.value.value
    # 3. name annotation f-string
    f = find_func(helper, "_create_name_annotation")
    ann = None
    for node in ast.walk(f):
        if isinstance(node, ast.JoinedStr):
            parts = node.values
            ann = (parts[0].value if isinstance(parts[0], ast.Constant) else "",
                   parts[-1].value if isinstance(parts[-1], ast.Constant) else "")
    # 4. TODO messages dict of _create_todo_msg
    f = find_func(gen, "_create_todo_msg")
    todo = None
    for node in ast.walk(f):
        if isinstance(node, ast.Dict) and len(node.keys) > 3:
            todo = [(k.value, v.value) for k, v in zip(node.keys, node.values)]
    todo_prefix = None
    for node in ast.walk(f):
        if isinstance(node, ast.BinOp) and isinstance(node.left, ast.Constant) and isinstance(node.left.value, str) \
                and node.left.value.startswith("//"):
            todo_prefix = node.left.value
    # 5. builtin name -> Safe-DS name match in _create_type_string
    f = find_func(gen, "_create_type_string")
    builtin_map = []
    none_type_name = None
    for node in ast.walk(f):
        if isinstance(node, ast.Assign) and getattr(node.targets[0], "id", "") == "none_type_name":
            none_type_name = node.value.value
    for node in ast.walk(f):
        if isinstance(node, ast.Match) and isinstance(node.subject, ast.Name) and node.subject.id == "name":
            for case in node.cases:
                if isinstance(case.pattern, ast.MatchValue):
                    ret = case.body[0]
                    if isinstance(ret.value, ast.Constant):
                        builtin_map.append((case.pattern.value.value, ret.value.value))
                    elif isinstance(ret.value, ast.Name) and ret.value.id == "none_type_name":
                        builtin_map.append((case.pattern.value.value, none_type_name))
    # 6. kind strings of AbstractType.from_dict, in order
    kinds = []
    for node in ast.walk(types):
        if isinstance(node, ast.ClassDef) and node.name == "AbstractType":
            for m in ast.walk(node):
                if isinstance(m, ast.Match):
                    for case in m.cases:
                        p = case.pattern
                        if isinstance(p, ast.MatchValue) and isinstance(p.value, ast.Attribute):
                            kinds.append(p.value.value.id)
    # 7. excluded directory names of get_api
    f = find_func(get_api, "get_api")
    excl = []
    for node in ast.walk(f):
        if isinstance(node, ast.Compare) and isinstance(node.ops[0], ast.In) and isinstance(node.left, ast.Constant) \
                and isinstance(node.comparators[0], ast.Attribute) and node.comparators[0].attr == "parts":
            if node.left.value not in excl:
                excl.append(node.left.value)
    glob_pattern = None
    for node in ast.walk(f):
        if isinstance(node, ast.Call) and getattr(node.func, "attr", "") == "glob":
            for k in node.keywords:
                if k.arg == "pattern":
                    glob_pattern = k.value.value
            if node.args:
                glob_pattern = node.args[0].value
    # 8. is_internal prefix
    f = find_func(helpers_top, "is_internal")
    internal_prefix = None
    for node in ast.walk(f):
        if isinstance(node, ast.Call) and getattr(node.func, "attr", "") == "startswith":
            internal_prefix = node.args[0].value
    # 9. variance dict in _create_class_string
    f = find_func(gen, "_create_class_string")
    variance = []
    for node in ast.walk(f):
        if isinstance(node, ast.Dict) and node.keys and isinstance(node.keys[0], ast.Attribute):
            for k, v in zip(node.keys, node.values):
                # VarianceKind.INVARIANT.name
                variance.append((k.value.attr, v.value))
    # 10. the set of union member kinds that count as "named" for the nullable shorthand, and the
    #     sequence kinds of _create_type_string
    f = find_func(gen, "_create_type_string")
    named_kinds, seq_kinds = None, None
    for node in ast.walk(f):
        if isinstance(node, ast.Compare) and isinstance(node.ops[0], ast.In) and isinstance(node.comparators[0], ast.Set):
            vals = const_strs(node.comparators[0])
            if "DictType" in vals:
                named_kinds = vals
            elif "NamedSequenceType" in vals:
                seq_kinds = vals

    lines = [
        "/- GENERATED by tie/gen_tables.py from /repo's working tree — do not edit. -/",
        "namespace StubGen.Generated",
        "",
        f"def keywords : List String := {lean_list(kw)}",
        f"def keywordWrap : String × String := ({lean_str(wrap[0])}, {lean_str(wrap[1])})",
        f"def indentation : String := {lean_str(indentation)}",
        f"def nameAnnotation : String × String := ({lean_str(ann[0])}, {lean_str(ann[1])})",
        "def todoMessages : List (String × String) := [" + ", ".join(f"({lean_str(k)}, {lean_str(v)})" for k, v in todo) + "]",
        f"def todoPrefix : String := {lean_str(todo_prefix)}",
        "def builtinTypeNames : List (String × String) := [" + ", ".join(f"({lean_str(k)}, {lean_str(v)})" for k, v in builtin_map) + "]",
        f"def noneTypeName : String := {lean_str(none_type_name)}",
        f"def typeKinds : List String := {lean_list(kinds)}",
        f"def excludedDirs : List String := {lean_list(excl)}",
        f"def globPattern : String := {lean_str(glob_pattern)}",
        f"def internalPrefix : String := {lean_str(internal_prefix)}",
        "def varianceKeywords : List (String × String) := [" + ", ".join(f"({lean_str(k)}, {lean_str(v)})" for k, v in variance) + "]",
        f"def unionNamedKinds : List String := {lean_list(named_kinds)}",
        f"def sequenceKinds : List String := {lean_list(seq_kinds)}",
        "",
        "end StubGen.Generated",
        "",
    ]
    text = "\n".join(lines)
    OUT.parent.mkdir(parents=True, exist_ok=True)
    if not OUT.exists() or OUT.read_text() != text:
        OUT.write_text(text)
        print(f"T1: wrote {OUT}")
    else:
        print("T1: tables unchanged")


if __name__ == "__main__":
    main()
