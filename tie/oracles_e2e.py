"""Property oracles for end-to-end runs (S-E): ground truth = the package *specification* the sources
were rendered from (tie/pkggen.py); observed = the files the tool wrote (stubs parsed by the independent
recogniser, the API JSON).  Each `check_*` returns a list of failures (property, what, replay-extra);
they run in worker processes."""
from __future__ import annotations

import json
import re

import stubparse
from oracles_gen import MSG_KEY, canon_type_text, type_keys, type_text
from pkggen import ann_src, expected_api_type
from stage_names import spec_camel

IDENT = re.compile(r"^[A-Za-z_][A-Za-z0-9_]*$")


def is_private_name(n: str) -> bool:
    return n.startswith("_") and not n.endswith("__")


# --------------------------------------------------------------------------- truth index

class Truth:
    def __init__(self, pkg):
        self.pkg = pkg
        self.decls = {}           # python qualified name -> record
        self.modules = {m["qname"]: m for m in pkg["modules"]}
        for m in pkg["modules"]:
            path_private = any(seg.startswith("_") for seg in (m["pkg"][1:] + [m["name"]]))
            for f in m["functions"]:
                self.add(f"{m['qname']}.{f['name']}", "fun", f, m, None, path_private)
            if m.get("overload_fn"):
                spec = {"kind": "function", "name": "zz_overloaded", "method_kind": None, "is_property": False, "ret": None,
                        "returns": None, "doc": "", "result_doc": "", "result_doc_type": None, "synthetic": True,
                        "params": [{"name": "v", "kind": "POSITION_OR_NAME", "ann": None, "default": None, "doc": "", "doc_type": None}]}
                self.add(f"{m['qname']}.zz_overloaded", "fun", spec, m, None, path_private)
            for e in m["enums"]:
                self.add(f"{m['qname']}.{e['name']}", "enum", e, m, None, path_private)
                for mem in e["members"]:
                    self.add(f"{m['qname']}.{e['name']}.{mem}", "variant", {"name": mem}, m, e, path_private)
            for c in m["classes"]:
                self.add_class(c, m, None, path_private)
        # re-export table: (package qname, exported name) -> target qualified name
        self.reexports = {}
        self._claims = None
        self.star_modules = {}      # package -> [module qname]
        self.module_reexports = {}  # package -> [(module qname, alias or name)]
        for p, entries in pkg["inits"].items():
            pq = p.replace("/", ".")
            for e in entries:
                if e["form"] == "name":
                    self.reexports[(pq, e["alias"] or e["name"])] = (f"{e['module']}.{e['name']}", e["alias"])
                elif e["form"] == "star":
                    self.star_modules.setdefault(pq, []).append(e["module"])
                else:
                    self.module_reexports.setdefault(pq, []).append((e["module"], e["alias"] or e["name"]))

    def add(self, q, kind, spec, module, owner, path_private):
        self.decls[q] = {"q": q, "kind": kind, "spec": spec, "module": module, "owner": owner,
                         "path_private": path_private}

    def add_class(self, c, m, owner, path_private):
        q = c["qname"]
        self.add(q, "class", c, m, owner, path_private)
        for a in c["attrs"]:
            self.add(f"{q}.{a['name']}", "attr", a, m, c, path_private)
        seen = {a["name"] for a in c["attrs"]}
        for a in c["inst_attrs"]:
            if a["name"] not in seen:
                self.add(f"{q}.{a['name']}", "attr", a, m, c, path_private)
                self.decls[f"{q}.{a['name']}"]["inst"] = True
                seen.add(a["name"])
        for f in c["methods"]:
            self.add(f"{q}.{f['name']}", "prop" if f["is_property"] else "fun", f, m, c, path_private)
        # overloaded methods rendered from the class's `extras` (one implementation each)
        for flag, prefix, kind in (("overload", "ov_", "instance"), ("overload_static", "ovs_", "static")):
            if c.get("extras", {}).get(flag):
                n = prefix + c["name"].strip("_")
                spec = {"kind": "function", "name": n, "method_kind": kind, "is_property": False, "ret": None, "returns": None,
                        "doc": "", "result_doc": "", "result_doc_type": None, "synthetic": True,
                        "params": [{"name": "v", "kind": "POSITION_OR_NAME", "ann": None, "default": None, "doc": "", "doc_type": None}]}
                self.add(f"{q}.{n}", "fun", spec, m, c, path_private)
        if c["init"] is not None:
            self.add(f"{q}.__init__", "ctor", c["init"], m, c, path_private)
        for k in c["classes"]:
            self.add_class(k, m, c, path_private)

    def ancestor_attr_names(self, c, seen=None) -> set:
        """names of the attributes (class level or assigned in the constructor) of all ancestors of class spec c"""
        out = set()
        seen = seen if seen is not None else set()
        for b in c.get("bases", []):
            bq = b[1]
            if bq in seen or bq not in self.decls:
                continue
            seen.add(bq)
            bs = self.decls[bq]["spec"]
            out |= {a["name"] for a in bs.get("attrs", []) + bs.get("inst_attrs", [])}
            out |= {f["name"] for f in bs.get("methods", [])}
            if bs.get("extras", {}).get("seq_base"):
                out |= {"count", "index"}            # members of collections.abc.Sequence
            out |= self.ancestor_attr_names(bs, seen)
        return out

    def reassigns_inherited(self, d) -> bool:
        """`self.x = v` (no annotation) in a constructor for an x some ancestor defines: not a new attribute"""
        if not (d.get("inst") and d["spec"].get("ann") is None and d["owner"] is not None):
            return False
        names = self.ancestor_attr_names(d["owner"])
        if d["owner"].get("extras", {}).get("seq_base"):
            names |= {"count", "index"}
        return d["spec"]["name"] in names

    def alias_suffix_victim(self, d) -> bool:
        """the declaration (or its top-level owner) is re-exported by a package whose __init__ also re-exports, under an
        ALIAS, something whose name merely ENDS with this name: the tool then renames this declaration to the alias too
        (known finding K10-alias-suffix-match) and one of the two stubs is lost"""
        mq = d["module"]["qname"]
        top = d["q"][len(mq) + 1:].split(".")[0]
        for p, entries in self.pkg["inits"].items():
            aliased = [e for e in entries if e["form"] == "name" and e["alias"]]
            if not aliased:
                continue
            reexports_it = any((e["form"] == "star" and e["module"] == mq) or
                               (e["form"] == "name" and e["module"] == mq and e["name"] == top) for e in entries)
            if reexports_it and any(e["name"].endswith(top) and not (e["module"] == mq and e["name"] == top) for e in aliased):
                return True
        return False

    def touched_by_reexport(self, d) -> bool:
        """is the declaration (or something enclosing it) mentioned by any __init__ re-export?"""
        mq = d["module"]["qname"]
        q = d["q"]
        for (pq, name), (target, alias) in self.reexports.items():
            if q == target or q.startswith(target + "."):
                return True
            # the tool takes a declaration for re-exported when its qualified name ENDS with the qualified name written
            # in the import (Theorems/C04a ViaNameImport; suffix_interference is the known weakness): not judged
            if d["q"].endswith(target):
                return True
        for mods in self.star_modules.values():
            if mq in mods:
                return True
        for lst in self.module_reexports.values():
            if any(mq == x[0] for x in lst):
                return True
        return False

    def enclosing_private(self, d) -> bool:
        o = d["owner"]
        q = d["q"]
        parts = q[len(d["module"]["qname"]) + 1:].split(".")[:-1]
        return any(is_private_name(p) for p in parts)

    def plainly_public(self, d) -> bool:
        return (not is_private_name(d["spec"]["name"]) and not self.enclosing_private(d) and not d["path_private"])

    def plainly_private(self, d) -> bool:
        """private by convention and not touched by any re-export"""
        priv = is_private_name(d["spec"]["name"]) or self.enclosing_private(d) or d["path_private"]
        return priv and not self.touched_by_reexport(d)


# --------------------------------------------------------------------------- stub index

class Stubs:
    def __init__(self, files: dict[str, str]):
        self.parsed = {}
        self.errors = []
        self.decls = {}          # python qualified name -> [(decl, path)]
        for path, text in files.items():
            if not path.endswith(".sdsstub"):
                continue
            try:
                sf, idents = stubparse.parse(text)
            except stubparse.StubSyntaxError as e:
                self.errors.append((path, e))
                try:
                    sf, idents = stubparse.parse(text, lenient=True)
                except stubparse.StubSyntaxError:
                    continue
            self.parsed[path] = sf
            for d in sf.decls:
                self.index(sf.pymodule, d, path)

    def index(self, prefix, d, path):
        q = f"{prefix}.{d.pyname}"
        self.decls.setdefault(q, []).append((d, path))
        for m in d.members:
            self.index(q, m, path)


def unambiguous(truth: Truth, d) -> bool:
    """no other declaration of the package could appear under one of this declaration's locations"""
    if truth._claims is None:
        claims = {}
        for q2, d2 in truth.decls.items():
            for loc in set(_locations(truth, d2)):
                claims.setdefault(loc, set()).add(q2)
        truth._claims = claims
    return all(len(truth._claims.get(loc, ())) <= 1 for loc in set(_locations(truth, d)))


def locations(truth: Truth, d) -> list[str]:
    return _locations(truth, d) if unambiguous(truth, d) else []


def _locations(truth: Truth, d) -> list[str]:
    """qualified names under which a declaration may legitimately appear in the stubs"""
    out = [d["q"]]
    for (pq, name), (target, alias) in truth.reexports.items():
        if d["q"] == target:
            out.append(f"{pq}.{name}")
            if alias:
                # an aliased re-export may also surface under its own name in the re-exporting package (the alias is an
                # annotation of the layout, C10; here only presence and multiplicity are judged)
                out.append(f"{pq}.{target.split('.')[-1]}")
        elif d["q"].startswith(target + "."):
            out.append(f"{pq}.{name}" + d["q"][len(target):])
            if alias:
                out.append(f"{pq}.{target.split('.')[-1]}" + d["q"][len(target):])
    # a module re-exported on a shorter path moves its whole stub: <package>.<module or alias>.X
    mq = d["module"]["qname"]
    rest = d["q"][len(mq):]
    for pq, lst in truth.module_reexports.items():
        for (m, nm) in lst:
            if m == mq:
                out.append(f"{pq}.{nm}{rest}")
                out.append(f"{pq}{rest}")
    for pq, mods in truth.star_modules.items():
        if mq in mods:
            out.append(f"{pq}{rest}")
            out.append(f"{pq}.{d['module']['name']}{rest}")
    return out


# --------------------------------------------------------------------------- expectations from the spec

def conv(n, safe, cls=False):
    return spec_camel(n, cls) if safe else n


def expected_default(p):
    v = p["default"][1]
    if v is None:
        return "null"
    if isinstance(v, bool):
        return "true" if v else "false"
    if isinstance(v, str):
        import oracles_gen
        return oracles_gen.sds_string(v)
    return f"{v}"


def expected_param_api_type(p):
    """API type per the documented mapping (None = no type expected / not judged)"""
    if p["ann"] is not None:
        t = expected_api_type(p["ann"])
        if p["kind"] == "POSITIONAL_VARARG":
            return {"kind": "ListType", "types": [t]}
        if p["kind"] == "NAMED_VARARG":
            return {"kind": "DictType", "key_type": {"kind": "NamedType", "name": "str", "qname": "builtins.str"},
                    "value_type": t}
        return t
    if p["default"] is not None:
        v = p["default"][1]
        n = "None" if v is None else type(v).__name__
        return {"kind": "NamedType", "name": n, "qname": f"builtins.{n}"}
    return None


def fun_marker_keys(f, is_method) -> tuple[set, set]:
    """(markers that must be there, markers that may be there)"""
    must, may = set(), set()
    if f.get("method_kind") == "class":
        must.add("class_method")
    for p in f["params"]:
        t = expected_param_api_type(p)
        if t is None:
            must.add("param without type")
        else:
            if p["kind"] != "POSITIONAL_VARARG":
                must |= type_keys(t)
            else:
                must |= type_keys(t)
        if p["kind"] == "POSITION_ONLY" and p["default"] is not None:
            must.add("OPT_POS_ONLY")
        if p["kind"] == "NAME_ONLY" and p["default"] is None:
            must.add("REQ_NAME_ONLY")
        if "VARARG" in p["kind"]:
            must.add("variadic")
    if f["ret"] is not None:
        if f["ret"] != ("None",):
            rt = expected_api_type(f["ret"])
            if rt["kind"] == "TupleType":
                for x in rt["types"]:
                    must |= type_keys(x)
            else:
                must |= type_keys(rt)
    elif f["returns"] is None and f["name"] != "__init__":
        must.add("result without type")
    else:
        may |= {"result without type", "no tuple support"}
    may.add("internal class as type")
    return must, may | must


def members_of(t) -> set:
    """flattened member names of a parsed result type (for the 'covers' check)"""
    if t is None:
        return set()
    if t[0] == "nullable":
        return members_of(t[1]) | {"Nothing"}
    if t[0] == "union":
        out = set()
        for x in t[1]:
            out |= members_of(x)
        return out
    if t[0] == "named":
        return {t[1]}
    return {stubparse.render_type(t)}


LIT_NAME = {"int": "Int", "float": "Float", "str": "String", "bool": "Boolean", "None": "Nothing"}


# --------------------------------------------------------------------------- the checks

def check_all(prop: str, pkg, opts, res) -> list:
    fails = []

    def fail(p, what, **extra):
        if p == prop:
            fails.append((p, what, extra))

    if res["outcome"] == "exc":
        fail("C01", f"internal error {res['exc']} in {res['site']}: {res.get('msg', '')[:120]}", exc=res["exc"], site=res["site"])
        return fails
    if res["outcome"] == "NoFiles":
        return fails
    safe = opts.get("convert", False)
    truth = Truth(pkg)
    stubs = Stubs(res["files"])
    api = res["api"]

    # ---------------- C01: both outputs written
    if api is None:
        fail("C01", "run completed without writing the API JSON file")

    # ---------------- C02
    for path, e in stubs.errors:
        fail("C02", f"stub does not parse: {e.msg}", path=path, error=str(e))
    if prop == "C02":
        return fails

    excluded = set()
    if not opts.get("test_run", False):
        for m in pkg["modules"]:
            if set(m["pkg"] + [m["name"]]) & {"test", "tests", "docs"}:
                excluded.add(m["qname"])

    # ---------------- C03 / C04 / C17: which declarations appear, how often
    if prop in ("C03", "C04"):
        for q, d in truth.decls.items():
            if d["module"]["qname"] in excluded or d["kind"] == "ctor":
                continue
            if d["kind"] == "variant" or (d["owner"] is not None and d["owner"].get("kind") == "enum"):
                continue
            locs = locations(truth, d)
            if not locs or truth.reassigns_inherited(d):
                continue
            found = [(x, loc) for loc in dict.fromkeys(locs) for x in stubs.decls.get(loc, [])]
            # a class that derives from Exception is dropped on purpose; our classes never do
            if truth.plainly_public(d):
                owner_ok = True
                o = d["owner"]
                if prop == "C03":
                    if d["kind"] == "attr" and d["spec"].get("ann") is None and "value" in d["spec"] and False:
                        continue
                    if len(found) == 0:
                        fail("C03", f"public {d['kind']} {q} is missing from the stubs", decl=q, kind=d["kind"],
                             alias_suffix_victim=truth.alias_suffix_victim(d))
                    elif len(found) > 1:
                        fail("C03", f"public {d['kind']} {q} appears {len(found)} times", decl=q,
                             paths=[p for (_, p), _ in found])
            elif truth.plainly_private(d) and prop == "C04":
                if d["kind"] == "enum" or d["kind"] == "variant":
                    own = stubs.decls.get(q, [])
                    if own:
                        fail("C04", f"private enum {q} appears in the stubs", decl=q, kind="enum")
                    continue
                own = stubs.decls.get(q, [])
                if own:
                    fail("C04", f"private {d['kind']} {q} appears in the stubs", decl=q, kind=d["kind"])
        if prop == "C04" and api is not None:
            by_id = {}
            for key in ("classes", "functions", "attributes"):
                for x in api.get(key, []):
                    by_id[x["id"]] = x
            for q, d in truth.decls.items():
                if d["module"]["qname"] in excluded or d["kind"] in ("enum", "variant", "ctor"):
                    continue
                x = by_id.get(q.replace(".", "/"))
                if x is None:
                    continue
                if truth.plainly_public(d) and x["is_public"] is not True:
                    fail("C04", f"API JSON marks public {d['kind']} {q} as non-public", decl=q)
                if truth.plainly_private(d) and x["is_public"] is not False:
                    fail("C04", f"API JSON marks private {d['kind']} {q} as public", decl=q)

    # ---------------- per-function checks: C05, C06, C07, C20, C13, C14
    if prop in ("C05", "C06", "C07", "C20", "C13", "C14"):
        for q, d in truth.decls.items():
            if d["module"]["qname"] in excluded:
                continue
            if d["kind"] in ("fun", "ctor"):
                f = d["spec"]
                if f.get("synthetic"):
                    continue          # judged for presence (C03) and inventory (C12) only
                if d["kind"] == "ctor":
                    owner_q = q[: -len(".__init__")]
                    od = truth.decls[owner_q]
                    if not truth.plainly_public(od):
                        continue
                    found = [x for loc in dict.fromkeys(locations(truth, od)) for x in stubs.decls.get(loc, [])]
                    if len(found) != 1:
                        continue
                    decl, path = found[0]
                    if decl.params is None:
                        continue
                    check_function(fail, prop, q, f, decl, path, safe, True, opts, is_ctor=True, warnings=res.get("warnings", ()))
                else:
                    if not truth.plainly_public(d):
                        continue
                    found = [x for loc in dict.fromkeys(locations(truth, d)) for x in stubs.decls.get(loc, [])]
                    if len(found) != 1:
                        continue
                    decl, path = found[0]
                    if decl.kind != "fun":
                        continue
                    check_function(fail, prop, q, f, decl, path, safe, d["owner"] is not None, opts, warnings=res.get("warnings", ()))
            elif d["kind"] == "attr" and prop in ("C05", "C20") and truth.plainly_public(d):
                found = [x for loc in dict.fromkeys(locations(truth, d)) for x in stubs.decls.get(loc, [])]
                if len(found) != 1:
                    continue
                decl, path = found[0]
                a = d["spec"]
                if a.get("ann") is not None and prop == "C05":
                    want = canon_or_none(type_text(expected_api_type(a["ann"]), safe))
                    got = stubparse.render_type(decl.type)
                    if want is not None and got != want:
                        fail("C05", f"attribute {q}: type {got!r}, expected {want!r}", decl=q, annotation=ann_src(a["ann"]))
            elif d["kind"] == "prop" and prop == "C05" and truth.plainly_public(d):
                found = [x for loc in dict.fromkeys(locations(truth, d)) for x in stubs.decls.get(loc, [])]
                if len(found) != 1:
                    continue
                decl, path = found[0]
                f = d["spec"]
                if f["ret"] is not None and decl.kind == "attr":
                    want = canon_or_none(type_text(expected_api_type(f["ret"]), safe))
                    got = stubparse.render_type(decl.type)
                    if want is not None and got != want:
                        fail("C05", f"property {q}: type {got!r}, expected {want!r}", decl=q, annotation=ann_src(f["ret"]))
            # ---- C13: attribute descriptions (numpydoc / google "Attributes" sections)
            if prop == "C13" and d["kind"] == "attr" and d["spec"].get("doc") and truth.plainly_public(d) \
                    and opts.get("style") in ("numpydoc", "google"):
                found = [x for loc in dict.fromkeys(locations(truth, d)) for x in stubs.decls.get(loc, [])]
                if len(found) == 1:
                    decl, path = found[0]
                    mark = d["spec"]["doc"]
                    if mark not in "\n".join(stubparse.doc_lines(decl.doc)):
                        fail("C13", f"description of attribute {q} is missing from its documentation comment",
                             decl=q, marker=mark)
            # ---- C13: documentation text reaches its element
            if prop == "C13" and d["spec"].get("doc") and truth.plainly_public(d) and d["kind"] in ("fun", "class", "enum", "prop"):
                found = [x for loc in dict.fromkeys(locations(truth, d)) for x in stubs.decls.get(loc, [])]
                if len(found) == 1:
                    decl, path = found[0]
                    mark = d["spec"]["doc"]
                    if mark not in "\n".join(stubparse.doc_lines(decl.doc)):
                        fail("C13", f"description of {q} is missing from its documentation comment", decl=q, marker=mark)
        if prop == "C13" and opts.get("style") in ("numpydoc", "google", "rest"):
            # parameter descriptions reach the @param line of their own function (constructor parameters: the class comment;
            # their descriptions are written into the __init__ docstring, which only the numpydoc reader consults)
            for q, d in truth.decls.items():
                if d["module"]["qname"] in excluded or d["kind"] not in ("fun", "ctor") or d["spec"].get("synthetic"):
                    continue
                if d["kind"] == "ctor":
                    if opts.get("style") != "numpydoc":
                        continue
                    od = truth.decls[q[: -len(".__init__")]]
                else:
                    od = d
                if not truth.plainly_public(od) or (d["kind"] == "fun" and not truth.plainly_public(d)):
                    continue
                found = [x for loc in dict.fromkeys(locations(truth, od)) for x in stubs.decls.get(loc, [])]
                if len(found) != 1 or not found[0][0].doc:
                    if len(found) == 1 and any(p["doc"] for p in d["spec"]["params"]) and d["kind"] == "ctor":
                        fail("C13", f"the parameter descriptions of {q} are missing: the class has no documentation comment", decl=q)
                    continue
                text = "\n".join(stubparse.doc_lines(found[0][0].doc))
                for p in d["spec"]["params"]:
                    if p["doc"] and p["doc"] not in text:
                        fail("C13", f"description of parameter {p['name']!r} of {q} is missing from the documentation comment",
                             decl=q, param=p["name"], marker=p["doc"])
        if prop == "C13":
            # every marker occurs in the documentation of its own element only
            all_text = "\n".join(t for p, t in res["files"].items() if p.endswith(".sdsstub"))
            for q, d in truth.decls.items():
                mark = d["spec"].get("doc")
                if not mark or d["kind"] not in ("fun", "class", "prop", "enum"):
                    continue
                own_name = d["spec"]["name"]
                for path, sf in stubs.parsed.items():
                    for decl, owner_chain in walk_decls(sf):
                        if decl.doc and mark in decl.doc and decl.pyname != own_name:
                            fail("C13", f"description of {q} appears in the comment of {decl.pyname!r}", decl=q, path=path)

    # ---------------- C17: members of private ancestors, sub clause
    if prop == "C17":
        check_inheritance(fail, truth, stubs, safe, excluded)

    # ---------------- C10 / C11 on the parsed files
    if prop == "C10":
        for path, sf in stubs.parsed.items():
            parts = path.split("/")
            if ".." in parts or path.startswith("/"):
                fail("C10", f"stub path {path!r} leaves the output directory", path=path)
            if parts[:-1] != sf.pymodule.split("."):
                fail("C10", f"stub at {path!r} announces python module {sf.pymodule!r}", path=path, announced=sf.pymodule)
            if parts[-1].startswith("_") or not parts[-1].endswith(".sdsstub"):
                fail("C10", f"stub file name {parts[-1]!r}", path=path)
        api_files = [p for p in res["files"] if p.endswith("__api.json")]
        if api_files != [f"{pkg['root']}__api.json"]:
            fail("C10", f"API file(s) {api_files}, expected {pkg['root']}__api.json")
    if prop == "C11":
        check_refs(fail, stubs, safe, truth)
    if prop in ("C12", "C06") and api is not None:      # C06: the passing kind, optionality and default recorded in the API JSON
        check_inventory(fail, truth, api, excluded)
    return fails


def check_inheritance(fail, truth: Truth, stubs: Stubs, safe, excluded):
    """C17 on real packages: a public class shows every public-named method of its private ancestors exactly once
    (own definitions first, nearer ancestors before farther ones); the sub clause names the non-private bases in order"""
    for q, d in truth.decls.items():
        if d["kind"] != "class" or d["module"]["qname"] in excluded or not truth.plainly_public(d):
            continue
        c = d["spec"]
        if not c["bases"]:
            continue
        found = [x for loc in dict.fromkeys(locations(truth, d)) for x in stubs.decls.get(loc, [])]
        if len(found) != 1:
            continue
        decl, path = found[0]
        # private ancestors in the order the tool inlines them; a class reached twice is a diamond (K17)
        order, seen_q, diamond, unresolved = [], set(), False, False

        def visit(spec):
            nonlocal diamond, unresolved
            for (bn, bq) in spec["bases"]:
                if not bn.startswith("_"):
                    continue
                if bq in seen_q:
                    diamond = True
                    continue
                seen_q.add(bq)
                bd = truth.decls.get(bq)
                if bd is None or bd["module"]["qname"] in excluded:
                    unresolved = True
                    continue
                order.append(bd["spec"])
                visit(bd["spec"])
        visit(c)
        if unresolved:
            continue

        def closure(spec, acc):
            for (bn, bq) in spec["bases"]:
                bd = truth.decls.get(bq) if bn.startswith("_") else None
                if bd is not None and all(bd["spec"] is not x for x in acc):
                    acc.append(bd["spec"])
                    closure(bd["spec"], acc)
            return acc
        branches = [closure(truth.decls[bq]["spec"], [truth.decls[bq]["spec"]]) for (bn, bq) in c["bases"]
                    if bn.startswith("_") and truth.decls.get(bq) is not None]

        def in_two(n):
            """the member is defined under two DIFFERENT direct private bases (K17-two-private-bases-same-member)"""
            return sum(1 for br in branches if any(f["name"] == n for a in br for f in a["methods"])) >= 2
        own = {a["name"] for a in c["attrs"] + c["inst_attrs"]} | {f["name"] for f in c["methods"]} | {k["name"] for k in c["classes"]}
        own_emitted = {n for n in own if not is_private_name(n)}
        expected = []
        hidden = set(own_emitted)
        for anc in order:
            for f in anc["methods"]:
                if f["name"].startswith("_") or f["name"] in hidden:
                    continue
                expected.append(f["name"])
                hidden.add(f["name"])
            # overloads rendered from extras
            for flag, prefix in (("overload", "ov_"), ("overload_static", "ovs_")):
                if anc.get("extras", {}).get(flag):
                    n = prefix + anc["name"].strip("_")
                    if n not in hidden:
                        expected.append(n)
                        hidden.add(n)
        members = [m for m in decl.members if m.kind in ("fun", "attr")]
        counts = {}
        for m in members:
            counts[m.pyname] = counts.get(m.pyname, 0) + 1
        for n in expected:
            k = counts.get(n, 0)
            if k != 1:
                fail("C17", f"class {q}: method {n!r} of a private ancestor appears {k} times in its stub", decl=q, member=n,
                     private_diamond=diamond, two_private_bases=(k > 1 and in_two(n)), path=path)
        for n, k in counts.items():
            if k > 1 and n not in expected and n in {f["name"] for a in order for f in a["methods"]}:
                fail("C17", f"class {q}: member {n!r} appears {k} times although the class defines it itself", decl=q, member=n,
                     private_diamond=diamond, path=path)
        # `object`, the implicit base of every class, is no superclass of the stub
        want_supers = [conv(bn, safe, True) for (bn, bq) in c["bases"] if not bn.startswith("_") and bq != "builtins.object"]
        got_supers = [stubparse.render_type(s_).split(".")[-1].strip("`") for s_ in decl.supers]
        if c.get("extras", {}).get("seq_base"):
            continue
        # the sub clause is not converted like declarations are (naming is C09's business): compare up to case/underscores
        norm = lambda xs: [x.replace("_", "").lower() for x in xs]
        if norm(got_supers) != norm(want_supers):
            fail("C17", f"class {q}: sub clause {got_supers}, the non-private base classes are {want_supers}", decl=q, path=path,
                 private_diamond=diamond)


def walk_decls(sf):
    def rec(d, chain):
        yield d, chain
        for m in d.members:
            yield from rec(m, chain + [d])
    for d in sf.decls:
        yield from rec(d, [])


def canon_or_none(text):
    try:
        return canon_type_text(text) if text else ""
    except stubparse.StubSyntaxError:
        return None


def canon_api_type(t):
    """API type dict with union members in a canonical order (== on API union types ignores the order)"""
    if isinstance(t, dict):
        d = {k: canon_api_type(v) for k, v in t.items()}
        if d.get("kind") == "UnionType":
            d["types"] = sorted(d["types"], key=lambda x: json.dumps(x, sort_keys=True))
        return d
    if isinstance(t, list):
        return [canon_api_type(x) for x in t]
    return t


def check_type_sources(fail, q, f, decl, safe, opts, is_ctor, warnings):
    """C14: hint vs docstring type per parameter and result, and the discrepancy warnings.

    griffe substitutes the hint of the signature for a docstring entry without a type (and, in reST style, for a
    parameter whose `:type:` line follows its `:param:` line; in Google style for an unnamed `Returns:` entry of a
    function with a return hint).  In those situations the docstring type the tool sees is griffe's reading of the
    hint: failures there carry `signature_fallback: True` (known finding K14-signature-fallback)."""
    style = opts.get("style", "plaintext")
    structured = style != "plaintext"
    pref_doc = opts.get("tsp", "CODE") == "DOCSTRING"
    warn = opts.get("tsw", "WARN") == "WARN"
    if is_ctor and style != "numpydoc":
        return                    # Google / reST: constructor parameters are looked up in the class docstring only
    fid = q.replace(".", "/")
    mine = [w for w in warnings if w == f"Different type hint and docstring types for '{fid}'."]
    mine_res = [w for w in warnings if w == f"Different type hint and docstring types for the result of '{fid}'."]
    got = decl.params or []
    params = f["params"]
    type_first = f.get("rest_type_first", True)
    must_warn = False
    fallback_here = False
    explicit_doc_type = False
    if len(got) == len(params):
        for p, g in zip(params, got):
            documented = structured and bool(p["doc"] or p.get("doc_type"))
            doc = expected_api_type(p["doc_type"][0]) if structured and p.get("doc_type") else None
            hint = expected_api_type(p["ann"]) if p["ann"] is not None else None
            code_side = hint is not None or p["default"] is not None
            fallback = documented and code_side and (doc is None or (style == "rest" and not type_first))
            fallback_here = fallback_here or fallback
            explicit_doc_type = explicit_doc_type or (doc is not None and not fallback)
            if "VARARG" in p["kind"]:
                continue
            if p["ann"] is None and p["default"] is not None:
                continue          # the code side is a type inferred from the default value: not a hint, not judged
            if fallback:
                expected = hint
            else:
                if hint is not None and doc is not None and canon_api_type(hint) != canon_api_type(doc):
                    must_warn = True
                expected = doc if (doc is not None and (pref_doc or hint is None)) else hint
            if expected is None:
                continue
            want = canon_or_none(type_text(expected, safe))
            gt = stubparse.render_type(g.type)
            if want is not None and gt != want:
                src = "docstring" if expected is doc else "hint"
                fail("C14", f"{q}: parameter {p['name']!r} has type {gt!r}; the {src} type {want!r} applies "
                            f"(hint {'present' if hint is not None else 'absent'}, docstring type "
                            f"{'present' if doc is not None else 'absent'}, preference {opts.get('tsp', 'CODE')})",
                     decl=q, param=p["name"], hint=ann_src(p["ann"]) if p["ann"] is not None else None,
                     doc_type=ann_src(p["doc_type"][0]) if p.get("doc_type") else None, signature_fallback=fallback)
    else:
        return
    if not warn and (mine or mine_res):
        fail("C14", f"{q}: a type discrepancy warning is logged although warnings are disabled", decl=q)
    if warn and must_warn and not mine:
        fail("C14", f"{q}: hint and docstring type of a parameter differ but no warning is logged", decl=q)
    # variadic parameters are not judged (the hint of `*a: int` / `**k: int` is rendered as a list / map type, the docstring
    # describes one element): a documented variadic parameter may or may not raise the warning
    documented_vararg = any("VARARG" in p["kind"] and p.get("doc_type") for p in params)
    if warn and mine and explicit_doc_type and not must_warn and not fallback_here and not documented_vararg and \
            len(got) == len(params) and all(p.get("doc_type") is None or (p["ann"] is not None and
                                                canon_api_type(expected_api_type(p["ann"])) == canon_api_type(expected_api_type(p["doc_type"][0])))
                for p in params):
        fail("C14", f"{q}: a parameter type warning is logged although every documented parameter type equals its hint", decl=q)
    if warn and mine and not explicit_doc_type:
        fail("C14", f"{q}: a parameter type warning is logged although the docstring gives no parameter type", decl=q,
             signature_fallback=fallback_here)
    # result
    if not is_ctor and decl.kind == "fun":
        documented = structured and bool(f.get("result_doc"))
        rdt = f.get("result_doc_type") if documented else None
        doc = expected_api_type(rdt[0]) if rdt else None
        ret = f["ret"]
        if ret is not None and ret[0] == "tuple" and f.get("result_docs") and style == "numpydoc":
            # one named entry per component: the docstring type of an entry applies to the result at ITS position
            comps = list(ret[1:])
            entries = f["result_docs"]
            if len(decl.results) == len(comps) == len(entries):
                for i, (comp, e, (rn, rt)) in enumerate(zip(comps, entries, decl.results)):
                    hint = expected_api_type(comp)
                    doc = expected_api_type(e["type"]) if e["type"] is not None else None
                    fallback = doc is None          # griffe fills in the component of the signature's tuple
                    expected = hint if fallback else (doc if pref_doc else hint)
                    want = canon_or_none(type_text(expected, safe))
                    gt = stubparse.render_type(rt)
                    if want is not None and gt != want:
                        fail("C14", f"{q}: result {i + 1} has type {gt!r}; expected {want!r} (preference {opts.get('tsp', 'CODE')}, "
                                    f"docstring entry {e['kind']})", decl=q, position=i + 1, signature_fallback=fallback,
                             entries=[x["kind"] for x in entries])
            return
        if ret is not None and (ret == ("None",) or ret[0] == "tuple"):
            return
        if ret is None and f["returns"] is not None:
            return                # code side = inferred types: not judged
        hint = expected_api_type(ret) if ret is not None else None
        fallback = documented and hint is not None and (doc is None or style == "google")
        if fallback:
            expected = hint
        else:
            expected = doc if (doc is not None and (pref_doc or hint is None)) else hint
            if hint is not None and doc is not None and warn and canon_api_type(hint) != canon_api_type(doc) and not mine_res:
                fail("C14", f"{q}: hint and docstring type of the result differ but no warning is logged", decl=q)
        if warn and mine_res and (doc is None or fallback):
            fail("C14", f"{q}: a result type warning is logged although the docstring type does not reach the tool", decl=q,
                 signature_fallback=fallback)
        if expected is not None and len(decl.results) == 1:
            want = canon_or_none(type_text(expected, safe))
            gt = stubparse.render_type(decl.results[0][1])
            if want is not None and gt != want:
                fail("C14", f"{q}: result has type {gt!r}; expected {want!r} (preference {opts.get('tsp', 'CODE')})", decl=q,
                     hint=ann_src(ret) if ret is not None else None, doc_type=ann_src(rdt[0]) if rdt else None,
                     signature_fallback=fallback)
        elif expected is not None and len(decl.results) != 1:
            fail("C14", f"{q}: {len(decl.results)} results although exactly one source-typed result is described", decl=q,
                 signature_fallback=fallback)


def check_cross(prop, pkg, runs) -> list:
    """properties that relate several runs on one package; runs = [(opts, res)]"""
    fails = []
    if prop == "C09":
        import oracles_gen
        off = [r for o, r in runs if not o.get("convert", False) and r["outcome"] == "ok"]
        on = [r for o, r in runs if o.get("convert", False) and r["outcome"] == "ok"]

        class _Ctx:
            prop = "C09"

            def oracle_failure(self, p, what, replay):
                fails.append((p, what, {k: v for k, v in replay.items() if k != "stage"}))
        if off and on:
            stub = lambda r: {p: t for p, t in r["files"].items() if p.endswith(".sdsstub")}
            oracles_gen.check_flag_pair(_Ctx(), "e2e", ("ok", None, None, stub(off[0])), ("ok", None, None, stub(on[0])))
    if prop == "C16":
        for opts, res in runs:
            again = res.get("second_run")
            if again is None:
                continue
            if again["outcome"] != res["outcome"]:
                fails.append(("C16", f"a second run into the same output directory ends with {again['outcome']}", {"options": opts}))
            elif again["files"] != res["files"]:
                bad = sorted(p for p in set(res["files"]) | set(again["files"]) if res["files"].get(p) != again["files"].get(p))
                fails.append(("C16", f"a second run into the same output directory changed {bad[:3]}",
                              {"options": opts, "paths": bad[:5], "first": {p: res['files'].get(p) for p in bad[:1]},
                               "second": {p: again['files'].get(p) for p in bad[:1]}}))
    if prop == "C14":
        by = {}
        for opts, res in runs:
            key = (opts.get("style"), opts.get("tsp", "CODE"), opts.get("convert", False), opts.get("test_run", False))
            by.setdefault(key, []).append((opts, res))
        for key, group in by.items():
            for (o1, r1), (o2, r2) in zip(group, group[1:]):
                if r1["outcome"] != r2["outcome"] or r1["files"] != r2["files"]:
                    bad = sorted(p for p in set(r1["files"]) | set(r2["files"]) if r1["files"].get(p) != r2["files"].get(p))
                    fails.append(("C14", f"generated files differ between warning settings {o1.get('tsw')} and {o2.get('tsw')}: {bad[:3]}",
                                  {"options": [o1, o2], "paths": bad[:5]}))
    return fails


def check_function(fail, prop, q, f, decl, path, safe, is_method, opts, is_ctor=False, warnings=()):
    params = f["params"]
    got = decl.params or []
    docstring_types = opts.get("style", "plaintext") != "plaintext" and False
    if prop == "C06":
        if len(got) != len(params):
            fail("C06", f"{q}: {len(got)} stub parameters for {len(params)} Python parameters (receiver removed)",
                 decl=q, expected=[p["name"] for p in params], got=[g.name for g in got])
        else:
            for p, g in zip(params, got):
                pyname = g.python_name if g.python_name is not None else g.name
                if pyname != p["name"]:
                    fail("C06", f"{q}: parameter {p['name']!r} appears as {pyname!r}", decl=q, param=p["name"])
                if (g.default is not None) != (p["default"] is not None):
                    fail("C06", f"{q}: parameter {p['name']!r} optional in stub = {g.default is not None}, in Python = {p['default'] is not None}",
                         decl=q, param=p["name"])
                elif p["default"] is not None and g.default != expected_default(p):
                    fail("C06", f"{q}: parameter {p['name']!r} default {g.default!r}, expected {expected_default(p)!r}",
                         decl=q, param=p["name"])
    if prop == "C05" and len(got) == len(params):
        for p, g in zip(params, got):
            t = expected_param_api_type(p)
            if t is None:
                continue
            want = canon_or_none(type_text(t, safe))
            gt = stubparse.render_type(g.type)
            if want is not None and gt != want:
                fail("C05", f"{q}: parameter {p['name']!r} type {gt!r}, expected {want!r}", decl=q,
                     annotation=ann_src(p["ann"]) if p["ann"] is not None else None)
    if prop in ("C07", "C05") and not is_ctor:
        res = decl.results
        if f["ret"] is not None:
            if f["ret"] == ("None",):
                exp = []
            else:
                rt = expected_api_type(f["ret"])
                exp = rt["types"] if rt["kind"] == "TupleType" else [rt]
            if prop == "C07":
                if len(res) != len(exp):
                    fail("C07", f"{q}: {len(res)} results, annotation {ann_src(f['ret'])} calls for {len(exp)}", decl=q)
                else:
                    for i, (n, _) in enumerate(res):
                        if n != conv(f"result_{i + 1}", safe) and opts.get("style") == "plaintext":
                            fail("C07", f"{q}: result {i + 1} is named {n!r}", decl=q)
            if prop == "C05" and len(res) == len(exp):
                for (n, gt), t in zip(res, exp):
                    want = canon_or_none(type_text(t, safe))
                    if want is not None and stubparse.render_type(gt) != want:
                        fail("C05", f"{q}: result type {stubparse.render_type(gt)!r}, expected {want!r}", decl=q,
                             annotation=ann_src(f["ret"]))
        elif prop == "C07":
            if f["returns"] is None:
                if res:
                    fail("C07", f"{q}: results {[n for n, _ in res]} for a function without annotation or return value", decl=q)
            else:
                rets = f["returns"]["rets"]
                width = max([len(r) for r in rets] + [0])
                all_none = all(v[1] == "None" for r in rets for v in r) or not rets
                if not all_none or res:
                    for i in range(width):
                        need = set()
                        for r in rets:
                            if len(r) > i:
                                need.add(LIT_NAME[r[i][1]])
                        if i >= len(res):
                            if need - {"Nothing"}:
                                fail("C07", f"{q}: no result at position {i + 1} although returns produce {sorted(need)}", decl=q)
                            continue
                        have = members_of(res[i][1])
                        if not need <= have:
                            fail("C07", f"{q}: result {i + 1} has type members {sorted(have)}, return statements produce {sorted(need)}",
                                 decl=q, returns=[[v[0] for v in r] for r in rets])
    if prop == "C14":
        check_type_sources(fail, q, f, decl, safe, opts, is_ctor, warnings)
    if prop == "C20":
        keys, unknown = set(), []
        for line in decl.todos:
            k = MSG_KEY.get(line.strip())
            if k is None:
                unknown.append(line)
            else:
                keys.add(k)
        if is_ctor:
            must, may = set(), set()
            for p in params:
                t = expected_param_api_type(p)
                if t is None:
                    must.add("param without type")
                else:
                    must |= type_keys(t)
                if p["kind"] == "POSITION_ONLY" and p["default"] is not None:
                    must.add("OPT_POS_ONLY")
                if p["kind"] == "NAME_ONLY" and p["default"] is None:
                    must.add("REQ_NAME_ONLY")
                if "VARARG" in p["kind"]:
                    must.add("variadic")
            may = must | {"multiple_inheritance", "internal class as type"}
        else:
            must, may = fun_marker_keys(f, is_method)
        for u in unknown:
            fail("C20", f"{q}: unknown TODO line {u!r}", decl=q)
        if not (must <= keys <= may):
            fail("C20", f"{q}: markers {sorted(keys)}; features call for {sorted(must)}", decl=q,
                 missing=sorted(must - keys), extra=sorted(keys - may))


BUILTIN_TYPES = {"Int", "String", "Boolean", "Float", "Nothing", "Any", "List", "Map", "Set", "Tuple"}


def check_refs(fail, stubs: Stubs, safe, truth: Truth = None):
    """C11.  Every failure carries the facts needed to recognise the known defect classes (K11-*): whether the
    name is that of a private class, lies on a private path, comes from a module that an __init__ re-exports,
    occurs in the stub of a re-exported declaration, or is a returned variable taken for a type name."""
    declared = {}
    for path, sf in stubs.parsed.items():
        s = declared.setdefault(sf.package, set())
        for d in sf.decls:
            s.add(d.name)
    pkg = truth.pkg if truth is not None else None
    reexported_modules, reexport_stub_paths, returned_names = set(), set(), set()
    moved_names = {}          # module qname -> names of its declarations that an __init__ moves elsewhere
    if pkg is not None:
        for p, entries in pkg["inits"].items():
            for e in entries:
                reexported_modules.add(e["module"])
                if e["form"] == "name":
                    reexport_stub_paths.add(f"{p}/{(e['alias'] or e['name']).lstrip('_')}.sdsstub")
                    moved_names.setdefault(e["module"], set()).add(e["name"])
                elif e["form"] == "star":
                    # a wildcard import moves every public top-level declaration of that module
                    for m in pkg["modules"]:
                        if m["qname"] == e["module"]:
                            for x in m["classes"] + m["functions"]:
                                reexport_stub_paths.add(f"{p}/{x['name'].lstrip('_')}.sdsstub")
                                moved_names.setdefault(e["module"], set()).add(x["name"])
        for m in pkg["modules"]:
            if m.get("overload_fn"):
                returned_names.add("v")

            def walk(c):
                if c.get("extras", {}).get("overload"):
                    returned_names.add("v")
                for k in c["classes"]:
                    walk(k)
            for c in m["classes"]:
                walk(c)

    # every declaration name that some __init__ re-exports in any form (by name, through a wildcard, or because
    # its whole module is re-exported)
    all_moved = set()
    for names in moved_names.values():
        all_moved |= names
    if pkg is not None:
        for m in pkg["modules"]:
            if m["qname"] in reexported_modules:
                all_moved |= {x["name"] for x in m["classes"] + m["functions"]}

    def reexporters(name):
        """the packages whose __init__ re-exports `name` by name or through a wildcard (a subset of the candidates of
        `_get_shortest_public_reexport`)"""
        out = set()
        if pkg is None:
            return out
        for p, entries in pkg["inits"].items():
            for e in entries:
                if e["form"] == "name" and e["name"] == name:
                    out.add(p)
                elif e["form"] == "star":
                    for m in pkg["modules"]:
                        if m["qname"] == e["module"] and any(x["name"] == name for x in m["classes"] + m["functions"]):
                            out.add(p)
        return out

    def rendered(p):
        import stage_names
        segs = p.split("/")
        return ".".join(stage_names.spec_camel(x, False) if safe else x for x in segs)

    def better_reexporter(name, frm):
        """the import names a re-exporting package although another one comes first in the specified order (fewest
        path segments, then id): NOT the known defect K11-reexport-moves-import, where the import names the first one"""
        cands = reexporters(name)
        mine = [c for c in cands if rendered(c) == frm]
        if not mine:
            return False
        c0 = min(mine, key=lambda c: (c.count("/"), c))
        return any((c.count("/"), c) < (c0.count("/"), c0) for c in cands)

    def facts(path, name, frm=None, pymodule=None):
        segs = (frm or "").split(".")
        return {"path": path, "name": name, "private_class": name.lstrip("`").startswith("_"),
                # the name is that of a declaration of this very module which an __init__ moved to another package
                "refers_to_moved_sibling": name in moved_names.get(pymodule, set()) or name in moved_names.get(frm, set()),
                "refers_to_reexported_declaration": name in all_moved and not (frm and better_reexporter(name.strip("`"), frm)),
                "import_skips_first_reexporter": bool(frm and better_reexporter(name.strip("`"), frm)),
                "private_path": any(x.lstrip("`").startswith("_") for x in segs[1:]),
                "module_reexported": frm in reexported_modules if frm else False,
                "reexport_stub": path in reexport_stub_paths or any(path.startswith(q.replace(".", "/").rsplit("/", 1)[0] + "/")
                                                                     and path.count("/") == q.count(".") - 1 + 1 and False
                                                                     for q in ()),
                "in_moved_module_stub": any(path == m.replace(".", "/").rsplit("/", 1)[0] + "/" + m.rsplit(".", 1)[1].lstrip("_") + ".sdsstub"
                                            for m in reexported_modules),
                "returned_variable_name": name in returned_names,
                "aliased_reexport": any(e["form"] == "name" and e["alias"] and e["name"] == name and pk.replace("/", ".") == frm
                                        for pk, entries in (pkg["inits"].items() if pkg else []) for e in entries)}

    for path, sf in stubs.parsed.items():
        local, tvars, refs = set(), set(), set()
        for d, _ in walk_decls(sf):
            local.add(d.name)
            for tp in d.type_params:
                tvars.add(tp[1])
                stubparse.named_refs(tp[2], refs)
            for p in d.params or []:
                stubparse.named_refs(p.type, refs)
            for _, t in d.results:
                stubparse.named_refs(t, refs)
            stubparse.named_refs(d.type, refs)
            for s in d.supers:
                stubparse.named_refs(s, refs)
        imported = {n for _, n in sf.imports}
        for r in sorted(refs):
            if r in BUILTIN_TYPES or r in local or r in imported or r in tvars:
                continue
            fail("C11", f"{path}: class {r!r} is used but neither declared nor imported there", **facts(path, r, None, sf.pymodule))
        for frm, nm in sf.imports:
            if nm not in declared.get(frm, set()):
                fail("C11", f"{path}: 'from {frm} import {nm}' does not resolve to a generated declaration",
                     target=f"{frm}.{nm}", **facts(path, nm, frm, sf.pymodule))


def check_inventory(fail, truth: Truth, api, excluded):
    lists = ["modules", "classes", "functions", "results", "enums", "enum_instances", "attributes", "parameters"]
    if api.get("schemaVersion") != 1:
        fail("C12", f"schemaVersion is {api.get('schemaVersion')!r}")
    ids = {}
    for key in lists:
        xs = api.get(key)
        if not isinstance(xs, list):
            fail("C12", f"top-level list {key!r} missing")
            continue
        these = [x["id"] for x in xs]
        if these != sorted(these):
            fail("C12", f"list {key!r} is not sorted by id")
        if len(set(these)) != len(these):
            fail("C12", f"list {key!r} has duplicate ids", dups=sorted({i for i in these if these.count(i) > 1})[:3])
        ids[key] = set(these)
        for x in xs:
            if key != "modules" and "/" not in x["id"]:
                fail("C12", f"id {x['id']!r} in {key} is not of the form owner/name")
            elif key != "modules" and x["id"].rsplit("/", 1)[1] != x["name"]:
                fail("C12", f"id {x['id']!r} does not end with the name {x['name']!r}")
    # references resolve; every non-module entry has exactly one owner
    owners = {}
    def ref(owner, key, rid):
        if rid not in ids.get(key, set()):
            fail("C12", f"{owner} references {key[:-1]} {rid!r} which has no entry", owner=owner)
        owners.setdefault((key, rid), []).append(owner)
    for m in api.get("modules", []):
        for c in m["classes"]:
            ref(m["id"], "classes", c)
        for f in m["functions"]:
            ref(m["id"], "functions", f)
        for e in m["enums"]:
            ref(m["id"], "enums", e)
    for c in api.get("classes", []):
        for a in c["attributes"]:
            ref(c["id"], "attributes", a)
        for f in c["methods"]:
            ref(c["id"], "functions", f)
        for k in c["classes"]:
            ref(c["id"], "classes", k)
        if c.get("constructor"):
            ref(c["id"], "functions", c["constructor"]["id"])
    for f in api.get("functions", []):
        for p in f["parameters"]:
            ref(f["id"], "parameters", p)
        for r in f["results"]:
            ref(f["id"], "results", r)
    for e in api.get("enums", []):
        for i in e["instances"]:
            ref(e["id"], "enum_instances", i)
    for key in lists[1:]:
        for rid in ids.get(key, set()):
            n = len(owners.get((key, rid), []))
            if n != 1:
                fail("C12", f"{key[:-1]} {rid!r} is referenced by {n} owners", id=rid, kind=key)
    # completeness against the source specification
    fun_by_id = {f["id"]: f for f in api.get("functions", [])}
    cls_by_id = {c["id"]: c for c in api.get("classes", [])}
    par_by_id = {p["id"]: p for p in api.get("parameters", [])}
    for q, d in truth.decls.items():
        if d["module"]["qname"] in excluded:
            continue
        i = q.replace(".", "/")
        if d["kind"] in ("fun", "prop", "ctor"):
            f = fun_by_id.get(i)
            if f is None:
                fail("C12", f"function {q} has no entry in the API JSON", decl=q)
                continue
            s = d["spec"]
            want = (s.get("method_kind") == "static", s.get("method_kind") == "class", bool(s.get("is_property")))
            got = (f["is_static"], f["is_class_method"], f["is_property"])
            if want != got:
                fail("C12", f"function {q}: (static, classmethod, property) = {got}, source says {want}", decl=q)
            exp_params = ([{"name": "self"}] if s.get("method_kind") == "instance" else
                          [{"name": "cls"}] if s.get("method_kind") == "class" else []) + list(s["params"])
            if [p.rsplit("/", 1)[1] for p in f["parameters"]] != [p["name"] for p in exp_params]:
                fail("C12", f"function {q}: parameters {[p.rsplit('/', 1)[1] for p in f['parameters']]}, source has {[p['name'] for p in exp_params]}", decl=q)
            for p in s["params"]:
                jp = par_by_id.get(f"{i}/{p['name']}")
                if jp is None:
                    continue
                if jp["assigned_by"] != p["kind"]:
                    fail("C06", f"{q}: parameter {p['name']!r} assigned_by {jp['assigned_by']}, source says {p['kind']}", decl=q)
                want_default = None
                if p["default"] is not None:
                    v = p["default"][1]
                    want_default = v
                    if isinstance(v, str):
                        import oracles_gen
                        want_default = oracles_gen.sds_string(v)
                        got_text = jp["default_value"]
                        if isinstance(got_text, str) and stubparse.string_value(got_text) == v:
                            want_default = got_text      # any well-formed literal that denotes the Python string
                if jp["is_optional"] != (p["default"] is not None):
                    fail("C06", f"{q}: parameter {p['name']!r} is_optional {jp['is_optional']} in the API JSON", decl=q)
                elif p["default"] is not None and (jp["default_value"] != want_default or type(jp["default_value"]) is not type(want_default)):
                    fail("C06", f"{q}: parameter {p['name']!r} default_value {jp['default_value']!r} in the API JSON, source has {want_default!r}", decl=q)
        elif d["kind"] == "class":
            c = cls_by_id.get(i)
            if c is None:
                fail("C12", f"class {q} has no entry in the API JSON", decl=q)
                continue
            if c["superclasses"] != [b[1] for b in d["spec"]["bases"]]:
                fail("C12", f"class {q}: superclasses {c['superclasses']}, source has {[b[1] for b in d['spec']['bases']]}", decl=q)
        elif d["kind"] == "attr":
            if truth.reassigns_inherited(d):
                continue
            if i not in ids.get("attributes", set()):
                fail("C12", f"attribute {q} has no entry in the API JSON", decl=q)
        elif d["kind"] == "enum":
            if i not in ids.get("enums", set()):
                fail("C12", f"enum {q} has no entry in the API JSON", decl=q)
        elif d["kind"] == "variant":
            if i not in ids.get("enum_instances", set()):
                fail("C12", f"enum member {q} has no entry in the API JSON", decl=q)
