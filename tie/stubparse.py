"""An independent recogniser/parser of the Safe-DS *stub* grammar (the subset a stub file may use),
written from the published grammar (safe-ds.langium), not from the generator:

  file        := annotationCall* 'package' qualifiedName import* member*
  import      := 'from' qualifiedName 'import' ID ('as' ID)?
  member      := annotationCall* ( class | function | enum )
  class       := 'class' ID typeParams? ('(' params? ')')? ('sub' type (',' type)*)? classBody?
  classBody   := '{' ( annotationCall* ( 'static'? 'attr' ID (':' type)? | 'static'? function | class | enum ) )* '}'
  function    := 'fun' ID typeParams? '(' params? ')' ('->' results)?
  results     := result | '(' (result (',' result)*)? ')'
  result      := ID ':' type
  param       := annotationCall* ID (':' type)? ('=' expr)?
  enum        := 'enum' ID ('{' (annotationCall* ID ('(' params? ')')?)* '}')?
  type        := primary '?'?
  primary     := 'union' '<' types '>' | 'literal' '<' literals '>' | 'unknown'
               | '(' params? ')' '->' results            (callable type)
               | qualifiedName ('<' types '>')?
  expr        := 'true' | 'false' | 'null' | 'unknown' | NUMBER | STRING | '[' ']' | '{' '}' | '-'? ID   (a reference,
                 possibly negated: the tool writes non-finite float defaults as `inf` / `-inf`)
  ID          := [_a-zA-Z][_a-zA-Z0-9]*  |  '`' [_a-zA-Z][_a-zA-Z0-9]* '`'

Comments: `// …` to end of line and `/* … */` (not nested).  A keyword used as an identifier must be
back-quoted.  The parser keeps, for every declaration, the `// TODO` lines and the documentation
comment that immediately precede it.
"""
from __future__ import annotations

import re
from dataclasses import dataclass, field

KEYWORDS = {"_", "and", "annotation", "as", "attr", "class", "const", "enum", "false", "from", "fun", "import",
            "in", "internal", "literal", "not", "null", "or", "out", "package", "pipeline", "private", "schema",
            "segment", "static", "sub", "this", "true", "union", "unknown", "val", "where", "yield"}


class StubSyntaxError(Exception):
    def __init__(self, msg: str, pos: int, text: str):
        line = text.count("\n", 0, pos) + 1
        super().__init__(f"{msg} at line {line}: …{text[max(0, pos - 30):pos + 30]!r}")
        self.msg = msg
        self.line = line


@dataclass
class Tok:
    kind: str       # id, qid (back-quoted), kw, num, str, sym, todo, doc, comment
    text: str
    pos: int


TOKEN_RE = re.compile(r"""
    (?P<ws>[ \t\r\n]+)
  | (?P<doc>/\*\*.*?\*/)
  | (?P<block>/\*.*?\*/)
  | (?P<line>//[^\n]*)
  | (?P<str>"(?:[^"\\\n]|\\.)*")
  | (?P<num>-?\d+(?:\.\d+)?(?:[eE][-+]?\d+)?)
  | (?P<qid>`[_a-zA-Z][_a-zA-Z0-9]*`)
  | (?P<id>[_a-zA-Z][_a-zA-Z0-9]*)
  | (?P<sym>->|[@(){}<>\[\],:=.?-])
""", re.X | re.S)

ESCAPES = set("bfnrtv0'\"{\\u")


_SIMPLE_ESC = {"b": "\b", "f": "\f", "n": "\n", "r": "\r", "t": "\t", "v": "\v", "0": "\0", "'": "'", '"': '"', "{": "{",
               "\\": "\\"}


def string_value(lit: str):
    """the string a Safe-DS STRING token denotes (None if it is no well-formed token)"""
    if len(lit) < 2 or lit[0] != '"' or lit[-1] != '"':
        return None
    out, j, body = [], 0, lit[1:-1]
    while j < len(body):
        c = body[j]
        if c == '"' or c in "\n\r":
            return None
        if c == "\\":
            if j + 1 >= len(body):
                return None
            e = body[j + 1]
            if e == "u":
                h = body[j + 2:j + 6]
                if len(h) != 4 or any(x not in "0123456789abcdefABCDEF" for x in h):
                    return None
                out.append(chr(int(h, 16)))
                j += 6
                continue
            if e not in _SIMPLE_ESC:
                return None
            out.append(_SIMPLE_ESC[e])
            j += 2
        else:
            out.append(c)
            j += 1
    return "".join(out)


def lex(text: str) -> list[Tok]:
    toks: list[Tok] = []
    i, n = 0, len(text)
    while i < n:
        m = TOKEN_RE.match(text, i)
        if not m:
            if text.startswith("/*", i):
                raise StubSyntaxError("unterminated comment", i, text)
            if text[i] == '"':
                raise StubSyntaxError("unterminated or multi-line string literal", i, text)
            raise StubSyntaxError(f"illegal character {text[i]!r}", i, text)
        k = m.lastgroup
        s = m.group(k)
        if k == "ws":
            pass
        elif k == "doc":
            toks.append(Tok("doc", s, i))
        elif k == "block":
            toks.append(Tok("comment", s, i))
        elif k == "line":
            toks.append(Tok("todo" if s.startswith("// TODO") else "comment", s, i))
        elif k == "str":
            j = 1
            while j < len(s) - 1:
                if s[j] == "\\":
                    if s[j + 1] not in ESCAPES:
                        raise StubSyntaxError(f"illegal escape \\{s[j + 1]}", i + j, text)
                    j += 2
                else:
                    j += 1
            toks.append(Tok("str", s, i))
        elif k == "id":
            toks.append(Tok("kw" if s in KEYWORDS else "id", s, i))
        else:
            toks.append(Tok(k, s, i))
        i = m.end()
    return toks


@dataclass
class Param:
    name: str
    python_name: str | None
    type: object | None
    default: str | None
    raw_name: str = ""


@dataclass
class Decl:
    kind: str                       # class, fun, attr, enum, variant
    name: str
    python_name: str | None = None
    todos: list[str] = field(default_factory=list)
    doc: str | None = None
    annotations: list[tuple[str, list[str]]] = field(default_factory=list)
    static: bool = False
    type_params: list = field(default_factory=list)
    params: list[Param] | None = None
    results: list[tuple[str, object]] = field(default_factory=list)
    supers: list = field(default_factory=list)
    type: object | None = None
    members: list["Decl"] = field(default_factory=list)
    has_body: bool = False

    @property
    def pyname(self) -> str:
        return self.python_name if self.python_name is not None else self.name


@dataclass
class StubFile:
    python_module: str | None
    package: str
    doc: str | None
    imports: list[tuple[str, str]]
    decls: list[Decl]

    @property
    def pymodule(self) -> str:
        return self.python_module if self.python_module is not None else self.package


class Parser:
    def __init__(self, text: str, lenient: bool = False):
        self.text = text
        self.lenient = lenient          # lenient: an unquoted keyword is accepted where an identifier must stand
        self.toks = lex(text)
        self.i = 0
        self.idents: list[tuple[str, bool]] = []     # (identifier, back-quoted?)

    # -- token helpers
    def peek(self, skip_trivia=True) -> Tok | None:
        j = self.i
        while j < len(self.toks) and skip_trivia and self.toks[j].kind in ("comment", "todo", "doc"):
            j += 1
        return self.toks[j] if j < len(self.toks) else None

    def trivia(self) -> tuple[list[str], str | None]:
        todos, doc = [], None
        while self.i < len(self.toks) and self.toks[self.i].kind in ("comment", "todo", "doc"):
            t = self.toks[self.i]
            if t.kind == "todo":
                todos.append(t.text)
            elif t.kind == "doc":
                doc = t.text
            self.i += 1
        return todos, doc

    def next(self) -> Tok:
        self.trivia()
        if self.i >= len(self.toks):
            raise StubSyntaxError("unexpected end of file", len(self.text), self.text)
        t = self.toks[self.i]
        self.i += 1
        return t

    def at(self, text: str) -> bool:
        t = self.peek()
        return t is not None and t.text == text and t.kind in ("sym", "kw")

    def expect(self, text: str) -> Tok:
        t = self.next()
        if t.text != text or t.kind not in ("sym", "kw"):
            raise StubSyntaxError(f"expected {text!r}, found {t.text!r}", t.pos, self.text)
        return t

    def ident(self) -> str:
        t = self.next()
        if t.kind == "id":
            self.idents.append((t.text, False))
            return t.text
        if t.kind == "qid":
            self.idents.append((t.text[1:-1], True))
            return t.text[1:-1]
        if t.kind == "kw":
            if self.lenient:
                self.idents.append((t.text, False))
                return t.text
            raise StubSyntaxError(f"keyword {t.text!r} used as identifier without back-quotes", t.pos, self.text)
        raise StubSyntaxError(f"expected identifier, found {t.text!r}", t.pos, self.text)

    def qualified(self) -> str:
        parts = [self.ident()]
        while self.at("."):
            self.next()
            parts.append(self.ident())
        return ".".join(parts)

    # -- grammar
    def annotations(self) -> list[tuple[str, list[str]]]:
        out = []
        while self.at("@"):
            self.next()
            name = self.ident()
            args = []
            if self.at("("):
                self.next()
                while not self.at(")"):
                    t = self.next()
                    if t.kind != "str":
                        raise StubSyntaxError("annotation argument must be a string literal", t.pos, self.text)
                    args.append(unquote(t.text))
                    if self.at(","):
                        self.next()
                self.expect(")")
            out.append((name, args))
        return out

    def file(self) -> StubFile:
        todos, doc = self.trivia()
        anns = self.annotations()
        pymod = None
        for n, a in anns:
            if n == "PythonModule" and a:
                pymod = a[0]
        self.expect("package")
        package = self.qualified()
        imports = []
        while self.at("from"):
            self.next()
            frm = self.qualified()
            self.expect("import")
            nm = self.ident()
            if self.at("as"):
                self.next()
                self.ident()
            imports.append((frm, nm))
        decls = []
        while self.peek() is not None:
            decls.append(self.member(top=True))
        self.trivia()
        return StubFile(pymod, package, doc, imports, decls)

    def member(self, top: bool) -> Decl:
        todos, doc = self.trivia()
        anns = self.annotations()
        # TODO lines may also sit between annotations and the keyword (nested class signature)
        todos2, doc2 = self.trivia()
        todos += todos2
        doc = doc2 or doc
        pyname = None
        for n, a in anns:
            if n == "PythonName" and a:
                pyname = a[0]
        static = False
        if self.at("static"):
            self.next()
            static = True
        t = self.peek()
        if t is None:
            raise StubSyntaxError("declaration expected", len(self.text), self.text)
        if t.text == "class" and t.kind == "kw":
            d = self.class_()
        elif t.text == "fun" and t.kind == "kw":
            d = self.function()
        elif t.text == "enum" and t.kind == "kw":
            d = self.enum()
        elif t.text == "attr" and t.kind == "kw" and not top:
            self.next()
            name = self.ident()
            ty = None
            if self.at(":"):
                self.next()
                ty = self.type_()
            d = Decl("attr", name, type=ty)
        else:
            raise StubSyntaxError(f"declaration expected, found {t.text!r}", t.pos, self.text)
        d.todos, d.doc, d.annotations, d.python_name, d.static = todos, doc, anns, pyname, static
        return d

    def type_params(self) -> list:
        out = []
        if self.at("<"):
            self.next()
            while not self.at(">"):
                variance = ""
                if self.at("in") or self.at("out"):
                    variance = self.next().text
                name = self.ident()
                bound = None
                if self.at("sub"):
                    self.next()
                    bound = self.type_()
                out.append((variance, name, bound))
                if self.at(","):
                    self.next()
                elif not self.at(">"):
                    t = self.next()
                    raise StubSyntaxError(f"expected ',' or '>' in type parameters, found {t.text!r}", t.pos, self.text)
            self.expect(">")
        return out

    def params(self) -> list[Param]:
        self.expect("(")
        out = []
        while not self.at(")"):
            anns = self.annotations()
            pyname = None
            for n, a in anns:
                if n == "PythonName" and a:
                    pyname = a[0]
            name = self.ident()
            ty = None
            if self.at(":"):
                self.next()
                ty = self.type_()
            default = None
            if self.at("="):
                self.next()
                default = self.expr()
            out.append(Param(name, pyname, ty, default))
            if self.at(","):
                self.next()
            elif not self.at(")"):
                t = self.next()
                raise StubSyntaxError(f"expected ',' or ')' in parameter list, found {t.text!r}", t.pos, self.text)
        self.expect(")")
        return out

    def expr(self) -> str:
        t = self.next()
        if t.kind in ("num", "str"):
            return t.text
        if t.kind == "kw" and t.text in ("true", "false", "null", "unknown"):
            return t.text
        if t.kind == "id":
            return t.text
        if t.kind == "sym" and t.text == "-" and self.toks[self.i].kind == "id":
            return "-" + self.next().text
        if t.text == "[":
            self.expect("]")
            return "[]"
        if t.text == "{":
            self.expect("}")
            return "{}"
        raise StubSyntaxError(f"expression expected, found {t.text!r}", t.pos, self.text)

    def results(self) -> list[tuple[str, object]]:
        out = []
        if self.at("("):
            self.next()
            while not self.at(")"):
                n = self.ident()
                self.expect(":")
                out.append((n, self.type_()))
                if self.at(","):
                    self.next()
                elif not self.at(")"):
                    t = self.next()
                    raise StubSyntaxError(f"expected ',' or ')' in result list, found {t.text!r}", t.pos, self.text)
            self.expect(")")
        else:
            n = self.ident()
            self.expect(":")
            out.append((n, self.type_()))
        return out

    def type_(self):
        t = self.peek()
        if t is None:
            raise StubSyntaxError("type expected", len(self.text), self.text)
        nxt = self.toks[self.toks.index(t) + 1] if self.lenient and self.toks.index(t) + 1 < len(self.toks) else None
        if self.lenient and t.kind == "kw" and t.text in ("union", "literal") and (nxt is None or nxt.text != "<"):
            name = self.qualified()
            prim = ("named", name, None)
        elif t.kind == "kw" and t.text == "union":
            self.next()
            self.expect("<")
            ms = self.types_until(">")
            prim = ("union", ms)
        elif t.kind == "kw" and t.text == "literal":
            self.next()
            self.expect("<")
            ls = []
            while not self.at(">"):
                ls.append(self.expr())
                if self.at(","):
                    self.next()
                elif not self.at(">"):
                    x = self.next()
                    raise StubSyntaxError(f"expected ',' or '>' in literal type, found {x.text!r}", x.pos, self.text)
            self.expect(">")
            prim = ("literal", ls)
        elif t.kind == "kw" and t.text == "unknown":
            self.next()
            prim = ("unknown",)
        elif t.text == "(" and t.kind == "sym":
            ps = self.params()
            self.expect("->")
            rs = self.results()
            prim = ("callable", [(p.name, p.type) for p in ps], rs)
        else:
            name = self.qualified()
            args = None
            if self.at("<"):
                self.next()
                args = self.types_until(">")
            prim = ("named", name, args)
        if self.at("?"):
            self.next()
            return ("nullable", prim)
        return prim

    def types_until(self, close: str) -> list:
        out = []
        while not self.at(close):
            out.append(self.type_())
            if self.at(","):
                self.next()
            elif not self.at(close):
                t = self.next()
                raise StubSyntaxError(f"expected ',' or {close!r} in type list, found {t.text!r}", t.pos, self.text)
        self.expect(close)
        return out

    def function(self) -> Decl:
        self.expect("fun")
        name = self.ident()
        tps = self.type_params()
        ps = self.params()
        rs = []
        if self.at("->"):
            self.next()
            rs = self.results()
        return Decl("fun", name, type_params=tps, params=ps, results=rs)

    def class_(self) -> Decl:
        self.expect("class")
        name = self.ident()
        tps = self.type_params()
        ps = None
        if self.at("("):
            ps = self.params()
        supers = []
        if self.at("sub"):
            self.next()
            supers.append(self.type_())
            while self.at(","):
                self.next()
                supers.append(self.type_())
        d = Decl("class", name, type_params=tps, params=ps, supers=supers)
        if self.at("{"):
            self.next()
            d.has_body = True
            while not self.at("}"):
                if self.peek() is None:
                    raise StubSyntaxError("unclosed class body", len(self.text), self.text)
                d.members.append(self.member(top=False))
            self.expect("}")
        return d

    def enum(self) -> Decl:
        self.expect("enum")
        name = self.ident()
        d = Decl("enum", name)
        if self.at("{"):
            self.next()
            d.has_body = True
            while not self.at("}"):
                todos, doc = self.trivia()
                anns = self.annotations()
                pyname = None
                for n, a in anns:
                    if n == "PythonName" and a:
                        pyname = a[0]
                vn = self.ident()
                if self.at("("):
                    self.params()
                d.members.append(Decl("variant", vn, python_name=pyname, annotations=anns))
            self.expect("}")
        return d


def unquote(s: str) -> str:
    body = s[1:-1]
    out, i = [], 0
    while i < len(body):
        if body[i] == "\\" and i + 1 < len(body):
            out.append({"n": "\n", "t": "\t", "r": "\r", "0": "\0"}.get(body[i + 1], body[i + 1]))
            i += 2
        else:
            out.append(body[i])
            i += 1
    return "".join(out)


def parse(text: str, lenient: bool = False) -> tuple[StubFile, list[tuple[str, bool]]]:
    """Parse a stub file; raises StubSyntaxError.  Returns the file and every identifier token
    (with whether it was back-quoted).  `lenient` tolerates unquoted keywords in identifier positions
    (used by the oracles of properties other than C02, so that one escaping defect does not hide
    everything else in the file)."""
    p = Parser(text, lenient)
    f = p.file()
    return f, p.idents


def doc_lines(doc: str | None) -> list[str]:
    """the text lines of a documentation comment, without the leading ` * ` decoration"""
    if not doc:
        return []
    lines = doc.split("\n")
    out = []
    for ln in lines[1:-1]:
        s = ln.strip()
        if s.startswith("* "):
            out.append(s[2:])
        elif s == "*":
            out.append("")
        else:
            out.append(s)
    return out


def render_type(t) -> str:
    """canonical text of a parsed type (unions as sorted sets) for comparisons"""
    if t is None:
        return ""
    k = t[0]
    if k == "nullable":
        return render_type(t[1]) + "?"
    if k == "union":
        return "union<" + ", ".join(sorted({render_type(x) for x in t[1]})) + ">"
    if k == "literal":
        return "literal<" + ", ".join(t[1]) + ">"
    if k == "unknown":
        return "unknown"
    if k == "callable":
        ps = ", ".join(f"{n}: {render_type(x)}" for n, x in t[1])
        rs = ", ".join(f"{n}: {render_type(x)}" for n, x in t[2])
        return f"({ps}) -> ({rs})"
    if k == "named":
        if t[2] is None:
            return t[1]
        return t[1] + "<" + ", ".join(render_type(x) for x in t[2]) + ">"
    return "?"


def named_refs(t, out: set) -> None:
    """class names referenced by a type"""
    if t is None:
        return
    k = t[0]
    if k == "nullable":
        named_refs(t[1], out)
    elif k == "union":
        for x in t[1]:
            named_refs(x, out)
    elif k == "callable":
        for _, x in t[1]:
            named_refs(x, out)
        for _, x in t[2]:
            named_refs(x, out)
    elif k == "named":
        out.add(t[1])
        for x in t[2] or []:
            named_refs(x, out)
