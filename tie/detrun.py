"""Subprocess entry for the determinism stage (S-R): run the real entry point `safeds_stubgen.main.main()` with a
given argv, working directory and (optionally) a shuffled directory-enumeration order.  The interpreter's hash
seed is set by the parent through PYTHONHASHSEED.  Prints one JSON line: {"outcome": ..}."""
import json
import os
import random
import sys

spec = json.loads(sys.argv[1])
sys.path.insert(0, spec["repo_src"])
os.environ.setdefault("MYPY_CACHE_DIR", os.devnull)

if spec.get("shuffle") is not None:
    _rng = random.Random(spec["shuffle"])
    _listdir, _scandir = os.listdir, os.scandir

    def listdir(path="."):
        xs = _listdir(path)
        _rng.shuffle(xs)
        return xs

    class _Scan:
        def __init__(self, path):
            with _scandir(path) as it:
                self.entries = list(it)
            _rng.shuffle(self.entries)
            self.it = iter(self.entries)

        def __iter__(self):
            return self.it

        def __next__(self):
            return next(self.it)

        def __enter__(self):
            return self

        def __exit__(self, *a):
            return False

        def close(self):
            pass

    def scandir(path="."):
        return _Scan(path)

    os.listdir = listdir
    os.scandir = scandir

import io
import logging
import contextlib

os.chdir(spec["cwd"])
sys.argv = ["safe-ds-stubgen"] + spec["argv"]
out = {"outcome": "ok"}
buf = io.StringIO()
try:
    with contextlib.redirect_stdout(buf), contextlib.redirect_stderr(buf):
        from safeds_stubgen.main import main
        main()
except SystemExit as e:
    out = {"outcome": "exit", "code": e.code}
except BaseException as e:  # noqa: BLE001
    import traceback
    frames = [f for f in traceback.extract_tb(e.__traceback__) if "safeds_stubgen" in f.filename]
    site = f"{os.path.basename(frames[-1].filename)}:{frames[-1].name}" if frames else "?"
    out = {"outcome": "exc", "exc": type(e).__name__, "site": site, "msg": str(e)[:200]}
logging.shutdown()
sys.__stdout__.write(json.dumps(out) + "\n")
