#!/bin/bash
# seed_check.sh <seed-dir> <property> [more…] — apply the seeded change, run the registered quick check(s), restore /repo.
set -u
SEED="$1"; shift
cd /repo || exit 2
if ! git diff --quiet; then echo "refusing: /repo has uncommitted changes"; exit 2; fi
git apply "$SEED/patch.diff" || { echo "patch does not apply"; exit 2; }
trap 'git -C /repo checkout -- . ; echo "== /repo restored"' EXIT
for P in "$@"; do
  echo "== ./check $P --tier quick (with $(basename $SEED))"
  (cd /verif && timeout 1800 ./check "$P" --tier quick 2>&1 | grep -E "VIOLATION|KNOWN-FINDING|violation:|\] ok:|obligation/corr" | head -8; echo "exit ${PIPESTATUS[0]}")
done
