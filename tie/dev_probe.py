"""Development aid (not registered): run the S-E oracles of one property on N generated packages and print a
histogram of the failures, without known-finding filtering.   python dev_probe.py C03 [n] [seed]"""
import collections, json, os, random, re, sys, multiprocessing as mp
sys.path.insert(0, os.path.dirname(os.path.abspath(__file__)))
import stage_e2e, implrun

def main():
    prop = sys.argv[1]; n = int(sys.argv[2]) if len(sys.argv) > 2 else 48; seed = int(sys.argv[3]) if len(sys.argv) > 3 else 1
    rng = random.Random(seed)
    tasks = [(prop, rng.randrange(1 << 40), "quick") for _ in range(n)]
    implrun.WORK.mkdir(exist_ok=True)
    hist = collections.Counter(); ex = {}; outc = collections.Counter()
    with mp.get_context("fork").Pool(12) as pool:
        for r in pool.imap_unordered(stage_e2e.one_case, tasks):
            for o in r["outcomes"]: outc[o] += 1
            for p, what, replay in r["fails"]:
                key = re.sub(r"'[^']*'|\b[\w.]+\.[\w.]+\b|\d+", "_", what)[:110]
                if os.environ.get("PROBE_FACTS"):
                    key = key.split(":")[-1][:60] + " | " + ",".join(k for k in ("private_class","private_path","module_reexported","reexport_stub","in_moved_module_stub","returned_variable_name") if replay.get(k))
                hist[key] += 1
                ex.setdefault(key, (what, r["seed"], replay.get("options")))
    print(outc)
    for k, c in hist.most_common(40):
        print(c, k, "\n     e.g.", ex[k])
main()
