"""Development aid: regenerate one S-E case and keep its files.  python dev_case.py PROP SEED [optindex] -> prints dir"""
import os, random, sys, json
sys.path.insert(0, os.path.dirname(os.path.abspath(__file__)))
import stage_e2e, implrun, pkggen, e2e, oracles_e2e
prop, seed = sys.argv[1], int(sys.argv[2])
prof = stage_e2e.PROFILES.get(prop, stage_e2e.PROFILES["default"])
rng = random.Random(seed)
gen_kw = dict(prof["gen"])
style = gen_kw.pop("style", None) or rng.choice(prof.get("styles", ["plaintext", "numpydoc", "google", "rest"]))
pkg = pkggen.PkgGen(rng, style=style, **gen_kw).package()
files = pkggen.render(pkg)
top = implrun.WORK / f"case_{seed}"
import shutil; shutil.rmtree(top, ignore_errors=True)
e2e.write_pkg(files, top / "src")
k = int(sys.argv[3]) if len(sys.argv) > 3 else 0
opts = {"style": style, **prof["options"][k]}
res = e2e.run_tool(stage_e2e._impl(), top / "src" / pkg["root"], top / "out", **opts)
print(top, res["outcome"], opts)
for p, what, extra in oracles_e2e.check_all(prop, pkg, opts, res): print(" FAIL", what)
json.dump(pkg, open(top / "pkg.json", "w"), indent=1, default=list)
