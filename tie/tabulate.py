#!/usr/bin/env python3
"""T2 — exhaustive tabulation of finite decision functions.

Calls the REAL functions of /repo's working tree on EVERY point of a finite domain and writes the complete tables to
lean/StubGen/Generated/Decisions.lean.  `Theorems/Decisions.lean` proves (kernel-checked `decide`) that the model's
function agrees with the table on every row: a correspondence that is complete on its domain, and whose failure is a
broken proof obligation in `lake build` (the differing row is the counterexample).  Tabulation (not a translation of
the `if/elif` syntax) survives refactorings: only a change of behaviour changes the table.
"""
from __future__ import annotations

import itertools
import logging
import sys
from pathlib import Path
from types import SimpleNamespace

REPO = Path(sys.argv[1] if len(sys.argv) > 1 else "/repo")
OUTDIR = Path(sys.argv[2] if len(sys.argv) > 2 else Path(__file__).resolve().parent.parent / "lean/StubGen/Generated")
sys.path.insert(0, str(REPO / "src"))
logging.disable(logging.CRITICAL)


def lean_str(s: str) -> str:
    out = ['"']
    for ch in s:
        if ch == '"':
            out.append('\\"')
        elif ch == "\\":
            out.append("\\\\")
        elif ch == "\n":
            out.append("\\n")
        elif ch == "\t":
            out.append("\\t")
        elif ch == "\r":
            out.append("\\r")
        elif ord(ch) < 32 or ord(ch) == 127:
            out.append("\\x%02x" % ord(ch))
        else:
            out.append(ch)
    out.append('"')
    return "".join(out)


def lb(b: bool) -> str:
    return "true" if b else "false"


def outcome(f, *a):
    try:
        return f(*a)
    except Exception as e:  # noqa: BLE001
        return "!" + type(e).__name__


def main() -> None:
    from mypy.nodes import ArgKind

    from safeds_stubgen.api_analyzer import _mypy_helpers as H
    from safeds_stubgen.api_analyzer import _types as T
    from safeds_stubgen.api_analyzer._api import API, Parameter, ParameterAssignment, UnknownValue
    from safeds_stubgen.docstring_parsing import ParameterDocstring
    from safeds_stubgen.stubs_generator import StubsStringGenerator

    files: dict[str, list[str]] = {}

    def section(name: str) -> list[str]:
        files[name] = []
        return files[name]
    lines = section("DecArgs")

    # --- get_argument_kind: ArgKind 0..5 x pos_only x is_self x is_cls
    rows = []
    for k, po, s, c in itertools.product(range(6), (False, True), (False, True), (False, True)):
        arg = SimpleNamespace(variable=SimpleNamespace(is_self=s, is_cls=c), kind=ArgKind(k), pos_only=po)
        r = outcome(H.get_argument_kind, arg)
        rows.append(f"(({k}, {lb(po)}, {lb(s)}, {lb(c)}), {lean_str(r if isinstance(r, str) else r.name)})")
    lines.append("def argumentKindTable : List ((Nat × Bool × Bool × Bool) × String) := [" + ", ".join(rows) + "]")

    # --- mypy_variance_parser: 0..4
    rows = []
    for v in range(5):
        r = outcome(H.mypy_variance_parser, v)
        rows.append(f"({v}, {lean_str(r if isinstance(r, str) else r.name)})")
    lines.append("def varianceTable : List (Nat × String) := [" + ", ".join(rows) + "]")

    # --- has_correct_type_of_any: TypeOfAny 0..12
    rows = [f"({v}, {lb(bool(H.has_correct_type_of_any(v)))})" for v in range(13)]
    lines.append("def typeOfAnyTable : List (Nat × Bool) := [" + ", ".join(rows) + "]")

    lines = section("DecParams")
    # --- _create_parameter_string on ONE parameter: assignment x optional x default x type x naming flag
    #     columns: assignment index, optional, default index, type index, safe  ->  text, sorted TODO keys
    assigns = [ParameterAssignment.IMPLICIT, ParameterAssignment.POSITION_ONLY, ParameterAssignment.POSITION_OR_NAME,
               ParameterAssignment.POSITIONAL_VARARG, ParameterAssignment.NAME_ONLY, ParameterAssignment.NAMED_VARARG]
    defaults = [None, True, 3, "'s'", "()", "{}", UnknownValue()]
    int_t = T.NamedType(name="int", qname="builtins.int")
    types = [None, int_t, T.TupleType(types=[int_t])]
    names = ["x", "my_arg", "class"]
    rows = []
    for (ai, a), opt, (di, d), (ti, t), (ni, n), safe in itertools.product(
            enumerate(assigns), (False, True), enumerate(defaults), enumerate(types), enumerate(names), (False, True)):
        g = StubsStringGenerator(api=API(distribution="", package="p", version=""), convert_identifiers=safe)
        g._current_todo_msgs = set()
        g.module_imports = set()
        g._set_module_id("p/m")
        p = Parameter(id=f"p/m/f/{n}", name=n, is_optional=opt, default_value=d, assigned_by=a,
                      docstring=ParameterDocstring(), type=t)
        try:
            text = g._create_parameter_string([p], "", False)
            todos = sorted(g._current_todo_msgs)
        except Exception as e:  # noqa: BLE001
            text, todos = "!" + type(e).__name__, []
        rows.append(f"(({ai}, {lb(opt)}, {di}, {ti}, {ni}, {lb(safe)}), ({lean_str(text)}, [{', '.join(lean_str(x) for x in todos)}]))")
    lines.append("def parameterStringTable : List ((Nat × Bool × Nat × Nat × Nat × Bool) × (String × List String)) := [\n  "
                 + ",\n  ".join(rows) + "]")
    lines = section("DecAttrs")
    # --- _create_class_attribute_string on ONE attribute: public x static x type x name x naming flag
    from safeds_stubgen.api_analyzer._api import Attribute, Result
    from safeds_stubgen.docstring_parsing import AttributeDocstring
    atypes = [None, int_t, T.TupleType(types=[int_t]), T.TypeVarType(name="T", upper_bound=None), T.SetType(types=[int_t])]
    rows = []
    for pub, static, (ti, t), (ni, n), safe in itertools.product((False, True), (False, True), enumerate(atypes), enumerate(names),
                                                                (False, True)):
        g = StubsStringGenerator(api=API(distribution="", package="p", version=""), convert_identifiers=safe)
        g._current_todo_msgs = set()
        g.module_imports = set()
        g._set_module_id("p/m")
        a = Attribute(id=f"p/m/C/{n}", name=n, is_public=pub, is_static=static, type=t, docstring=AttributeDocstring())
        try:
            text, anames = g._create_class_attribute_string([a], "    ")
            todos = sorted(g._current_todo_msgs)
            anames = sorted(anames)
        except Exception as e:  # noqa: BLE001
            text, todos, anames = "!" + type(e).__name__, [], []
        rows.append(f"(({lb(pub)}, {lb(static)}, {ti}, {ni}, {lb(safe)}), ({lean_str(text)}, [{', '.join(lean_str(x) for x in todos)}], "
                    f"[{', '.join(lean_str(x) for x in anames)}]))")
    lines.append("def attributeStringTable : List ((Bool × Bool × Nat × Nat × Bool) × (String × List String × List String)) := [\n  "
                 + ",\n  ".join(rows) + "]")

    lines = section("DecResults")
    # --- _create_result_string on result lists of length 0..2 over {no type, None, int, tuple[int]} x naming flag
    none_t = T.NamedType(name="None", qname="builtins.None")
    rtypes = [None, none_t, int_t, T.TupleType(types=[int_t])]
    rnames = ["result_1", "val"]
    shapes = [[]] + [[a] for a in range(4)] + [[a, b] for a in range(4) for b in range(4)]
    rows = []
    for shape, safe in itertools.product(shapes, (False, True)):
        g = StubsStringGenerator(api=API(distribution="", package="p", version=""), convert_identifiers=safe)
        g._current_todo_msgs = set()
        g.module_imports = set()
        g._set_module_id("p/m")
        rs = [Result(id=f"p/m/f/{rnames[k]}", name=rnames[k], type=rtypes[ti]) for k, ti in enumerate(shape)]
        try:
            text = g._create_result_string(rs)
            todos = sorted(g._current_todo_msgs)
        except Exception as e:  # noqa: BLE001
            text, todos = "!" + type(e).__name__, []
        rows.append(f"(([{', '.join(str(x) for x in shape)}], {lb(safe)}), ({lean_str(text)}, [{', '.join(lean_str(x) for x in todos)}]))")
    lines.append("def resultStringTable : List ((List Nat × Bool) × (String × List String)) := [\n  " + ",\n  ".join(rows) + "]")
    lines = section("DecStrings")
    # --- escape_string_literal on every string over {a, ", \, LF, CR, {} up to length 3 and some longer ones
    from safeds_stubgen import escape_string_literal
    alphabet = ["a", '"', "\\", "\n", "\r", "{"]
    strings = [""]
    for n in (1, 2, 3):
        strings += ["".join(t) for t in itertools.product(alphabet, repeat=n)]
    strings += ['C:\\dir\\file', 'say "hi"', 'a\\"b', "tab\there", "line1\nline2\r\n", 'x\\\\"y', "ünï", "{{x}}"]
    rows = [f"({lean_str(v)}, {lean_str(outcome(escape_string_literal, v))})" for v in strings]
    lines.append("def escapeStringTable : List (String × String) := [\n  " + ",\n  ".join(rows) + "]")
    changed = []
    for name, body in files.items():
        text = "\n".join(["/- GENERATED by tie/tabulate.py: the REAL functions of /repo's working tree evaluated on every point of a",
                          "   finite domain — do not edit. -/", "namespace StubGen.Generated", "", *body, "", "end StubGen.Generated", ""])
        out = OUTDIR / f"{name}.lean"
        if not (out.exists() and out.read_text() == text):
            out.write_text(text)
            changed.append(name)
    print("T2: decision tables unchanged" if not changed else f"T2: wrote {', '.join(changed)}")


if __name__ == "__main__":
    main()
