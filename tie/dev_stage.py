"""Development aid: run one stage module with a dummy context and print failures.  python dev_stage.py stage_det C08 quick [seed]"""
import importlib, os, sys, time, json, collections
sys.path.insert(0, os.path.dirname(os.path.abspath(__file__)))
mod, prop, tier = sys.argv[1], sys.argv[2], sys.argv[3]
seed = int(sys.argv[4]) if len(sys.argv) > 4 else 1
class Rep:
    def __init__(s): s.disagreements_checked=0; s.assumption_failures=[]; s.rule=""; s.evaluations=0; s.nontrivial=set(); s.violations=[]; s.extra={}; s.counts=collections.Counter(); s.samples=[]
    def bump(s,a,b,n=1): s.counts[(a,b)]+=n
    def sample(s,x,limit=3): s.samples.append(x)
    def log(s,m): print("[log]",m)
    def count(s,*a,**k): s.counts[("count",str(a[:1]))]+=1
class Ctx:
    def __init__(s): s.rep=Rep(); s.prop=prop; s.tier=tier; s.seed=seed; s.deadline=time.time()+3000; s.driver_ok=True; s.fails=[]; s.dis=[]
    def oracle_failure(s,p,what,replay):
        if p==s.prop: s.fails.append((what,replay))
    def disagree(s,name,inp,model,impl): s.dis.append((name,inp,model,impl))
c=Ctx(); t=time.time(); importlib.import_module(mod).run(c)
print("evals",c.rep.evaluations,"nontrivial",len(c.rep.nontrivial),"wall",round(time.time()-t,1)); print(dict(c.rep.counts))
h=collections.Counter()
for what,replay in c.fails: h[what[:150]]+=1
for k,v in h.most_common(30): print(v,k)
for what,replay in c.fails[:3]: print(json.dumps({k:v for k,v in replay.items() if k!="sources"},indent=1)[:1500])
print("disagreements",len(c.dis)); 
for d in c.dis[:3]: print(json.dumps(d,default=str)[:1500])
