"""S-A — correspondence of the analyser model (Model/Analyze.lean, with Model/Doc.lean for the
docstring queries) with ASTWalker + MyPyAstVisitor: generated packages -> real mypy.build and
griffe.load -> extractor -> `Src`; the model's API is compared field by field with the API object the
implementation builds from the very same mypy nodes."""
from __future__ import annotations

import importlib
import json
import logging
import multiprocessing as mp
import os
import random
import shutil
import sys
import time
import traceback
from pathlib import Path

import apijson
import e2e
import extract
import griffe_extract
import implrun
import pkggen
from common import driver_batch, pool_results

_IMPL = None


def _impl():
    global _IMPL
    if _IMPL is None:
        _IMPL = implrun.load()
    return _IMPL


def analyse_both(impl, root: Path, style: str, test_run: bool, tsp: str, tsw: str):
    """returns (src_json or None, impl_result) where impl_result = ("ok", api_json, warnings) | ("exc", type, site)"""
    ga = importlib.import_module("safeds_stubgen.api_analyzer._get_api")
    A = impl.analyzer
    D = impl.doc
    root = root.resolve()
    saved = list(sys.path)
    sys.path[:] = [p for p in saved if p not in ("", ".") and not str(root).startswith(os.path.abspath(p).rstrip("/") + "/")]
    cap = e2e.LogCapture()
    rl = logging.getLogger()
    logging.disable(logging.NOTSET)
    old = rl.level
    rl.setLevel(logging.WARNING)
    rl.addHandler(cap)
    src = None
    try:
        init_roots = ga._get_nearest_init_dirs(root)
        if len(init_roots) == 1:
            root = init_roots[0]
        walkable, packages = [], []
        for fp in root.glob("./**/*.py"):
            if not test_run and ("test" in fp.parts or "tests" in fp.parts or "docs" in fp.parts):
                continue
            if fp.parts[-1] == "__init__.py":
                packages.append(str(fp.parent))
                continue
            walkable.append(str(fp))
        if not walkable:
            return None, ("NoFiles",)
        build = ga._get_mypy_build(files=walkable)
        asts = ga._get_mypy_asts(build_result=build, files=walkable, package_paths=packages)
        aliases = ga._get_aliases(result_types=build.types, package_name=root.stem)
        src = extract.extract(asts, aliases)               # BEFORE the visitor runs (it patches mypy types in place)
        style_e = getattr(D.DocstringStyle, e2e.STYLES[style])
        parser = D.create_docstring_parser(style=style_e, package_path=root)
        src["doc_tree"] = None
        if style != "plaintext":
            src["doc_tree"] = griffe_extract.node(parser.griffe_build, style == "numpydoc", style == "google")
        src["opts"] = {"plaintext": style == "plaintext",
                       "style": {"numpydoc": "numpy", "google": "google", "rest": "rest"}.get(style, "numpy"),
                       "prefer_docstring": tsp == "DOCSTRING", "warn": tsw == "WARN"}
        api = A.API(distribution="", package=root.stem, version="")
        vis_mod = importlib.import_module("safeds_stubgen.api_analyzer._ast_visitor")
        walk_mod = importlib.import_module("safeds_stubgen.api_analyzer._ast_walker")
        visitor = vis_mod.MyPyAstVisitor(docstring_parser=parser, api=api, aliases=aliases,
                                         type_source_preference=getattr(A.TypeSourcePreference, tsp),
                                         type_source_warning=getattr(A.TypeSourceWarning, tsw))
        walker = walk_mod.ASTWalker(handler=visitor)
        try:
            for tree in asts:
                walker.walk(tree=tree)
        except Exception as e:  # noqa: BLE001
            return src, ("exc", type(e).__name__, e2e.site_of(e))
        return src, ("ok", apijson.api(api), list(cap.records))
    finally:
        sys.path[:] = saved
        rl.removeHandler(cap)
        rl.setLevel(old)
        logging.disable(logging.CRITICAL)


def one_case(task):
    seed, gen_kw, opts = task
    rng = random.Random(seed)
    style = opts.get("style") or rng.choice(["plaintext", "numpydoc", "google", "rest"])
    g = pkggen.PkgGen(rng, style=style, **gen_kw)
    pkg = g.package()
    top = implrun.WORK / f"sa_{os.getpid()}_{seed}"
    try:
        e2e.write_pkg(pkggen.render(pkg), top / "src")
        try:
            src, res = analyse_both(_impl(), top / "src" / pkg["root"], style, opts.get("test_run", False),
                                    opts.get("tsp", "CODE"), opts.get("tsw", "WARN"))
        except Exception as e:  # noqa: BLE001
            return {"seed": seed, "style": style, "error": f"{type(e).__name__}: {e}", "tb": traceback.format_exc()[-1500:]}
        return {"seed": seed, "style": style, "src": src, "impl": res,
                "n_decls": sum(len(m["functions"]) + len(m["classes"]) + len(m["enums"]) for m in pkg["modules"])}
    finally:
        shutil.rmtree(top, ignore_errors=True)


def first_difference(a, b, path=""):
    """a readable pointer to the first place two JSON values differ"""
    if type(a) is not type(b):
        return f"{path}: {json.dumps(a)[:160]} != {json.dumps(b)[:160]}"
    if isinstance(a, dict):
        for k in sorted(set(a) | set(b)):
            if k not in a or k not in b:
                return f"{path}.{k}: present on one side only"
            d = first_difference(a[k], b[k], f"{path}.{k}")
            if d:
                return d
        return None
    if isinstance(a, list):
        if len(a) != len(b):
            return f"{path}: lengths {len(a)} != {len(b)}: {json.dumps(a)[:120]} / {json.dumps(b)[:120]}"
        for i, (x, y) in enumerate(zip(a, b)):
            d = first_difference(x, y, f"{path}[{x.get('id', i) if isinstance(x, dict) else i}]")
            if d:
                return d
        return None
    return None if a == b else f"{path}: {json.dumps(a)[:160]} != {json.dumps(b)[:160]}"


def canon_api(j):
    j = dict(j)
    j.pop("package", None)
    # the values of the re-export map are *sets* of modules: compare them as sets
    j["reexport_map"] = [{"key": kv["key"], "modules": sorted(kv["modules"], key=lambda m: m["id"])} for kv in j["reexport_map"]]
    return apijson.canon(j)


GEN_PROFILES = {
    "default": dict(gen=dict(), opts=[dict()]),
    "C12": dict(gen=dict(private_rate=0.3, base_alias=0.7), opts=[dict()]),
    "C14": dict(gen=dict(docs=1.0, doc_types="mixed"),
                opts=[dict(tsp="CODE", tsw="WARN"), dict(tsp="DOCSTRING", tsw="WARN"), dict(tsp="DOCSTRING", tsw="IGNORE")]),
    "C08": dict(gen=dict(private_rate=0.25, unique_top_names=False, ties=0.5, infer_returns=0.4, doc_types="mixed"), opts=[dict()]),
    "C01": dict(gen=dict(kw_rate=0.03, docs=0.5, test_dirs=True, unique_top_names=False, ties=0.3, infer_returns=0.3,
                         doc_types="mixed", aliases=0.4),
                opts=[dict(test_run=True, tsp="DOCSTRING"), dict()]),
    "C03": dict(gen=dict(private_rate=0.3), opts=[dict()]),
    "C05": dict(gen=dict(docs=0.0, infer_returns=0.0), opts=[dict()]),
    "C06": dict(gen=dict(docs=0.0), opts=[dict()]),
    "C07": dict(gen=dict(docs=0.0, infer_returns=0.5, ties=0.3), opts=[dict()]),
    "C04": dict(gen=dict(private_rate=0.4, decoys=0.6), opts=[dict()]),
    "C17": dict(gen=dict(private_rate=0.45), opts=[dict()]),
}


def run(ctx) -> None:
    rep = ctx.rep
    prof = GEN_PROFILES.get(ctx.prop, GEN_PROFILES["default"])
    n = {"quick": 32, "thorough": 400}[ctx.tier]
    rng = random.Random(ctx.seed * 40503 + 23)
    tasks = []
    for _ in range(n):
        seed = rng.randrange(1 << 40)
        for o in prof["opts"]:
            tasks.append((seed, prof["gen"], o))
    rule = ("S-A: generated packages -> mypy.build + griffe.load -> extractor -> Src; Model/Analyze.lean against "
            "ASTWalker+MyPyAstVisitor on the same mypy nodes; the whole API object compared (modules, classes, functions, "
            "parameters, results, attributes, enums, re-export map, table orders, warnings); the candidate lists of the alias "
            "table (Python sets) reach the model in a shuffled order; non-trivial = >= 5 declarations; "
            "distinct by generator seed")
    rep.rule = (rep.rule + " | " if rep.rule else "") + rule
    implrun.WORK.mkdir(exist_ok=True)
    results = []
    with mp.get_context("fork").Pool(min(16, os.cpu_count() or 4)) as pool:
        for r in pool_results(pool, one_case, tasks, ctx.deadline):
            if time.time() > ctx.deadline:
                pool.terminate()
                break
            results.append(r)
    reqs, metas = [], []
    for r in results:
        rep.evaluations += 1
        if "error" in r:
            rep.assumption_failures.append(f"S-A harness error seed {r['seed']}: {r['error']}")
            rep.bump("sa_outcome", "harness-error")
            continue
        rep.bump("sa_outcome", r["impl"][0] if r["impl"][0] != "exc" else f"{r['impl'][1]}@{r['impl'][2]}")
        if r.get("n_decls", 0) >= 5:
            rep.nontrivial.add(r["seed"])
        if r["src"] is None:
            continue
        src = r["src"]
        # the alias table's values are Python sets: the model gets them in an order of the harness' choosing
        sh = random.Random(r["seed"] ^ 0x5bd1e995)
        aliases = [[k, sh.sample(v, len(v))] for k, v in src["aliases"]]
        rep.bump("sa_alias_sets", "several candidates" if any(len(v) > 1 for _, v in aliases) else "single candidates only")
        reqs.append({"op": "analyze", "modules": src["modules"], "aliases": aliases, "info_bases": src["info_bases"],
                     "doc_tree": src["doc_tree"], "opts": src["opts"]})
        metas.append(r)
    if not ctx.driver_ok:
        return
    CH = 8
    for i in range(0, len(reqs), CH):
        outs = driver_batch(reqs[i:i + CH])
        for r, m in zip(metas[i:i + CH], outs):
            rep.disagreements_checked += 1
            inp = {"seed": r["seed"], "style": r["style"], "opts": r["src"]["opts"]}
            impl = r["impl"]
            if impl[0] == "exc" or not m.get("ok"):
                mi = ("ok",) if m.get("ok") else ("exc", m.get("err"))
                ii = ("ok",) if impl[0] == "ok" else ("exc", impl[1], impl[2])
                if mi[:2] != ii[:2]:
                    ctx.disagree("S-A/outcome", inp, mi, ii)
                continue
            a, b = canon_api(impl[1]), canon_api(m["api"])
            d = first_difference(a, b)
            if d:
                ctx.disagree("S-A/api", inp, "model: see path", d)
                rep.extra.setdefault("sa_first_difference", d)
            else:
                wi = sorted(w for w in impl[2] if w.startswith("Different type hint"))
                wm = sorted(w for w in m["warnings"] if w.startswith("Different type hint"))
                if wi != wm:
                    ctx.disagree("S-A/warnings", inp, wm[:4], wi[:4])
                else:
                    rep.bump("sa_outcome", "api_equal")
