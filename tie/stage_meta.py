"""S-M — metamorphic runs for C18: the tool is run on a generated package and on variants that differ by an
unrelated module (added with fresh names / added with re-used names / changed / renamed) or by a permutation
of one module's top-level functions; the stub of every module that is unrelated to the edit must be
byte-identical, the stub of the permuted module must consist of the same declarations in permuted order."""
from __future__ import annotations

import copy
import multiprocessing as mp
import os
import random
import shutil
import time

import e2e
from common import pool_results
import implrun
import pkggen
import stubparse

_IMPL = None
GEN = dict(kw_rate=0.03, docs=0.3, private_rate=0.2, reexports=True, infer_returns=0.2)


def _impl():
    global _IMPL
    if _IMPL is None:
        _IMPL = implrun.load()
    return _IMPL


def refs_of(m) -> set:
    """qualified names of classes a module refers to (annotations, base classes)"""
    out: set = set()

    def walk_f(f):
        for p in f["params"]:
            if p["ann"] is not None:
                pkggen.ann_classes(p["ann"], out)
        if f["ret"] is not None:
            pkggen.ann_classes(f["ret"], out)

    def walk_c(c):
        for b in c["bases"]:
            out.add(tuple(b))
        for a in c["attrs"] + c["inst_attrs"]:
            if a.get("ann") is not None:
                pkggen.ann_classes(a["ann"], out)
        if c["init"]:
            walk_f(c["init"])
        for f in c["methods"]:
            walk_f(f)
        for k in c["classes"]:
            walk_c(k)
    for c in m["classes"]:
        walk_c(c)
    for f in m["functions"]:
        walk_f(f)
    return {q for (_, q) in out}


def defined_in(m) -> set:
    out = set()

    def walk_c(c):
        out.add(c["qname"])
        for k in c["classes"]:
            walk_c(k)
    for c in m["classes"]:
        walk_c(c)
    return out


def reexported_modules(pkg) -> set:
    return {e["module"] for entries in pkg["inits"].values() for e in entries}


def fresh_module(rng, pkg, style, reuse_from=None):
    g = pkggen.PkgGen(rng, style=style, kw_rate=0.0, docs=0.0, private_rate=0.0, reexports=False)
    ag = pkggen.AnnGen(rng, [])
    name = f"zz_extra_{rng.randrange(1000)}"
    root = [pkg["root"]]
    qn = ".".join(root + [name])
    if reuse_from is None:
        fn, cn = "zz_function", "ZzClass"
    else:
        fn = reuse_from["functions"][0]["name"] if reuse_from["functions"] else "zz_function"
        cn = reuse_from["classes"][0]["name"] if reuse_from["classes"] else "ZzClass"
    f = g.function(ag, fn)
    c = g.class_(ag, cn, f"{qn}.{cn}", [], 0)
    return {"kind": "module", "name": name, "pkg": root, "qname": qn, "classes": [c], "functions": [f], "enums": [],
            "doc": "", "imports": set(), "generic_tail": True}


def stub_files(res) -> dict:
    return {p: t for p, t in res["files"].items() if p.endswith(".sdsstub")}


def module_stub_paths(res, m) -> list:
    """the files of run `res` that announce module m (its own stub)"""
    pre = "/".join(m["qname"].split(".")) + "/"
    return [p for p in res["files"] if p.startswith(pre) and p.endswith(".sdsstub")]


def one_case(task):
    seed, tier = task
    rng = random.Random(seed)
    style = rng.choice(["plaintext", "numpydoc", "google", "rest"])
    pkg = pkggen.PkgGen(rng, style=style, **GEN).package()
    top = implrun.WORK / f"sm_{os.getpid()}_{seed}"
    out = {"seed": seed, "fails": [], "runs": 0, "variants": [], "n_files": 0}
    opts = {"style": style, "convert": rng.random() < 0.5}

    def run(p, tag):
        d = top / tag
        e2e.write_pkg(pkggen.render(p), d / "src")
        r = e2e.run_tool(_impl(), d / "src" / p["root"], d / "out", **opts)
        out["runs"] += 1
        return r

    def fail(what, **extra):
        out["fails"].append(("C18", what, {"stage": "S-M", "seed": seed, "options": opts, **extra}))

    try:
        base = run(pkg, "a")
        if base["outcome"] != "ok":
            return out
        a = stub_files(base)
        out["n_files"] = len(a)
        reexp = reexported_modules(pkg)
        defs = {m["qname"]: defined_in(m) for m in pkg["modules"]}
        refs = {m["qname"]: refs_of(m) for m in pkg["modules"]}

        def compare_unrelated(res, variant, skip_prefixes=(), **extra):
            if res["outcome"] != base["outcome"]:
                fail(f"{variant}: the run ends with {res['outcome']} instead of {base['outcome']}", variant=variant, **extra)
                return
            b = stub_files(res)
            for p, t in a.items():
                if any(p.startswith(s) for s in skip_prefixes):
                    continue
                if b.get(p) != t:
                    fail(f"{variant}: the stub {p} of an unrelated module changed" if p in b else
                         f"{variant}: the stub {p} of an unrelated module disappeared", variant=variant, path=p,
                         before=t[:600], after=(b.get(p) or "")[:600], **extra)
                    return

        # (a) an unrelated module with fresh names is added
        v = copy.deepcopy(pkg)
        v["modules"].append(fresh_module(rng, pkg, style))
        out["variants"].append("add-fresh")
        compare_unrelated(run(v, "b"), "an unrelated module with fresh names is added", reuses_names=False)
        # (b) an unrelated module that re-uses the names of existing declarations is added
        donors = [m for m in pkg["modules"] if m["classes"] or m["functions"]]
        if donors and tier == "thorough" or (donors and rng.random() < 0.5):
            v = copy.deepcopy(pkg)
            v["modules"].append(fresh_module(rng, pkg, style, reuse_from=rng.choice(donors)))
            out["variants"].append("add-same-names")
            compare_unrelated(run(v, "c"), "an unrelated module that re-uses existing names is added", reuses_names=True)
        # (c) a declaration is added to / (e) the name of a module nobody refers to and no __init__ re-exports
        lonely = [m for m in pkg["modules"] if m["qname"] not in reexp
                  and not any(defs[m["qname"]] & refs[o["qname"]] for o in pkg["modules"] if o is not m)]
        if lonely:
            x = rng.choice(lonely)
            v = copy.deepcopy(pkg)
            vx = next(m for m in v["modules"] if m["qname"] == x["qname"])
            g = pkggen.PkgGen(rng, style=style, kw_rate=0.0, docs=0.0, private_rate=0.0)
            vx["functions"].append(g.function(pkggen.AnnGen(rng, []), "zz_added_function"))
            out["variants"].append("change-unrelated")
            own = "/".join(x["qname"].split(".")) + "/"
            compare_unrelated(run(v, "d"), "a function is added to an unrelated module", skip_prefixes=(own,),
                              reuses_names=False, edited=x["qname"])
            if not x["classes"] or True:
                v = copy.deepcopy(pkg)
                vx = next(m for m in v["modules"] if m["qname"] == x["qname"])
                old_q = vx["qname"]
                vx["name"] = "zz_renamed_" + vx["name"].strip("_")
                vx["qname"] = ".".join(vx["pkg"] + [vx["name"]])

                def rename(c):
                    c["qname"] = vx["qname"] + c["qname"][len(old_q):]
                    for b in c["bases"]:
                        pass
                    for k in c["classes"]:
                        rename(k)
                # classes of the module refer to each other by qualified name in the specification
                import json as _json
                blob = _json.dumps(vx, default=list).replace(old_q + ".", vx["qname"] + ".")
                vx2 = _json.loads(blob)
                vx2["imports"] = set()
                v["modules"][v["modules"].index(vx)] = _retuple(vx2)
                out["variants"].append("rename-unrelated")
                compare_unrelated(run(v, "e"), "an unrelated module is renamed", skip_prefixes=(own,),
                                  reuses_names=False, edited=x["qname"])
        # (g) two classes of one name in two modules, one of them re-exported through a wildcard import; a module that uses
        #     one of them must not change when an unrelated module that uses the OTHER one is added
        root = pkg["root"]

        def plain_module(name, classes=(), functions=()):
            return {"kind": "module", "name": name, "pkg": [root], "qname": f"{root}.{name}", "classes": list(classes),
                    "functions": list(functions), "enums": [], "doc": "", "imports": set()}

        def point(mod):
            return {"kind": "class", "name": "ZzPoint", "qname": f"{root}.{mod}.ZzPoint", "bases": [], "inst_attrs": [], "init": None,
                    "attrs": [{"name": "zz_x", "ann": ("int",), "value": "0", "doc": ""}], "methods": [], "classes": [], "doc": "",
                    "extras": {}}

        def user(fn, mod):
            return {"kind": "function", "name": fn, "method_kind": None, "ret": ("None",), "returns": None, "doc": "", "result_doc": "",
                    "is_property": False, "result_doc_type": None, "rest_type_first": True,
                    "params": [{"name": "p", "kind": "POSITION_OR_NAME", "ann": ("cls", "ZzPoint", f"{root}.{mod}.ZzPoint"),
                                "default": None, "doc": "", "doc_type": None}]}
        if f"{root}.zz_shapes" not in {m["qname"] for m in pkg["modules"]}:
            common = copy.deepcopy(pkg)
            common["modules"] += [plain_module("zz_shapes", [point("zz_shapes")]), plain_module("zz_coords", [point("zz_coords")])]
            common["inits"].setdefault(root, []).append({"form": "star", "module": f"{root}.zz_shapes"})
            area = plain_module("zz_area", functions=[user("zz_area_of", "zz_shapes")])
            plot = plain_module("zz_plot", functions=[user("zz_plot_it", "zz_coords")])
            out["variants"].append("same-name-star")
            runs = {}
            for tag, mods in (("g_area", [area]), ("g_plot", [plot]), ("g_both", [area, plot])):
                v = copy.deepcopy(common)
                v["modules"] += copy.deepcopy(mods)
                runs[tag] = run(v, tag)
            for single, mod in (("g_area", "zz_area"), ("g_plot", "zz_plot")):
                ra, rb = runs[single], runs["g_both"]
                if ra["outcome"] != "ok" or rb["outcome"] != "ok":
                    continue
                pth = f"{root}/{mod}/{mod}.sdsstub"
                if ra["files"].get(pth) != rb["files"].get(pth):
                    fail(f"adding an unrelated module that uses the other class named ZzPoint changed the stub {pth}",
                         variant="same-name-star", path=pth, before=(ra["files"].get(pth) or "")[:500],
                         after=(rb["files"].get(pth) or "")[:500], reuses_names=False)
        # (h) a class NESTED in another class of module M, referred to through an un-analysed type (`Final[Layer] = Layer()`
        #     in the body of the outer class): M must not change when an unrelated module defines and uses a class of the
        #     same short name (the package-wide alias table then holds two candidates for that name)
        if f"{root}.zz_canvas" not in {m["qname"] for m in pkg["modules"]}:
            canvas = plain_module("zz_canvas")
            canvas["raw_tail"] = ["from typing import Final", "", "class ZzCanvas:", "    class ZzLayer:", "        zz_depth: int = 0",
                                  "    zz_background: Final[ZzLayer] = ZzLayer()", "    zz_layers: list[ZzLayer, int] = []", ""]
            other_cls = {"kind": "class", "name": "ZzLayer", "qname": f"{root}.zz_other.ZzLayer", "bases": [], "inst_attrs": [],
                         "init": None, "attrs": [{"name": "zz_w", "ann": ("int",), "value": "0", "doc": ""}], "methods": [],
                         "classes": [], "doc": "", "extras": {}}
            other_fn = {"kind": "function", "name": "zz_use_layer", "method_kind": None, "ret": ("None",), "returns": None, "doc": "",
                        "result_doc": "", "is_property": False, "result_doc_type": None, "rest_type_first": True,
                        "params": [{"name": "p", "kind": "POSITION_OR_NAME", "ann": ("cls", "ZzLayer", f"{root}.zz_other.ZzLayer"),
                                    "default": None, "doc": "", "doc_type": None}]}
            other = plain_module("zz_other", [other_cls], [other_fn])
            # the class is also USED in an expression: only expression types enter the package-wide alias table
            other["raw_tail"] = ["_zz_default_layer = ZzLayer()", ""]
            out["variants"].append("nested-class-final")
            va = copy.deepcopy(pkg)
            va["modules"].append(copy.deepcopy(canvas))
            vb = copy.deepcopy(va)
            vb["modules"].append(other)
            ra, rb = run(va, "h_a"), run(vb, "h_b")
            pth = f"{root}/zz_canvas/zz_canvas.sdsstub"
            if ra["outcome"] == "ok" and rb["outcome"] == "ok" and ra["files"].get(pth) != rb["files"].get(pth):
                fail(f"adding an unrelated module that defines another class named ZzLayer changed the stub {pth}",
                     variant="nested-class-final", path=pth, before=(ra["files"].get(pth) or "")[:600],
                     after=(rb["files"].get(pth) or "")[:600], reuses_names=False)
        # (i) the top-level CLASSES of a module are permuted: a private class that is the superclass of a public class, and
        #     another class that holds a NESTED private class of the same name, declared before / after it
        if f"{root}.zz_registry" not in {m["qname"] for m in pkg["modules"]}:
            reg = ["class ZzRegistry:", "    class _ZzBase:", "        def zz_entry_count(self) -> int:", "            return 0", ""]
            pbase = ["class _ZzBase:", "    def zz_describe(self) -> str:", "        return ''", ""]
            child = ["class ZzChild(_ZzBase):", "    zz_flag: bool = True", ""]
            out["variants"].append("permute-classes")
            texts = {}
            for tag, order in (("i_a", reg + pbase + child), ("i_b", pbase + child + reg)):
                v = copy.deepcopy(pkg)
                mreg = plain_module("zz_registry")
                mreg["raw_tail"] = order
                v["modules"].append(mreg)
                res = run(v, tag)
                texts[tag] = res["files"].get(f"{root}/zz_registry/zz_registry.sdsstub") if res["outcome"] == "ok" else None
            if texts["i_a"] is not None and texts["i_b"] is not None:
                try:
                    sa, _ = stubparse.parse(texts["i_a"])
                    sb, _ = stubparse.parse(texts["i_b"])
                    da = {(d.kind, d.name): repr(d) for d in sa.decls}
                    db = {(d.kind, d.name): repr(d) for d in sb.decls}
                    if da != db:
                        bad = sorted(k for k in set(da) | set(db) if da.get(k) != db.get(k))
                        fail(f"permutation of the classes of {root}.zz_registry: the declarations of its stub are not the same ones "
                             f"({bad[:2]})", variant="permute-classes", before=texts["i_a"][:700], after=texts["i_b"][:700])
                except stubparse.StubSyntaxError:
                    pass
        # (d) the top-level functions of one module are permuted
        cands = [m for m in pkg["modules"] if len(m["functions"]) >= 2 and m["qname"] not in reexp
                 and not any(seg.startswith("_") for seg in m["pkg"][1:] + [m["name"]])]
        if cands:
            x = rng.choice(cands)
            v = copy.deepcopy(pkg)
            vx = next(m for m in v["modules"] if m["qname"] == x["qname"])
            vx["functions"] = list(reversed(vx["functions"]))
            out["variants"].append("permute-functions")
            res = run(v, "f")
            own = "/".join(x["qname"].split(".")) + "/"
            compare_unrelated(res, "the functions of another module are permuted", skip_prefixes=(own,), reuses_names=False,
                              edited=x["qname"])
            for p in module_stub_paths(base, x):
                tb = res["files"].get(p)
                if tb is None:
                    fail(f"permutation of the functions of {x['qname']}: its stub {p} disappeared", path=p)
                    continue
                try:
                    sa, _ = stubparse.parse(a[p])
                    sb, _ = stubparse.parse(tb)
                except stubparse.StubSyntaxError:
                    continue
                da = {(d.kind, d.name): d for d in sa.decls}
                db = {(d.kind, d.name): d for d in sb.decls}
                if (sa.package, sa.pymodule, sorted(sa.imports)) != (sb.package, sb.pymodule, sorted(sb.imports)):
                    fail(f"permutation of the functions of {x['qname']}: header or imports of {p} changed", path=p,
                         before=a[p][:400], after=tb[:400])
                elif sorted(a[p].splitlines()) != sorted(tb.splitlines()) or set(da) != set(db) or \
                        any(repr(da[k]) != repr(db[k]) for k in da):
                    bad = [k for k in da if k in db and repr(da[k]) != repr(db[k])]
                    fail(f"permutation of the functions of {x['qname']}: the declarations of {p} are not the same ones "
                         f"({bad[:2] or sorted(set(da) ^ set(db))[:2]})", path=p, before=a[p][:800], after=tb[:800])
                else:
                    # only the functions of the specification are permuted (zz_overloaded keeps its place in the source)
                    fa = [d.name for d in sa.decls if d.kind == "fun" and d.pyname != "zz_overloaded"]
                    fb = [d.name for d in sb.decls if d.kind == "fun" and d.pyname != "zz_overloaded"]
                    if fb != list(reversed(fa)):
                        fail(f"permutation of the functions of {x['qname']}: order in the stub {fb}, expected {list(reversed(fa))}",
                             path=p)
    finally:
        shutil.rmtree(top, ignore_errors=True)
    return out


def _retuple(x):
    """annotation terms and base-class pairs are tuples in the specification; JSON turned them into lists"""
    if isinstance(x, list):
        if x and isinstance(x[0], str) and (x[0] in pkggen._KINDS):
            return tuple(_retuple(y) for y in x)
        return [_retuple(y) for y in x]
    if isinstance(x, dict):
        d = {k: _retuple(v) for k, v in x.items()}
        if "bases" in d:
            d["bases"] = [tuple(b) for b in d["bases"]]
        return d
    return x


def run(ctx) -> None:
    rep = ctx.rep
    n = {"quick": 16, "thorough": 200}[ctx.tier]
    rng = random.Random(ctx.seed * 69069 + 11)
    tasks = [(rng.randrange(1 << 40), ctx.tier) for _ in range(n)]
    rep.rule = (rep.rule + " | " if rep.rule else "") + (
        "S-M: generated packages run through the whole tool, then again after (a) adding an unrelated module with fresh "
        "names, (b) adding one that re-uses names of existing declarations, (c) adding a function to / (e) renaming a module "
        "that nobody refers to and no __init__ re-exports, (d) reversing the top-level functions of a module; every stub of an "
        "unrelated module compared byte for byte, the permuted module's stub declaration by declaration; non-trivial = the "
        "base run wrote >= 3 stub files; distinct by generator seed")
    implrun.WORK.mkdir(exist_ok=True)
    t0 = time.time()
    with mp.get_context("fork").Pool(min(16, os.cpu_count() or 4)) as pool:
        for r in pool_results(pool, one_case, tasks, ctx.deadline):
            if time.time() > ctx.deadline:
                pool.terminate()
                break
            rep.evaluations += r["runs"]
            for v in r["variants"]:
                rep.bump("meta_variant", v)
            if r["n_files"] >= 3:
                rep.nontrivial.add(r["seed"])
            for p, what, replay in r["fails"]:
                ctx.oracle_failure(p, what, replay)
    rep.extra["meta_wall_s"] = round(time.time() - t0, 1)
