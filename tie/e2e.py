"""End-to-end runs of the tool (the CLI minus argparse) on generated packages."""
from __future__ import annotations

import json
import logging
import os
import shutil
import traceback
from pathlib import Path

import implrun

os.environ.setdefault("MYPY_CACHE_DIR", os.devnull)

STYLES = {"plaintext": "PLAINTEXT", "numpydoc": "NUMPYDOC", "google": "GOOGLE", "rest": "REST"}


def write_pkg(files: dict[str, str], top: Path) -> None:
    for rel, text in files.items():
        p = top / rel
        p.parent.mkdir(parents=True, exist_ok=True)
        p.write_text(text, encoding="utf-8")


class LogCapture(logging.Handler):
    def __init__(self):
        super().__init__(level=logging.WARNING)
        self.records: list[str] = []

    def emit(self, record):
        self.records.append(record.getMessage())


def run_tool(impl, src: Path, out: Path, *, style="plaintext", test_run=False, convert=False, tsp="CODE", tsw="WARN",
             out_as_given=False):
    """returns dict(outcome=ok|NoFiles|exc, exc=, site=, files={rel: text}, api=json, warnings=[...])"""
    D = impl.doc.DocstringStyle
    A = impl.analyzer
    cap = LogCapture()
    root = logging.getLogger()
    logging.disable(logging.NOTSET)
    old_level = root.level
    root.setLevel(logging.WARNING)
    root.addHandler(cap)
    res = {"outcome": "ok", "warnings": cap.records}
    # griffe derives the top-level module name from sys.path entries that are ancestors of the source
    # directory; the harness' own entries ('' = cwd when run from stdin, /verif/…) must not play that role
    import sys
    saved_path = list(sys.path)
    rsrc = str(src.resolve())
    sys.path[:] = [p for p in sys.path if p not in ("", ".") and not rsrc.startswith(os.path.abspath(p).rstrip("/") + "/")]
    try:
        impl.cli._run_stub_generator(
            src_dir_path=src.resolve(), out_dir_path=out if out_as_given else out.resolve(),
            docstring_style=getattr(D, STYLES[style]),
            is_test_run=test_run, convert_identifiers=convert,
            type_source_preference=getattr(A.TypeSourcePreference, tsp),
            type_source_warning=getattr(A.TypeSourceWarning, tsw))
    except ValueError as e:
        if str(e) == "No files found to analyse.":
            res["outcome"] = "NoFiles"
        else:
            res.update(outcome="exc", exc="ValueError", site=site_of(e), msg=str(e)[:200])
    except Exception as e:  # noqa: BLE001
        res.update(outcome="exc", exc=type(e).__name__, site=site_of(e), msg=str(e)[:200])
    finally:
        sys.path[:] = saved_path
        root.removeHandler(cap)
        root.setLevel(old_level)
        logging.disable(logging.CRITICAL)
    files = {}
    if out.exists():
        for p in sorted(out.rglob("*")):
            if p.is_file():
                files[str(p.relative_to(out))] = p.read_bytes().decode("utf-8")
    res["files"] = files
    api_files = [k for k in files if k.endswith("__api.json")]
    res["api"] = None
    if api_files:
        try:
            res["api"] = json.loads(files[api_files[0]])
        except ValueError as e:        # a run that aborted while writing leaves a truncated file
            res["api_invalid"] = str(e)[:120]
    res["api_file"] = api_files[0] if api_files else None
    return res


def site_of(e: BaseException) -> str:
    frames = [f for f in traceback.extract_tb(e.__traceback__) if "safeds_stubgen" in f.filename]
    return f"{Path(frames[-1].filename).name}:{frames[-1].name}" if frames else "?"
