"""Property oracles evaluated on the implementation's generator output (S-B).  Filled in per property."""
from __future__ import annotations


def check(ctx, impl, label, safe, api, api_json, result, before, after) -> None:
    pass
