"""Property oracles evaluated on the implementation's *generator* output (S-B): the API object is the
ground truth, the stub files are parsed by the independent recogniser (stubparse), and each
property's predicate — written from the property statement, not from the generator — is evaluated.
A failure is reported through ctx.oracle_failure(property, what, replay); known findings are
attributed there."""
from __future__ import annotations

import json
import re

import stubparse
from stage_names import KEYWORDS33, spec_camel

TODO_MSG = {
    "no tuple support": "Safe-DS does not support tuple types.",
    "no set support": "Safe-DS does not support set types.",
    "List": "List type has to many type arguments.",
    "Set": "Set type has to many type arguments.",
    "OPT_POS_ONLY": "Safe-DS does not support optional but position only parameter assignments.",
    "REQ_NAME_ONLY": "Safe-DS does not support required but name only parameter assignments.",
    "multiple_inheritance": "Safe-DS does not support multiple inheritance.",
    "variadic": "Safe-DS does not support variadic parameters.",
    "class_method": "Safe-DS does not support class methods.",
    "param without type": "Some parameter have no type information.",
    "attr without type": "Attribute has no type information.",
    "result without type": "Result type information missing.",
    "internal class as type": "An internal class must not be used as a type in a public class.",
    "unknown": "Unknown type - Type could not be parsed.",
    "unknown value": "Unknown value - Value could not be parsed.",
}
MSG_KEY = {"// TODO " + v: k for k, v in TODO_MSG.items()}
BUILTIN = {"int": "Int", "str": "String", "bool": "Boolean", "float": "Float", "None": "Nothing?"}


def conv(name: str, safe: bool, cls: bool = False) -> str:
    return spec_camel(name, cls) if safe and "." not in name else (name if not safe else ".".join(name.split(".")))


def esc(n: str) -> str:
    return f"`{n}`" if n in KEYWORDS33 else n


# --------------------------------------------------------------------------- spec: types

def is_none(t) -> bool:
    return t["kind"] == "NamedType" and t["qname"] == "builtins.None"


def sds_string(v: str) -> str:
    """the Safe-DS string literal of a Python string, written from the Safe-DS lexer: backslash, double quote and line
    breaks cannot stand in a literal unescaped"""
    return '"' + "".join({"\\": "\\\\", '"': '\\"', "\n": "\\n", "\r": "\\r"}.get(c, c) for c in v) + '"'


def lit_text(v) -> str:
    if isinstance(v, str):
        return sds_string(v)
    if isinstance(v, bool):
        return "true" if v else "false"
    if v is None:
        return "null"
    return f"{v}"


def type_text(t, safe: bool) -> str:
    """documented mapping API type -> Safe-DS type text (unions: sorted set, Nothing? last)"""
    k = t["kind"]
    if k == "NamedType":
        return BUILTIN.get(t["name"], esc(t["name"]))
    if k == "FinalType":
        return type_text(t["type"], safe)
    if k in ("ListType", "SetType", "NamedSequenceType"):
        name = {"ListType": "List", "SetType": "Set"}.get(k) or esc(t["name"])
        args = [type_text(x, safe) for x in t["types"]]
        return f"{name}<{', '.join(args) if args else 'Any'}>"
    if k == "TupleType":
        return "Tuple<" + ", ".join(type_text(x, safe) for x in t["types"]) + ">"
    if k == "DictType":
        return f"Map<{type_text(t['key_type'], safe)}, {type_text(t['value_type'], safe)}>"
    if k == "LiteralType":
        return "literal<" + ", ".join(lit_text(v) for v in t["literals"]) + ">"
    if k == "TypeVarType":
        return esc(conv(t["name"], safe))
    if k == "UnknownType":
        return "unknown"
    if k == "CallableType":
        ps = ", ".join(f"{conv('param_' + str(i + 1), safe)}: {type_text(p, safe)}" for i, p in enumerate(t["parameter_types"]))
        r = t["return_type"]
        if r["kind"] == "TupleType":
            rs = "(" + ", ".join(f"{conv('result_' + str(i + 1), safe)}: {type_text(x, safe)}" for i, x in enumerate(r["types"])) + ")"
        elif r["kind"] == "NamedType" and r["name"] == "None":
            rs = "()"
        else:
            rs = f"{conv('result_1', safe)}: {type_text(r, safe)}"
        return f"({ps}) -> {rs}"
    if k == "UnionType":
        ms = t["types"]
        lits = [m for m in ms if m["kind"] == "LiteralType"]
        others = [m for m in ms if m["kind"] != "LiteralType"]
        all_lits = []
        for m in lits:
            for v in m["literals"]:
                if not any(type(w) is type(v) and w == v for w in all_lits):
                    all_lits.append(v)
        if lits and len(others) == 1 and is_none(others[0]) and (len(lits) >= 2 or len(ms) == 2):
            return "literal<" + ", ".join(lit_text(v) for v in all_lits + [None]) + ">"
        if len(lits) >= 2:
            texts = [type_text(m, safe) for m in others] + ["literal<" + ", ".join(lit_text(v) for v in all_lits) + ">"]
        else:
            texts = [type_text(m, safe) for m in ms]
        nullable_kind = any((m["kind"] in ("TupleType", "ListType", "SetType", "DictType"))
                            or (m["kind"] == "NamedType" and not is_none(m)) for m in ms)
        u = sorted(set(texts))
        if not u:
            return ""
        if len(u) == 1:
            return u[0]
        if len(u) == 2 and "Nothing?" in u and nullable_kind:
            return [x for x in u if x != "Nothing?"][0] + "?"
        if "Nothing?" in u:
            u = [x for x in u if x != "Nothing?"] + ["Nothing?"]
        return "union<" + ", ".join(u) + ">"
    return "<unrenderable>"


def type_keys(t, top=True) -> set:
    """C20: markers a type deserves"""
    k = t["kind"]
    out = set()
    if k == "TupleType":
        out.add("no tuple support")
    if k == "SetType":
        out.add("no set support")
    if k in ("ListType", "SetType", "NamedSequenceType") and len(t["types"]) >= 2:
        name = {"ListType": "List", "SetType": "Set"}.get(k) or t["name"]
        if name in ("List", "Set"):
            out.add(name)
    if k == "UnknownType":
        out.add("unknown")
    for c in t.get("types", []) if k != "LiteralType" else []:
        out |= type_keys(c)
    if k == "DictType":
        out |= type_keys(t["key_type"]) | type_keys(t["value_type"])
    if k == "FinalType":
        out |= type_keys(t["type"])
    if k == "CallableType":
        for p in t["parameter_types"]:
            out |= type_keys(p)
        r = t["return_type"]
        if r["kind"] == "TupleType":
            for x in r["types"]:
                out |= type_keys(x)
        else:
            out |= type_keys(r)
    return out


def mentions_internal(t) -> bool:
    k = t["kind"]
    if k == "NamedType":
        return t["name"].startswith("_")
    subs = list(t.get("types", [])) if k != "LiteralType" else []
    for key in ("key_type", "value_type", "type", "return_type"):
        if isinstance(t.get(key), dict):
            subs.append(t[key])
    subs += t.get("parameter_types", [])
    return any(mentions_internal(s) for s in subs)


def renders_empty(t) -> bool:
    return (t["kind"] == "UnionType" and not t["types"]) or (t["kind"] == "FinalType" and renders_empty(t["type"]))


def canon_type_text(text: str) -> str:
    """parse a type text with the recogniser and print it canonically (unions as sorted sets)"""
    p = stubparse.Parser("package p\nfun f(x: " + text + ")")
    f = p.file()
    return stubparse.render_type(f.decls[0].params[0].type)


# --------------------------------------------------------------------------- spec: parameters / results

def default_text(p) -> str | None:
    d = p["default"]
    k = d["k"]
    if k == "none":
        return "null"
    if k == "bool":
        return "true" if d["v"] else "false"
    if k == "unknown":
        return "unknown"
    if k == "str":
        if p["assigned_by"] == "POSITIONAL_VARARG" and d["v"] == "()":
            return "[]"
        return d["v"]
    return f"{d['v']}"


def shown_type(p):
    t = p["type"]
    if t is not None and p["assigned_by"] == "POSITIONAL_VARARG" and t["kind"] == "TupleType":
        return {"kind": "ListType", "types": t["types"]}
    return t


def param_keys(p) -> set:
    out = set()
    t = shown_type(p)
    if t is None:
        out.add("param without type")
    else:
        out |= type_keys(t)
    if p["is_optional"] and p["default"]["k"] == "unknown" and p["type"] is not None:
        out.add("unknown value")      # (an untyped optional parameter is outside the API invariant)
    if p["assigned_by"] == "POSITION_ONLY" and p["is_optional"]:
        out.add("OPT_POS_ONLY")
    if p["assigned_by"] == "NAME_ONLY" and not p["is_optional"]:
        out.add("REQ_NAME_ONLY")
    if p["assigned_by"] in ("POSITIONAL_VARARG", "NAMED_VARARG"):
        out.add("variadic")
    return out


def shown_results(f):
    """(suppressed?, [(name, type)]) per the property: a None result means no results at all"""
    rs = f["results"]
    if len(rs) == 1 and rs[0]["type"] is not None and is_none(rs[0]["type"]):
        return True, []
    return False, [(r["name"], r["type"]) for r in rs if r["type"] is not None and not renders_empty(r["type"])]


# --------------------------------------------------------------------------- API index

class Index:
    def __init__(self, j):
        self.j = j
        self.classes = {}
        for c in j["classes"]:
            self.classes[c["id"]] = c
        self.modules = {m["id"]: m for m in j["modules"]}

    def find_class(self, qname: str):
        cid = qname.replace(".", "/")
        if cid in self.classes:
            return self.classes[cid]
        for k, c in self.classes.items():
            if k.endswith(cid):
                return c
        return None


def private_ancestors(ix: Index, c, seen=None):
    """private (underscore-named) ancestors reachable through private bases, DFS order"""
    seen = seen if seen is not None else []
    for s in c["superclasses"]:
        if s.split(".")[-1].startswith("_"):
            sc = ix.find_class(s)
            if sc is not None and sc["id"] not in [x["id"] for x in seen]:
                seen.append(sc)
                private_ancestors(ix, sc, seen)
    return seen


def has_private_diamond(ix: Index, c) -> bool:
    """two private bases at some inlining level (sibling bases do not share the set of defined names)"""
    priv = [s for s in c["superclasses"] if s.split(".")[-1].startswith("_")]
    if len(priv) >= 2:
        return True
    for s in priv:
        sc = ix.find_class(s)
        if sc is not None and has_private_diamond(ix, sc):
            return True
    return False


# --------------------------------------------------------------------------- the checks

def known_bad_keyword_positions(j) -> set:
    """names that the generator is known not to escape (findings F02-*): package path segments, enum
    names, class names referenced as types or superclasses, constructor type variables"""
    out = set()
    for m in j["modules"]:
        out.update(m["id"].split("/"))
        for e in m["enums"]:
            out.add(e["name"])
    def walk_t(t):
        if t is None:
            return
        if t["kind"] == "NamedType":
            out.add(t["name"])
        if t["kind"] == "NamedSequenceType":
            out.add(t["name"])
        for x in (t.get("types", []) if t["kind"] != "LiteralType" else []):
            walk_t(x)
        for key in ("key_type", "value_type", "type", "return_type", "upper_bound"):
            if isinstance(t.get(key), dict):
                walk_t(t[key])
        for x in t.get("parameter_types", []):
            walk_t(x)
    def walk_f(f):
        for p in f["params"]:
            walk_t(p["type"])
        for r in f["results"]:
            walk_t(r["type"])
        for tv in f["type_vars"]:
            walk_t(tv["upper_bound"])
    def walk_c(c):
        for s in c["superclasses"]:
            out.add(s.split(".")[-1])
            out.update(s.split("."))
        out.add(c["name"])
        if c["ctor"]:
            walk_f(c["ctor"])
            for tv in c["ctor"]["type_vars"]:
                out.add(tv["name"])
        for a in c["attributes"]:
            walk_t(a["type"])
        for tp in c["type_parameters"]:
            walk_t(tp["type"])
        for f in c["methods"]:
            walk_f(f)
        for k in c["classes"]:
            walk_c(k)
    for c in j["classes"]:
        walk_c(c)
    for m in j["modules"]:
        for f in m["functions"]:
            walk_f(f)
    for kv in j["reexport_map"]:
        for mod in kv["modules"]:
            out.update(mod["id"].split("/"))
    return {x for x in out if x in KEYWORDS33 or x == ""}


def check(ctx, impl, label, safe, api, j, result, before, after) -> None:
    base = {"stage": "S-B", "case": label, "safe": safe}
    prop = ctx.prop
    if result[0] != "ok":
        if prop == "C01":
            ctx.oracle_failure("C01", f"generator raised {result[1]} at {result[2]}", {**base, "exc": result[1], "site": result[2]})
        return
    _, stubs, outside, files = result
    ix = Index(j)

    # ---------------- C16: the API model is unchanged
    if prop == "C16" and before != after:
        # what changed?  K16-alias-rename only renames declarations to the alias they are re-exported under
        import json as _json
        aliases = {q["alias"] for kv in j["reexport_map"] for m in kv["modules"] for q in m["qualified_imports"] if q["alias"]}
        diffs = []

        def walk(a, b, path):
            if type(a) is not type(b):
                diffs.append((path, a, b))
            elif isinstance(a, dict):
                for k in sorted(set(a) | set(b)):
                    walk(a.get(k), b.get(k), path + (k,))
            elif isinstance(a, list):
                if len(a) != len(b):
                    diffs.append((path, a, b))
                else:
                    for i, (x, y) in enumerate(zip(a, b)):
                        walk(x, y, path + (i,))
            elif a != b:
                diffs.append((path, a, b))
        walk(_json.loads(before), _json.loads(after), ())
        only_renames = bool(diffs) and all(p and p[-1] == "name" and isinstance(new, str) and new in aliases for p, _, new in diffs)
        ctx.oracle_failure("C16", "API.to_dict() differs before/after stub generation",
                           {**base, "aliased_reexport": only_renames,
                            "changed": [{"path": "/".join(map(str, p)), "before": a, "after": b} for p, a, b in diffs[:5]]})

    # ---------------- parse every file (C02) ----------------
    parsed = {}
    bad_kw = None
    for path, text in files.items():
        try:
            parsed[path] = stubparse.parse(text)
        except stubparse.StubSyntaxError as e:
            if prop == "C02":
                if bad_kw is None:
                    bad_kw = sorted(known_bad_keyword_positions(j))
                ctx.oracle_failure("C02", f"stub does not parse: {e.msg}", {**base, "path": path, "error": str(e),
                                                                           "unescaped_positions": bad_kw})
    if prop == "C02":
        return
    if prop in ("C20", "C06", "C07", "C05", "C17", "C03", "C04", "C13"):
        check_members(ctx, prop, base, safe, ix, j, stubs, parsed, files)
    if prop == "C10":
        check_layout(ctx, base, safe, j, stubs, outside, parsed, files)
    if prop == "C13":
        # every line of every description text of a PUBLIC, emitted element arrives intact: it is found, unbroken, inside one
        # line of some stub (only `\n` ends a line; the tool's own tests never contain other line-boundary characters)
        out_lines = [ln for t in files.values() for ln in t.split("\n")]
        blob = "\n".join(out_lines)

        def lines_of(node, public, acc):
            if isinstance(node, dict):
                pub = public and node.get("is_public", True)
                d = node.get("doc")
                if pub and isinstance(d, dict) and isinstance(d.get("description"), str):
                    acc.append((node.get("id", "?"), d["description"]))
                for k, v in node.items():
                    if k == "ctor" and isinstance(v, dict):
                        # the constructor's own description is not shown; its parameters are (in the class comment)
                        lines_of(v.get("params", []), pub, acc)
                    else:
                        lines_of(v, pub, acc)
            elif isinstance(node, list):
                for v in node:
                    lines_of(v, public, acc)
        acc: list = []
        lines_of(j.get("modules", []), True, acc)
        import re as _re
        odd = _re.compile("[\x0b\x0c\r\x1c\x1d\x1e\x85\u2028\u2029]")
        for owner, text in acc:
            for ln in [x.strip(" ") for x in text.strip("\n").split("\n")]:
                m = odd.search(ln)
                # judged: lines that contain a line-boundary character other than `\n` (those are what "intact" is about), of
                # elements that were emitted (the part of the line before that character is in the output)
                if not m or m.start() < 4 or ln[:m.start()] not in blob:
                    continue
                if not any(ln in o for o in out_lines):
                    ctx.oracle_failure("C13", f"a line of the description of {owner!r} does not arrive intact in one stub line: {ln[:60]!r}",
                                       {**base, "element": owner, "line": ln, "safe": safe})
                    break
    if prop in ("C11", "C10"):
        # the one part of C11 that is judged on synthetic API objects: every class of another library that the generator
        # registered (and therefore imports somewhere) is declared by a placeholder stub of its python module.  For C10 the
        # same observation is the visible consequence of "no path receives two different texts": a placeholder file that
        # lacks a registered class of its module has been written a second time.
        have = {(sf.pymodule, d.pyname) for sf, _ in parsed.values() for d in sf.decls}
        for cls in outside:
            mod, _, name = cls.rpartition(".")
            if mod and (mod, name) not in have:
                files_of_mod = sorted(pth for pth, (sf, _) in parsed.items() if sf.pymodule == mod)
                if prop == "C11":
                    ctx.oracle_failure("C11", f"class {cls!r} of another library is imported but no placeholder stub declares it",
                                       {**base, "class": cls, "safe": safe, "placeholder_files": files_of_mod})
                elif files_of_mod:
                    ctx.oracle_failure("C10", f"the placeholder stub {files_of_mod[0]!r} was written twice with different texts: "
                                              f"class {name!r} of module {mod!r} is gone from it",
                                       {**base, "class": cls, "safe": safe, "placeholder_files": files_of_mod})
    # C11 is otherwise not judged on synthetic API objects (they use type variables and class names the analyser would never
    # produce in those positions); S-B contributes the byte-exact correspondence of the import bookkeeping, the
    # property's predicate is evaluated by S-E on real packages (tie/oracles_e2e.check_refs)


# --------------------------------------------------------------------------- members of classes / modules

def expected_fun_todos(f, is_method: bool, shown_tvs) -> set:
    ks = set()
    if f["is_class_method"]:
        ks.add("class_method")
    ps = f["params"]
    ps = [p for p in ps if p["assigned_by"] != "IMPLICIT"]
    for p in ps:
        ks |= param_keys(p)
    for tv in shown_tvs:
        if tv["upper_bound"] is not None:
            ks |= type_keys(tv["upper_bound"])
    suppressed, shown = shown_results(f)
    if not suppressed:
        for _, t in [(r["name"], r["type"]) for r in f["results"] if r["type"] is not None]:
            ks |= type_keys(t)
        if not shown:
            ks.add("result without type")
    return ks


def actual_todos(decl) -> tuple[set, list]:
    keys, unknown = set(), []
    for line in decl.todos:
        k = MSG_KEY.get(line.strip())
        if k is None:
            unknown.append(line)
        else:
            keys.add(k)
    return keys, unknown


def fun_mentions_internal(f) -> bool:
    ts = [p["type"] for p in f["params"]] + [r["type"] for r in f["results"]] + [tv["upper_bound"] for tv in f["type_vars"]]
    return any(t is not None and mentions_internal(t) for t in ts)


def compare_function(ctx, prop, base, safe, f, decl, is_method, where, class_generics_unknown=False):
    rb = {**base, "function": f["id"], "where": where}
    # ---- C06 parameters
    if prop == "C06":
        exp = [p for p in f["params"] if p["assigned_by"] != "IMPLICIT"]
        got = decl.params or []
        if len(exp) != len(got):
            ctx.oracle_failure("C06", f"{len(got)} stub parameters for {len(exp)} Python parameters (receiver removed)",
                               {**rb, "expected": [p["name"] for p in exp], "got": [p.name for p in got]})
        else:
            for p, g in zip(exp, got):
                pyname = g.python_name if g.python_name is not None else g.name
                if pyname != p["name"]:
                    ctx.oracle_failure("C06", f"parameter {p['name']!r} appears as {pyname!r}", {**rb, "param": p["name"]})
                want_opt = p["is_optional"]
                if p["is_optional"] and p["type"] is None:
                    ctx.rep.bump("oracle", "skipped_untyped_optional_parameter")   # outside the API invariant
                elif (g.default is not None) != want_opt:
                    ctx.oracle_failure("C06", f"parameter {p['name']!r}: optional in stub = {g.default is not None}, in API = {want_opt}",
                                       {**rb, "param": p["name"], "typed": p["type"] is not None})
                elif want_opt and g.default != default_text(p):
                    ctx.oracle_failure("C06", f"parameter {p['name']!r}: default {g.default!r}, expected {default_text(p)!r}",
                                       {**rb, "param": p["name"]})
                if safe and g.python_name is None and conv(p["name"], True) != p["name"]:
                    ctx.oracle_failure("C06", f"parameter {p['name']!r} renamed without @PythonName", {**rb, "param": p["name"]})
    # ---- C05 types at parameter / result positions
    if prop == "C05":
        for p, g in zip([p for p in f["params"] if p["assigned_by"] != "IMPLICIT"], decl.params or []):
            t = shown_type(p)
            if t is None:
                continue
            want = type_text(t, safe)
            got = stubparse.render_type(g.type)
            try:
                want_c = canon_type_text(want) if want else ""
            except stubparse.StubSyntaxError:
                continue          # the expected text itself is not parseable (C02's business)
            if got != want_c:
                ctx.oracle_failure("C05", f"parameter {p['name']!r}: type {got!r}, expected {want_c!r}", {**rb, "type": t})
    # ---- C07 results
    if prop in ("C07", "C05"):
        suppressed, shown = shown_results(f)
        got = decl.results
        if prop == "C07":
            if len(got) != len(shown):
                ctx.oracle_failure("C07", f"{len(got)} results in stub, expected {len(shown)}"
                                   + (" (a None result suppresses the list)" if suppressed else ""),
                                   {**rb, "expected": [n for n, _ in shown], "got": [n for n, _ in got]})
            else:
                for (n, t), (gn, gt) in zip(shown, got):
                    if gn != conv(n, safe):
                        ctx.oracle_failure("C07", f"result {n!r} appears as {gn!r}", {**rb, "result": n})
        if prop == "C05" and len(got) == len(shown):
            for (n, t), (gn, gt) in zip(shown, got):
                want = type_text(t, safe)
                try:
                    want_c = canon_type_text(want)
                except stubparse.StubSyntaxError:
                    continue
                if stubparse.render_type(gt) != want_c:
                    ctx.oracle_failure("C05", f"result {n!r}: type {stubparse.render_type(gt)!r}, expected {want_c!r}", {**rb, "type": t})
    # ---- C20 markers
    if prop == "C20":
        got, unknown = actual_todos(decl)
        for u in unknown:
            ctx.oracle_failure("C20", f"unknown TODO line {u!r}", rb)
        tvs = f["type_vars"]
        exp_all = expected_fun_todos(f, is_method, tvs)
        exp_min = expected_fun_todos(f, is_method, []) if is_method else exp_all
        g = got - {"internal class as type"}
        if fun_mentions_internal(f):
            pass
        elif "internal class as type" in got:
            ctx.oracle_failure("C20", "marker 'internal class as type' on a function that mentions no underscore class", rb)
        if not (exp_min <= g <= exp_all):
            ctx.oracle_failure("C20", f"markers {sorted(g)} but features call for {sorted(exp_all)}",
                               {**rb, "missing": sorted(exp_min - g), "extra": sorted(g - exp_all)})


def stub_path(s) -> str:
    d = [x for x in s["dir"].split("/") if x not in ("", ".")]
    if s["pkg"]:
        d = d[:-1]
    return "/".join(d + [s["name"].lstrip("_") + ".sdsstub"])


def sources_of(j, s):
    """the API elements a stub file may legitimately contain, as {(kind, python name): element}.
    Returns None when the file cannot be attributed unambiguously (then it is not judged)."""
    out = {}
    if not s["pkg"]:
        mods = [m for m in j["modules"] if m["id"] == s["dir"] and m["name"] != "__init__"]
        if not mods:
            mods = [m for m in j["modules"] if m["name"] == s["name"]]
        if len(mods) != 1:
            return None
        m = mods[0]
        for f in m["functions"]:
            out[("fun", f["name"])] = f
        for c in m["classes"]:
            out[("class", c["name"])] = c
        for e in m["enums"]:
            out[("enum", e["name"])] = e
        return out
    parent = "/".join([x for x in s["dir"].split("/") if x not in ("", ".")][:-1])
    cands = []
    for m in j["modules"]:
        for kind, pool in (("fun", m["functions"]), ("class", m["classes"])):
            for x in pool:
                for rb in x["reexported_by"]:
                    if rb["id"] != parent:
                        continue
                    aliases = {q["alias"] for q in rb["qualified_imports"] if q["alias"] and q["qualified_name"].endswith(x["name"])}
                    if x["name"] == s["name"] or s["name"] in aliases:
                        cands.append((kind, x))
    if len(cands) != 1:
        return None
    kind, x = cands[0]
    return {(kind, s["name"]): x}


def check_members(ctx, prop, base, safe, ix, j, stubs, parsed, files):
    """walk the stubs: every top-level declaration and every class member is matched with the API
    element it stands for"""
    by_path = {}
    for s in stubs:
        by_path.setdefault(stub_path(s), []).append(s)
    for path, (sf, _) in parsed.items():
        ss = by_path.get(path)
        if not ss or len(ss) != 1:
            continue                      # placeholder stub, or two stubs on one path (C10's business)
        src = sources_of(j, ss[0])
        if src is None:
            ctx.rep.bump("oracle", "file_not_attributable")
            continue
        for d in sf.decls:
            el = src.get((d.kind, d.pyname))
            if el is None:
                continue
            ctx.rep.bump("oracle", "declarations_judged")
            if d.kind == "fun":
                compare_function(ctx, prop, base, safe, el, d, False, path)
            elif d.kind == "class":
                walk_class(ctx, prop, base, safe, ix, j, sf, d, el, path)


def walk_class(ctx, prop, base, safe, ix, j, sf, d, c, path):
    rb = {**base, "class": c["id"], "where": path}
    anc = private_ancestors(ix, c)
    diamond = has_private_diamond(ix, c)
    abstract = "abc.ABC" in c["superclasses"]
    # ---- constructor parameters (C06)
    if prop in ("C06", "C05") and c["ctor"] is not None and not abstract and d.params is not None:
        fake = type("D", (), {"params": d.params, "results": [], "todos": []})()
        f = dict(c["ctor"])
        f = {**f, "results": []}
        if prop == "C06":
            compare_function(ctx, "C06", base, safe, f, fake, True, path + ":constructor")
        else:
            compare_function(ctx, "C05", base, safe, f, fake, True, path + ":constructor")
    # ---- class-level markers (C20)
    if prop == "C20":
        got, unknown = actual_todos(d)
        exp = set()
        if c["ctor"] is not None and not abstract:
            for p in c["ctor"]["params"]:
                if p["assigned_by"] != "IMPLICIT":
                    exp |= param_keys(p)
        for tp in c["type_parameters"]:
            if tp["type"] is not None:
                exp |= type_keys(tp["type"])
        # `object` is the implicit base of every class, not a second superclass
        pub_supers = [s for s in c["superclasses"] if not s.split(".")[-1].startswith("_") and s != "builtins.object"]
        if len(pub_supers) > 1 and not abstract:
            exp.add("multiple_inheritance")
        g = got - {"internal class as type"}
        if g != exp:
            ctx.oracle_failure("C20", f"class markers {sorted(g)} but features call for {sorted(exp)}",
                               {**rb, "missing": sorted(exp - g), "extra": sorted(g - exp)})
    # ---- members
    own_methods = {f["name"]: f for f in c["methods"]}
    # attributes the generator shows: public ones whose type is no type variable; an `attr` member whose name is
    # also that of a property (shown as `attr` too) cannot be attributed to one of the two
    prop_names = {f["name"] for f in c["methods"] if f["is_property"]}
    own_attrs = {a["name"]: a for a in c["attributes"]
                 if a["is_public"] and not (a["type"] is not None and a["type"]["kind"] == "TypeVarType")
                 and a["name"] not in prop_names}
    inherited = {}
    if not abstract:
        for a in anc:
            for f in a["methods"]:
                if f["is_public"] or not f["name"].startswith("_"):
                    inherited.setdefault(f["name"], []).append(f)
    seen = {}
    counts = {}
    for mem in d.members:
        counts[mem.pyname] = counts.get(mem.pyname, 0) + 1
    for mem in d.members:
        nm = mem.pyname
        seen[nm] = seen.get(nm, 0) + 1
        if counts[nm] > 1 and mem.kind in ("fun", "attr") and prop not in ("C17", "C03", "C04"):
            continue            # emitted twice (private diamond, K17): which source it stands for is undecidable here
        if mem.kind == "class":
            # the class's own inner classes come first in the text, those inlined from private ancestors after
            # them in ancestor order: the k-th member of that name stands for the k-th candidate
            cands = [k for k in c["classes"] if k["name"] == nm and k["is_public"]]
            for a in anc:
                cands += [k for k in a["classes"] if k["name"] == nm]
            inner = cands[seen[nm] - 1] if seen[nm] - 1 < len(cands) and counts[nm] <= len(cands) else None
            if inner is not None:
                walk_class(ctx, prop, base, safe, ix, j, sf, mem, inner, path)
            continue
        if mem.kind == "fun":
            f = own_methods.get(nm)
            if f is None or not f["is_public"] or f["is_property"]:
                cands = inherited.get(nm, [])
                f = cands[0] if cands else f
            if f is None:
                if prop in ("C03", "C17"):
                    ctx.oracle_failure(prop, f"method {nm!r} in the stub of {c['id']} has no source", rb)
                continue
            compare_function(ctx, prop, base, safe, f, mem, True, path)
        if mem.kind == "attr":
            a = own_attrs.get(nm)
            if a is not None and prop == "C20":
                got, _ = actual_todos(mem)
                exp = set()
                if a["type"] is None or renders_empty(a["type"]):
                    exp.add("attr without type")
                if a["type"] is not None:
                    exp |= type_keys(a["type"])
                g = got - {"internal class as type"}
                if g != exp:
                    ctx.oracle_failure("C20", f"attribute {nm!r}: markers {sorted(g)}, features call for {sorted(exp)}",
                                       {**rb, "attribute": a["id"]})
            if a is not None and prop == "C05" and a["type"] is not None:
                want = type_text(a["type"], safe)
                try:
                    want_c = canon_type_text(want) if want else ""
                except stubparse.StubSyntaxError:
                    want_c = None
                if want_c is not None and stubparse.render_type(mem.type) != want_c:
                    ctx.oracle_failure("C05", f"attribute {nm!r}: type {stubparse.render_type(mem.type)!r}, expected {want_c!r}",
                                       {**rb, "type": a["type"]})
    # ---- C17 / C03 / C04: which members, how often
    if prop in ("C17", "C03", "C04"):
        exp_names = set()
        for f in c["methods"]:
            if f["is_public"]:
                exp_names.add(f["name"])
        for a in c["attributes"]:
            if a["is_public"] and not (a["type"] is not None and a["type"]["kind"] == "TypeVarType"):
                exp_names.add(a["name"])
        inh_names = {n for n, fs in inherited.items() if any(not f["name"].startswith("_") for f in fs)}
        for k in c["classes"]:
            if k["is_public"]:
                exp_names.add(k["name"])
        if not abstract:
            for a in anc:
                for k in a["classes"]:
                    if not k["name"].startswith("_"):
                        inh_names.add(k["name"])
        member_kinds = {}
        for mem in d.members:
            member_kinds.setdefault(mem.pyname, set()).add(mem.kind)
        for n, cnt in seen.items():
            if cnt > 1:
                if member_kinds.get(n) == {"class"}:
                    continue        # an inner class of a private ancestor next to an own inner class of that name:
                                    # two different declarations (C17 speaks of methods; C03 of declarations)
                p = "C17" if n in inh_names else "C03"
                # the member is defined under two DIFFERENT direct private bases (K17-two-private-bases-same-member)
                two_bases = 0
                for sup in c["superclasses"]:
                    if sup.split(".")[-1].startswith("_"):
                        sc0 = ix.find_class(sup)
                        if sc0 is not None:
                            br = [sc0] + private_ancestors(ix, sc0, [])
                            if any(x["name"] == n for a0 in br for x in a0["methods"] + a0["attributes"]):
                                two_bases += 1
                if prop == p:
                    ctx.oracle_failure(p, f"member {n!r} emitted {cnt} times in class {c['id']}",
                                       {**rb, "member": n, "private_diamond": diamond, "inherited": n in inh_names,
                                        "two_private_bases": two_bases >= 2})
        if prop == "C03":
            for n in exp_names - set(seen):
                ctx.oracle_failure("C03", f"public member {n!r} of {c['id']} is missing from its stub", {**rb, "member": n})
        if prop == "C17":
            for n in inh_names - set(seen) - {x for x in own_attrs}:
                ctx.oracle_failure("C17", f"inherited public member {n!r} of a private ancestor is missing in {c['id']}",
                                   {**rb, "member": n, "private_diamond": diamond})
            for s in d.supers:
                sn = stubparse.render_type(s)
                if sn.split(".")[-1].lstrip("`").startswith("_"):
                    ctx.oracle_failure("C17", f"private class {sn!r} named in the sub clause of {c['id']}", rb)
        if prop == "C04":
            allowed = exp_names | inh_names
            for n in set(seen) - allowed:
                ctx.oracle_failure("C04", f"non-public member {n!r} appears in the stub of {c['id']}", {**rb, "member": n})


# --------------------------------------------------------------------------- C10 layout

def check_layout(ctx, base, safe, j, stubs, outside, parsed, files):
    for path, (sf, _) in parsed.items():
        parts = path.split("/")
        dir_parts, fname = parts[:-1], parts[-1]
        if ".." in parts or path.startswith("/"):
            ctx.oracle_failure("C10", f"stub path {path!r} leaves the output directory", {**base, "path": path})
        pm = sf.pymodule.split(".")
        # directory = announced python module path, except that a module stub sits in a directory named
        # after the module: <pkg path>/<module>/<module>.sdsstub announces <pkg path>.<module>
        if dir_parts != pm:
            ctx.oracle_failure("C10", f"stub at {path!r} announces python module {sf.pymodule!r}",
                               {**base, "path": path, "announced": sf.pymodule})
        if not fname.endswith(".sdsstub") or fname.startswith("_"):
            ctx.oracle_failure("C10", f"stub file name {fname!r}", {**base, "path": path})
    # the base name is the module / re-exported declaration name without LEADING underscores
    for st in stubs:
        want = stub_path(st)
        if want not in files:
            ctx.oracle_failure("C10", f"stub for {st['name']!r} is not at {want!r}", {**base, "name": st["name"], "expected_path": want,
                                                                                  "written": sorted(files)[:8]})
    # two different texts for one path
    seen = {}
    for s in stubs:
        d = [x for x in s["dir"].split("/") if x not in ("", ".")]
        if s["pkg"]:
            d = d[:-1]
        p = "/".join(d + [s["name"].lstrip("_") + ".sdsstub"])
        if p in seen and seen[p] != s["text"]:
            aliased = any(q["alias"] for kv in j["reexport_map"] for m in kv["modules"] for q in m["qualified_imports"])
            # cause analysis: several declarations of that name which the package of this path re-exports
            pkg_id = "/".join(d)
            same = sorted({x["id"] for m in j["modules"] for x in m["classes"] + m["functions"]
                           if x["name"] == s["name"] and any(r["id"] == pkg_id for r in x["reexported_by"])})
            # a module stub placed in this directory although no import of the package names that module exactly:
            # the re-export lookup matches module names by suffix ('from .static import const' moves module deep/const)
            pkg_mod = next((m for m in j["modules"] if m["id"] == pkg_id), None)
            here = [s2 for s2 in stubs if not s2["pkg"] and s2["name"] == s["name"]
                    and "/".join(x for x in s2["dir"].split("/") if x not in ("", ".")) == pkg_id]
            moved_modules = [m["id"] for m in j["modules"] if here and m["name"] == s["name"]
                             and m["id"] != pkg_id + "/" + m["name"]]
            def exact(mid):
                md = mid.replace("/", ".")
                if pkg_mod is None:
                    return False
                for q in pkg_mod["qualified_imports"]:
                    qn = q["qualified_name"]
                    if qn == md or (qn.startswith(".") and pkg_id.replace("/", ".") + qn == md):
                        return True
                return False
            suffix_moved = [m for m in moved_modules if not exact(m)]
            # the package re-exports a MODULE named X (its stub is moved up into the package directory) and also a
            # declaration named X of another module: module stub and re-export stub share <package>/X.sdsstub
            reexport_here = [s2 for s2 in stubs if s2["pkg"] and s2["name"] == s["name"]
                             and "/".join([x for x in s2["dir"].split("/") if x not in ("", ".")][:-1]) == pkg_id]
            module_and_declaration = bool(here) and bool(reexport_here) and not suffix_moved and len(same) <= 1
            ctx.oracle_failure("C10", f"two different stub texts written to {p!r}",
                               {**base, "path": p, "names": [s["name"]], "aliased_reexport": aliased,
                                "same_name_reexports": len(same) > 1, "declarations": same,
                                "module_moved_by_name_suffix": bool(suffix_moved) and len(same) <= 1,
                                "module_and_declaration_same_name": module_and_declaration,
                                "moved_modules": suffix_moved})
        seen[p] = s["text"]
    for cls in outside:
        parts = cls.split(".")
        if len(parts) >= 2:
            p = "/".join(parts[:-1] + [parts[-2] + ".sdsstub"])
            if p in seen:
                ctx.oracle_failure("C10", f"placeholder for {cls!r} overwrites the module stub {p!r}", {**base, "path": p, "class": cls})


# --------------------------------------------------------------------------- C11 references

def check_refs(ctx, base, safe, j, parsed):
    declared = {}       # package -> set of declared names
    for path, (sf, _) in parsed.items():
        s = declared.setdefault(sf.package, set())
        for d in sf.decls:
            s.add(d.name)
    builtin = {"Int", "String", "Boolean", "Float", "Nothing", "Any", "List", "Map", "Set", "Tuple"}
    for path, (sf, _) in parsed.items():
        local = set()
        tvars = set()

        def collect(d):
            local.add(d.name)
            for tp in d.type_params:
                tvars.add(tp[1])
            for mm in d.members:
                collect(mm)
        for d in sf.decls:
            collect(d)
        imported = {n for _, n in sf.imports}
        refs = set()

        def walk(d):
            for p in d.params or []:
                stubparse.named_refs(p.type, refs)
            for _, t in d.results:
                stubparse.named_refs(t, refs)
            stubparse.named_refs(d.type, refs)
            for s in d.supers:
                stubparse.named_refs(s, refs)
            for tp in d.type_params:
                stubparse.named_refs(tp[2], refs)
            for mm in d.members:
                walk(mm)
        for d in sf.decls:
            walk(d)
        for r in sorted(refs):
            if r in builtin or r in local or r in imported or r in tvars:
                continue
            ctx.oracle_failure("C11", f"{path}: class {r!r} is used but neither declared nor imported there",
                               {**base, "path": path, "name": r, "safe": safe})
        for frm, nm in sf.imports:
            if nm not in declared.get(frm, set()):
                ctx.oracle_failure("C11", f"{path}: 'from {frm} import {nm}' does not resolve to a generated declaration",
                                   {**base, "path": path, "import": f"{frm}.{nm}", "safe": safe})


# --------------------------------------------------------------------------- C09: the two naming settings

def skeleton(d) -> tuple:
    """a declaration with every rendered name replaced by the recoverable Python name"""
    return (d.kind, d.pyname, d.static, tuple(sorted(d.todos)),
            tuple((p.python_name if p.python_name is not None else p.name, p.default, stubparse.render_type(p.type) if False else None)
                  for p in (d.params or [])) if d.params is not None else None,
            len(d.results), len(d.supers),
            tuple(skeleton(m) for m in d.members))


def check_flag_pair(ctx, label, res_off, res_on) -> None:
    """C09: the Python names recoverable from the stubs are identical under both settings and nothing
    else changes; with the flag off no annotation is emitted at all"""
    if ctx.prop != "C09" or res_off[0] != "ok" or res_on[0] != "ok":
        return
    base = {"stage": "S-B", "case": label}
    files_off, files_on = res_off[3], res_on[3]

    def parse_all(files):
        out = {}
        for path, text in files.items():
            try:
                sf, _ = stubparse.parse(text, lenient=True)
            except stubparse.StubSyntaxError:
                continue
            out.setdefault(sf.pymodule, []).append((path, sf))
        return out
    off, on = parse_all(files_off), parse_all(files_on)
    for path, text in files_off.items():
        if "@PythonName(" in text or "@PythonModule(" in text:
            ctx.oracle_failure("C09", f"annotation emitted although naming conversion is off: {path}", {**base, "path": path})
    if sorted(off) != sorted(on):
        ctx.oracle_failure("C09", f"python modules recoverable from the stubs differ between the settings: "
                                  f"{sorted(set(off) ^ set(on))[:4]}", base)
        return
    import stage_names
    for mod, lst in on.items():
        segs = mod.split(".")
        if not all(stage_names.convertible(seg) or seg == "_" for seg in segs):
            continue
        want = ".".join(stage_names.spec_camel(seg, False) for seg in segs)
        for path, sf in lst:
            if sf.package != want:
                ctx.oracle_failure("C09", f"{path}: the package of python module {mod!r} is rendered {sf.package!r}; its segments "
                                          f"in lowerCamelCase are {want!r}", {**base, "path": path, "module": mod})
            if (sf.python_module is not None) != (want != mod):
                ctx.oracle_failure("C09", f"{path}: Python-module annotation {'present' if sf.python_module is not None else 'absent'} "
                                          f"although the rendered package path {'equals' if want == mod else 'differs from'} {mod!r}",
                                   {**base, "path": path, "module": mod})
    for mod in off:
        sk_off = sorted(repr([skeleton(d) for d in sf.decls]) for _, sf in off[mod])
        sk_on = sorted(repr([skeleton(d) for d in sf.decls]) for _, sf in on[mod])
        if sk_off != sk_on:
            ctx.oracle_failure("C09", f"declarations recoverable from the stubs of python module {mod!r} differ between the two "
                                      f"naming settings", {**base, "module": mod, "off": sk_off[:1], "on": sk_on[:1]})
