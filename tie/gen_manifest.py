#!/usr/bin/env python3
"""Writes /verif/MANIFEST.json from the property registry (tie/props.py) and the texts below."""
from __future__ import annotations

import json
import os
import sys
from pathlib import Path

sys.path.insert(0, os.path.dirname(os.path.abspath(__file__)))
import props  # noqa: E402

VERIF = Path(__file__).resolve().parent.parent
ALL = [f"C{i:02d}" for i in range(1, 21)]

TRUST = ("Trusted: Lean 4.33 kernel; axioms propext/Quot.sound/Classical.choice only (audited by #print axioms each run); "
         "the compiled driver; tie/ (translators T1/T2, harness, generators). The theorems are about the Lean model; "
         "the model is tied to /repo's working tree by regenerated tables (proof obligations in lake build) and by "
         "differential execution of model and implementation on generated inputs (sampling, exhaustive where stated). "
         "mypy, griffe, file system, json, CPython hashing are modelled, not verified.")

TEXT = {
    "C19": dict(
        technique="Lean 4 proof (mutual structural induction over the type algebra) + differential correspondence S-T",
        text="Proof: Theorems/C19 proves, for every type term of the 14-constructor algebra and with no size bound, "
             "from_dict(to_dict t) = t (hence equal, and to_dict stable), reflexivity, symmetry and transitivity of ==, "
             "== implies equal hash key, and permutation-invariance of == and hash for the seven order-insensitive "
             "constructors. The model (Model/Types.lean) is tied to _types.py by S-T: every enumerated/random term and "
             "pair is run through both, incl. malformed from_dict inputs; the C19 predicate itself is also evaluated on "
             "the implementation's results, so a defect is reported with the failing term as replay.",
        note=TRUST + " Float literals/bounds and NaN are outside the term language; hash(x) is assumed to be a function "
             "of the structural hash key (accidental 64-bit collisions ignored)."),
    "C09": dict(
        technique="Lean 4 proof (list induction over the name-conversion function) + exhaustive differential correspondence S-N",
        text="Proof: Theorems/C09 proves for all strings: flag off is the identity; flag on yields no underscore, keeps "
             "exactly the non-underscore characters in order up to ASCII case, is idempotent, and maps every convertible "
             "name to a legal identifier; the annotation rule (present iff the rendered name differs, carrying the "
             "original) makes the Python name recoverable and flag-independent. Tie: S-N compares model and "
             "implementation on every string over [A-Za-z0-9_] up to length 3 (exhaustive), a reduced alphabet to length "
             "8/10, all keywords and decorated variants; the generator-level part (annotation at each emission site, "
             "nothing else changes) is checked through the generator correspondence.",
        note=TRUST + " str.upper() is modelled for ASCII only; identifiers are assumed ASCII."),
}

TEXT["C13"] = dict(
    technique="Lean 4 proof (invariant over every query sequence of the one-entry docstring cache; equations for the comment assembly) + differential correspondence S-D/S-B/S-E",
    text="Proof: Theorems/C13 proves for EVERY sequence of the five documentation queries that the cached parser answers "
         "exactly like the cache-less lookup (invariant Cache.Valid, induction over the query list; an answer is independent "
         "of all earlier queries), and gives exact line-for-line equations for the documentation comment (description "
         "lines, one @param block per documented parameter, @result numbering, example code lines) as a function of the "
         "element's own docstring fields only. Tie: S-D runs random query sequences (with repetitions/revisits) against "
         "the real DocstringParser on real griffe trees and compares every record; S-B compares generated comments byte "
         "for byte; S-E checks on generated packages (4 styles, unique marker texts) that each description reaches the "
         "comment of its own element and no other.",
    note=TRUST + " griffe's three docstring grammars are outside the model (the tree carries what griffe parsed; the "
         "extractor applies griffe's parse_annotation to string annotations). Style independence is therefore not a "
         "theorem; it is exercised by S-E only.")
TEXT["C15"] = dict(
    technique="Lean 4 proof (list induction over the discovery filter) + differential correspondence S-D (real discovery loop on generated directory trees)",
    text="Proof: Theorems/C15 proves for all file lists: with the flag off the kept files are exactly those with no path "
         "component equal to test/tests/docs (whole components: look-alikes are kept), with it on all files are kept; the "
         "flag-off result is the flag-on result minus the skipped files; if no file lies in such a directory the flag is "
         "irrelevant; every AST handed to the walker belongs to a kept file; the documented 'No files found' error arises "
         "iff nothing is kept. The three directory names and the glob pattern are regenerated from the source (T1). Tie: "
         "S-D runs the real discovery loop of get_api and _get_mypy_asts (mypy stubbed) on random directory trees.",
    note=TRUST + " Path components are those of the resolved absolute path, so a source tree that itself lies under a "
         "directory called tests is excluded entirely (stated; it is what upstream test data does). The end-to-end part "
         "(stubs unaffected outside such directories) rests on the correspondence only.")


GEN_TIE = (" Tie: S-B runs the model and the real StubsStringGenerator/generate_stub_data/create_stub_files on synthetic API "
           "objects and on the analysed repo test packages under both naming settings and compares every produced file byte for "
           "byte; S-E runs the whole tool (mypy + griffe) on generated packages and evaluates the property's predicate — written "
           "from the property statement against the package specification — on the parsed stubs.")
ANA = (" Analyser side (mypy nodes -> API model, Model/Analyze.lean, tied by S-A): Theorems/C05a proves that the mypy-type "
       "dispatch computes the pure specification Spec.MypyMap.mapType at every position (toAbstractNoUn_spec, position_independent, "
       "error_enumeration, mapType_unknown_iff; incorrect_any_is_silently_Any is the kernel-checked counterexample to 'never a "
       "silently different type'); Theorems/C06a the parameter tables (argumentKind_table, defaultOf_spec, parseParameter_fields, "
       "parseParameters_order); Theorems/C07a completeness of the return search and coverage/soundness/order of the inferred types "
       "(findReturns_complete, inferFromReturns_covers, inferFromReturns_members, createInferredResults_positions).")
TEXT["C02"] = dict(
    technique="Lean 4 proof (lexical validity of every emitted token class) + exhaustive name correspondence S-N + S-B/S-E with an independent stub recogniser",
    text="Proof: Theorems/C02 proves for all inputs: escapeKeyword yields a legal identifier token and back-quotes exactly "
         "the 33 Safe-DS keywords (table regenerated from the source, T1); every convertible Python name is rendered as an "
         "identifier token under both settings at every emission site that goes through convert+escape (class, attribute, "
         "function, property, parameter, result, enum member, type parameter); package paths and import lines are qualified "
         "tokens; EVERY Python string value (string defaults, Literal values) is written as one closed STRING token - "
         "string_literal_closed / string_default_value_closed without any hypothesis on the value, after repair d913d69 of a "
         "genuine defect (values were not escaped); @PythonName/@PythonModule bodies are single closed STRING tokens when the "
         "name has no quote/backslash/newline; documentation comments are single closed comment tokens when the text has no '*/'; with "
         "kernel-checked counterexamples for each hypothesis (the corresponding known findings)." + GEN_TIE +
         " 'Parses' is decided on the implementation's files by tie/stubparse.py, a recogniser written from the Safe-DS grammar.",
    note=TRUST + " The structural half is Theorems/C02a: a small scanner (Spec/Balance.lean: code/string/comment/back-quote modes, a "
         "stack of open brackets, '->' recognised) and the theorems that every emitted type, parameter list, function, attribute, "
         "enum, documentation comment, TODO block and class (any nesting, inlined private bases) is balanced under the lexical "
         "hypotheses; the module level is _partial (it assumes the final import paths are bracket-free; the package line is derived from the ids "
         "of the module and its re-exporters, module_closed_partial'). That the scanner's notion "
         "of balance agrees with the Safe-DS grammar rests on the recogniser tie/stubparse.py accepting every file of every "
         "S-B/S-E case; the Safe-DS reference parser is not installed.")
TEXT["C05"] = dict(
    technique="Lean 4 proof (mutual structural induction: rendered type = compositional specification, totality, union normalisation laws) + S-B/S-E",
    text="Proof: Theorems/C05 proves that for EVERY API type, generator state, module and position the rendered text equals "
         "Spec.typeText — a pure compositional function of the type and the naming flag written from the documented mapping "
         "— that rendering never raises on renderable types, and the union laws (duplicates removed, Nothing? last, T? "
         "shorthand iff exactly {T, Nothing?} with a nullable kind, order-insensitivity), plus the mapping equations per "
         "constructor." + GEN_TIE + ANA,
    note=TRUST + " Known findings (position-dependent behaviour of the analyser): K05-callable-attribute, K05-property-tuple, "
         "K05-list-attribute-unanalysed.")
TEXT["C06"] = dict(
    technique="Lean 4 proof (list induction over the parameter renderer against a specification) + S-B/S-E",
    text="Proof: Theorems/C06 proves for all parameter lists: under the receiver invariant the stub list is the Python list "
         "with the implicit receiver removed — same length, order, names (recoverable through the annotation), the default "
         "is shown iff the parameter is optional and equals the Safe-DS literal of the Python default, variadic special cases "
         "— with counterexamples for the two API invariants used (receiver first; optional implies typed)." + GEN_TIE +
         " S-E also checks assigned_by / default_value / is_optional in the API JSON." + ANA,
    note=TRUST)
TEXT["C07"] = dict(
    technique="Lean 4 proof (inductive relation for the rendered result list) + S-B/S-E",
    text="Proof: Theorems/C07 proves for all result lists: a lone None result gives no results and no marker; otherwise exactly "
         "the typed, non-empty-rendering results appear in order as name: type, with the one/many/none shapes and the "
         "'result without type' marker iff none is shown; a None result among several is shown as Nothing?." + GEN_TIE +
         " S-E checks annotated results against the annotation and inferred results (return statements nested in "
         "if/try/loops/with/match/conditional expressions) for coverage of every literal." + ANA,
    note=TRUST)
TEXT["C10"] = dict(
    technique="Lean 4 proof (paths and headers of every write operation) + S-B/S-E",
    text="Proof: Theorems/C10 proves for every stub the generator model writes (module stubs, re-export stubs, placeholders): "
         "the directory segments are the dot-segments of the Python module path announced in the header, the header "
         "determines that path (annotation, else the un-escaped package line), the base name is the module/declaration name "
         "without leading underscores, no segment is empty/'.'/'..' for well-formed ids; and characterises exactly when two "
         "writes hit one path (proved absent under three stated exclusions, each with a kernel-checked counterexample)." + GEN_TIE,
    note=TRUST + " no_two_texts_one_path is partial by necessity: the excluded situations (x/_x, placeholder vs module stub, "
         "a..b vs a.b) are real and listed as findings.")
TEXT["C16"] = dict(
    technique="Lean 4 proof (write-log algebra: first operation on every path is a write; re-run idempotence) + S-B before/after oracle",
    text="Proof: Theorems/C16 proves for all API values: the write log does not depend on pre-existing files (coherent "
         "placeholder paths), the first operation on every path is a write, hence folding the log over ANY initial file map "
         "gives the single-run contents on touched paths and leaves others alone; running twice equals running once "
         "(rerun_idempotent_eq). The model has no hidden state (generation is a function of the API value). That the "
         "IMPLEMENTATION does not mutate its API object is not a theorem: it is the S-B oracle (API.to_dict() before/after "
         "every generation) plus byte-exact correspondence of repeated generations.",
    note=TRUST + " Known finding K16-alias-rename (re-export under an alias renames the node in the API object).")
TEXT["C20"] = dict(
    technique="Lean 4 proof (state-monad invariants: pending markers flushed at every declaration; marker set = feature set) + S-B/S-E",
    text="Proof: Theorems/C20 proves for all declarations and generator states: rendering a type/parameter adds exactly the "
         "markers of Spec.typeKeys/paramKeys; createTodoMsg empties the pending set and prints the sorted messages; after "
         "every function/property/attribute/class/module the pending set is empty (markers never move to a neighbour); "
         "and for a function/attribute/class the emitted marker block is exactly the feature set of that declaration "
         "(function_markers_model; _partial w.r.t. the independent Spec only for type variables whose converted name is "
         "empty)." + GEN_TIE,
    note=TRUST + " 'internal class as type' is state-dependent (imports seen so far) and characterised separately.")

ANA_TIE = (" Tie for the analyser model (Model/Src.lean, Model/Analyze.lean): S-A runs real mypy.build and griffe.load on generated "
           "packages, dumps the nodes the tool reads (tie/extract.py, reflective) and compares the whole API object and the "
           "warning records of the model with those of ASTWalker+MyPyAstVisitor on the very same nodes; sets reach the model in a "
           "shuffled order.")
TEXT["C01"] = dict(
    technique="Lean 4 proof (totality of the generator model on a decidable scope; exact error set outside it; Hoare-style stack invariant through every function of the visitor: no internal guard can fire, whole run never ends in AssertionError) + S-B/S-A/S-E outcome correspondence",
    text="Proof: Theorems/C01 proves generator_total: for EVERY API value satisfying the decidable predicate Scope01 (every reached "
         "type renderable and importable, every reached private superclass resolvable, nesting within the fuel) the generator "
         "model runs to completion for both naming settings and any pre-existing files; never_keyError / errors_only_from_scope: "
         "outside the scope the only possible errors are ValueError, IndexError, LookupError (and fuel exhaustion), each exhibited "
         "by a kernel-checked boundary example; placeholder_stubs_never_raise: the split of dotted foreign names cannot fail. "
         "Termination of model functions is checked by Lean (structural / fuel recursion)." + GEN_TIE + ANA_TIE +
         " Outcome (completed / 'No files found' / exception type and site) is compared model vs implementation in S-B and S-A, "
         "and S-E runs the whole tool under the 4x2x2x2x2 option product on generated packages: any exception other than the "
         "documented rejection is a violation.",
    note=TRUST + " Totality of the ANALYSER is not a theorem (its model has error branches for every raise site; which are "
         "reachable from mypy output is checked by S-A/S-E only). Non-termination of the Python code cannot be exhibited by the "
         "model: a hanging run hits the stage deadline and is reported as exit 2.")
TEXT["C03"] = dict(
    technique="Lean 4 proof (exact characterisation of the ghost emission log of every generator function, induction on fuel for classes) + S-B/S-A/S-E",
    text="Proof: Theorems/C03 proves on the emission log of the generator model, for all API values and states: every generator "
         "function only appends; a module logs exactly one fun/moved entry per public function and one class/moved block per "
         "public non-exception class, in order, then every enum; a moved declaration is queued exactly once under the shortest "
         "re-exporting module and emitted exactly once by the re-export phase (moved, not copied; (name,id)-sorted, canonical "
         "order); attributes/methods/inner classes of a class are logged exactly once according to their publicity; "
         "whole_run_log gives the log of a complete run in closed form. Analyser side: Theorems/C12 (every visited definition is "
         "recorded)." + GEN_TIE + ANA_TIE,
    note=TRUST + " The log is ghost state of the MODEL; that the text blocks of the implementation correspond to it rests on "
         "byte-exact S-B correspondence. Known: an enum nested in a class is dropped by the analyser (documented in DESIGN).")
TEXT["C04"] = dict(
    technique="Lean 4 proof (emission-log filters: nothing non-public is logged) + S-B/S-A/S-E",
    text="Proof: Theorems/C04 proves for all API values: a function/class/attribute/method/inner class whose is_public flag is "
         "false contributes no entry to the emission log (module_top_level, private_*_not_logged), inside an inlined private "
         "base the filter is by name (inlined_methods_rule); private_enum_is_logged is the kernel-checked witness of the known "
         "finding K04-private-enum. Theorems/C04a proves the publicity decision of the analyser model as a decision table "
         "(isPublicV_eq, isPublic_no_reexport, isPublic_false_of_private, isPublic_true_of_public, isPublicV_ok_iff), "
         "characterises the re-export check exactly (reexport_decides_iff, reexport_never_false, no_interference) and shows where the "
         "verdict is stored (enterFuncdef_flag, enterClassdef_flag, createAttributeV_flag); suffix_interference* are kernel-checked "
         "witnesses that a re-export can publish an unrelated private declaration (suffix matching)." + GEN_TIE + ANA_TIE + " S-E compares the is_public flags of the API JSON and the names in all stub files "
         "with the underscore/nesting/re-export ground truth of the generated package.",
    note=TRUST + " Known: K04-private-enum; publicity through suffix-matched re-exports (Theorems/C04a F04a-1/2) is outside the "
         "S-E oracle's judged zone (declarations touched by a re-export, by the tool's own suffix rule, are not judged).")
TEXT["C08"] = dict(
    technique="Lean 4 proof (permutation invariance of every place where the model consumes a Python set or an enumeration order) + S-R subprocess determinism runs + S-A/S-B with shuffled sets",
    text="Proof: Theorems/C08 proves, for all inputs: sorting with the model's comparators is invariant under permutation "
         "(sortBy_perm_invariant, sortStrings_perm, tuple keys); shortestPublicReexport depends only on the SET of (key, module) "
         "pairs; TODO block, import block, union text, placeholder order, reexported_by lists, the re-export map built by the "
         "packages phase (commutative, idempotent adds) and all its consumers, the discovery/selection of files, the alias "
         "choice (findAlias_perm, after the repair) and the order of re-exported elements are invariant under permutation of "
         "the underlying sets/enumerations; inferred return types come in source order. Tie: S-R runs safeds_stubgen.main.main() "
         "in fresh interpreters that differ in PYTHONHASHSEED, shuffled os.listdir/os.scandir, cwd and path spellings and compares "
         "sha256 of every output file; S-A and S-B hand the model shuffled alias / re-export sets and still demand equality with "
         "the implementation." + ANA_TIE,
    note=TRUST + " mypy's build graph order, json.dumps and CPython's dict ordering are modelled as given (insertion order). "
         "The theorems cover the order-sensitive steps the model makes explicit; a set iteration that the model does not contain "
         "can only be caught by S-R.")
TEXT["C12"] = dict(
    technique="Lean 4 proof (invariants over the analyser walk as an abstract step sequence; mutual induction over Def/List Def) + S-A + S-E inventory oracle",
    text="Proof: Theorems/C12 proves for EVERY successful run of the analyser model: the ids in each of the eight tables are "
         "pairwise distinct, hence the JSON lists (sorted by id) are strictly increasing (tables_nodup, json_lists_sorted_nodup); "
         "every id has the form <owner>/<name>, with the owner a recorded function for parameters/results and a recorded class "
         "for attributes (ids_have_owner_form); every id referenced from a module, class, enum or function has an entry "
         "(references_resolve); every function the walker visits is recorded with the static/class-method/property flags and "
         "parameter names of its LAST definition (flags_copied*, function_ids_recorded); listed parts carry their owner's id. "
         "The 'exactly one owner' clause is proved under id-uniqueness of the source definitions (…_partial) with kernel-checked "
         "counterexamples (a module a.b and a class b in package a share ids; enum nested in a class)." + ANA_TIE +
         " S-E loads <pkg>__api.json and checks schema version, sortedness, duplicates, id form, referential integrity, single "
         "ownership and completeness/flags/defaults/superclasses against the package specification.",
    note=TRUST + " json.dumps and the to_dict serialisers are outside the model (checked by S-E on the written file).")
TEXT["C14"] = dict(
    technique="Lean 4 proof (decision table of the reconciliation; two-run simulation for the warning option over the whole analyser) + S-A + S-E option-product oracle",
    text="Proof: Theorems/C14 proves for all inputs: the chosen parameter type is exactly the decision table of the property "
         "(param_choice: hint under CODE, docstring type under DOCSTRING, the only one otherwise; the docstring default "
         "replacing the code default is stated, not hidden); a record is logged iff both types exist, differ by == and warnings "
         "are enabled (param_warn_iff, result_warn_iff); results position by position incl. completion from the docstring with "
         "fresh 1-based names (result_choice, appended_names_fresh); and warning_pure: for ANY package the API produced by the "
         "analyser model is identical under WARN and IGNORE, errors included (relational proof through every analyser function)." +
         ANA_TIE + " S-E runs generated packages with typed docstrings (3 structured styles) under the 2x2 option product: types "
         "in the stubs per the table, warnings present/absent, files byte-identical between warning settings.",
    note=TRUST + " Which docstring entries carry a type is decided by griffe (outside the model): known finding "
         "K14-signature-fallback (griffe substitutes the signature's hint for an untyped entry; the tool takes it for a docstring "
         "type). CLI option parsing is exercised by S-R/S-E only.")
TEXT["C17"] = dict(
    technique="Lean 4 proof (emission log of the superclass loop and of recursive inlining; chain theorem; kernel-checked diamond counterexamples) + S-B/S-E",
    text="Proof: Theorems/C17 proves for all API values: the sub clause names exactly the non-private superclasses in "
         "declaration order (private_supers_not_named) and exactly the private ones are inlined (supers_log); the set passed to "
         "the inlining contains every emitted own member, so own definitions win (own_definition_wins, inherited_shadowed_by_own); "
         "for a private ancestry that is a CHAIN every visible method of the ancestors is logged exactly once, nearer ancestors "
         "shadowing farther ones (inherited_once_chain); for diamonds the claim is false of model and implementation "
         "(diamond_logged_twice, inherited_once_false_for_diamond — known finding K17-private-diamond)." + GEN_TIE,
    note=TRUST + " Superclass name resolution (aliases) is analyser-side: Theorems/C08 findAlias_known + S-A.")

TEXT["C11"] = dict(
    technique="Lean 4 proof (complete characterisation of the import bookkeeping; every named leaf of every rendered type is registered or exempt; import block = final set of the file) + S-B byte-exact correspondence + S-E reference-closure oracle",
    text="Proof: Theorems/C11 proves for all inputs: addToImports_spec / addToImports_closed_form give the exact effect of the "
         "import bookkeeping (exempt names; the same-module test as the substring test it is; in-package class found -> import "
         "of its shortest public path; no class found -> placeholder queued and import of the name itself); "
         "type_leaves_registered: after rendering ANY type, every named leaf is a built-in mapping or satisfies the registration "
         "disjunction; imports and placeholders only grow within a file and are reset exactly at the start of a file "
         "(imports_only_grow, module_file_start); the printed import block is the sorted set of import lines of the FINAL import "
         "set of that file (file_imports_complete, reexport_file_imports_complete, import_line_form); every public superclass is "
         "registered (superclass_registered); every queued foreign class gets a placeholder write whose package text equals the "
         "import's (foreign_placeholder_exists; name agreement only when both conversions agree: _partial with counterexample). "
         "The property as stated is FALSE of model and implementation: seven kernel-checked counterexamples delimit it (known "
         "findings K11-*)." + GEN_TIE + " For C11 the S-B oracle is the byte-exact correspondence only; S-E resolves every class "
         "name and import of every stub against all generated stubs.",
    note=TRUST + " The S-E oracle attributes each failure to the defect classes K11-private-class-reference, K11-private-path, "
         "K11-reexport-moves(-stub, -module-stub), K11-aliased-reexport, K11-returned-variable-name by facts of the failing "
         "reference; a failure outside these classes is a violation.")
TEXT["C18"] = dict(
    technique="Lean 4 proof (two-run simulation of the generator: dependence on the API only through four lookups; block independence and permutation of declarations) + S-M metamorphic runs of the whole tool",
    text="Proof: Theorems/C18 proves for all inputs: callGenerator reads the API only through the re-export map, the import lookup, "
         "getClassInPackage and the fuel (callGenerator_congr, modules_and_package_irrelevant); a successful class rendering is "
         "independent of surplus fuel (createClassString_fuel_mono); adding classes/modules that no lookup of the module can hit "
         "leaves its stub byte-identical (unrelated_module_added; the side condition is necessary: same_name_class_changes_import "
         "is the kernel-checked witness of cross-module interference through suffix matching); the text block of a function does "
         "not depend on the incoming state beyond the module ids and the imports it itself would add, and permuting the functions "
         "or classes of a module permutes the blocks and leaves header and import block unchanged (functions_perm_partial, "
         "classes_perm_partial, module_reorder_partial: _partial because the 'internal class as type' marker reads the imports "
         "accumulated so far — counterexample included); createClassString_restores_generics (after the repair of the stale "
         "generics defect this proof attempt found)." + GEN_TIE + " S-M runs the whole tool on a generated package and on variants "
         "(unrelated module added with fresh / re-used names, changed, renamed; functions of a module reversed) and compares "
         "unrelated stubs byte for byte, the permuted module's stub declaration by declaration.",
    note=TRUST + " The analyser side (package-wide alias table) has no locality theorem; it is exercised by S-M only. "
         "Theorems/C08 findAlias_known states the one alias rule that was repaired.")


# ---- whole-tool part (Model/Pipeline.lean + stage S-P), added to the properties it serves
WHOLE = (" WHOLE TOOL: Model/Pipeline.lean composes root adjustment, discovery, AST selection, the alias collection "
         "(Model/Aliases.lean = _get_aliases), the walk, API.to_dict + json.dump(indent=2) (Model/ApiDict.lean) and the "
         "generator with its file writes into runTool = _run_stub_generator; stage S-P runs the real CLI entry unchanged "
         "(two callees are wrapped only to observe mypy's graph, its expression-type dict and the griffe tree) and requires "
         "the model to reproduce outcome, package name, walked modules in order, alias table, API file name, the API JSON "
         "TEXT and every stub file byte for byte. ")
WHOLE_THM = {
    "C01": "Theorems/C01b: tool_error_sources (an error of the run comes from discovery, walk, serialisation or generator - "
           "never from the alias collection, which is total after repair c9b80ef), discovery_error_is_no_files, alias_step_total, "
           "api_file_error_is_typeError, tool_never_asserts (END TO END: no run ends in an AssertionError - none of the consistency "
           "guards of visitor, walker or generator can fire, for every input). "
           "Theorems/C01a (analyser half, Proofs/StackDiscipline through every function of the visitor): enter_pushes_one_frame, "
           "leave_pops_its_frame, create_attribute_guard, walk_balanced, analysis_never_asserts, analysis_leaves_empty_stack, "
           "get_api_never_asserts - for EVERY list of modules with definitions nested to any depth, none of the visitor's stack "
           "guards (assert / 'unexpected parent' AssertionError, eight sites of T3) can fire, and a completed walk leaves the "
           "declaration stack as it found it.",
    "C08": "Theorems/C08b: tool_enumeration_order (runTool is invariant under every permutation of the directory listing - end to "
           "end, incl. API text and write log), alias_table_spec / alias_table_order_independent (the alias table as a dict of "
           "sets does not depend on the order of build_result.types).",
    "C10": "Theorems/C10b: api_file_name (the API file is named after the requested source directory, the package after the "
           "adjusted root; PurePath.stem modelled).",
    "C12": "Theorems/C12b: api_dict_lists (the eight top-level lists of API.to_dict are the tables sorted by id), "
           "api_file_lists_sorted_nodup (end to end: in the API file of every completed run they are strictly increasing, "
           "schema version 1), entry_references, docstring_types_serialise, api_file_strings_valid (every string token of the file is a "
           "valid RFC 8259 string literal, for every Python string).",
    "C15": "Theorems/C15b: tool_flag_irrelevant (end to end: without test/tests/docs directories the flag changes nothing of the "
           "run), tool_analysed_kept (every walked module is a discovered file or the __init__ of a discovered package).",
    "C03": "Theorems/C03b: tool_emission_log (end to end: the emission log of a completed run is exactly the module logs of the "
           "analysed non-__init__ modules in API order followed by the re-export phase of what was queued).",
    "C14": "Theorems/C14b: tool_warning_option_pure (end to end: two runs that differ only in the warning option end with the same "
           "error or the same API, API text, stubs and write log; only the warning list may differ).",
    "C16": "Theorems/C16b: tool_second_run_partial (end to end: a second run into the directory the first run filled computes the "
           "same result and leaves every file unchanged; for coherent foreign class paths), getApi_ignores_output_dir.",
    "C18": "Theorems/C18a (analyser half, a two-run simulation through EVERY function of the analyser, Proofs/TableLocal): "
           "walk_module_blind_to_tables, module_record_local, walk_modules_blind_to_tables - the walk of a module, run from a state "
           "and from the same state with ALL tables of the API object replaced by arbitrary contents, ends with the same error or "
           "the same declaration stack (the Module record under construction), docstring cache, type-variable set, warning log "
           "and re-export map: the alias table, the re-export map and the docstring tree are the only cross-module channels. "
           "Theorems/C18b: alias_table_monotone, alias_lookup_local (aliases[name] changes only through expressions that "
           "contribute under that short name), alias_table_ignores_skipped (expressions that are no alias candidates leave the "
           "table - and with C08b.analysis_reads_alias_sets the analysis of every other module - unchanged), counterexamples "
           "same_short_name_interferes, substring_package_test.",
}
COMPOSED = {
    "C05": " COMPOSITION of the two halves (Theorems/C05b): hint_type, hint_to_stub_text (if the analyser translates a mypy type "
           "and the generator renders the result, the text is Spec.typeText of Spec.MypyMap.mapTypeUn of the mypy type - the "
           "composition of the two models is the composition of the two specifications), same_hint_same_text.",
    "C06": " COMPOSITION (Theorems/C06b): def_to_stub_parameters (from the argument list of a def through parseParameters and "
           "createParameterString: exactly the non-receiver arguments, in source order, under their converted, escaped names, "
           "annotated iff the name changed).",
    "C13": " COMPOSITION (Theorems/C13b): function_record, docstring_to_comment (the description-only comment of an element "
           "consists, line for line, of the lines of the description the parser extracted from the element's OWN docstring node), "
           "same_docstring_same_comment.",
    "C11": " WHOLE TOOL (Theorems/C11b): tool_foreign_placeholders (in a completed run every registered class of another library is "
           "written into the placeholder stub of its module).",
    "C04": " WHOLE TOOL (Theorems/C04b): moduleLog_top, tool_private_not_top_level (in a completed run a function or class the "
           "analysis marked private is never a top-level entry of a module's emission log).",
    "C09": " PACKAGE SEGMENTS (Theorems/C09b, after repair 8e9a214 of a genuine defect: a dotted path was converted as one name): "
           "path_off, path_segments (the segments of the rendered path are the rendered segments, one for one), "
           "path_segments_no_underscore, path_segments_legal, module_annotation_iff_differs, recover_path_flag_independent, "
           "module_header_is_emitPath; convert_any_path/convert_any_name tie the two call shapes to the one function "
           "_convert_name_to_convention. S-N also runs dotted paths through both and checks every segment against a "
           "lowerCamelCase written from the property; S-B/S-E check the package line of every stub against the segments of "
           "the recoverable Python module.",
    "C07": " COMPOSITION (Theorems/C07b): annotated_none_stub (-> None: one API result, no result in the stub), "
           "annotated_single_api / annotated_single_stub (-> T: exactly one result result_1 whose text is the specified text of "
           "the specified mapping of the mypy type).",
}
for _p, _t in COMPOSED.items():
    TEXT[_p]["text"] = TEXT[_p]["text"] + _t
for _p, _t in WHOLE_THM.items():
    TEXT[_p]["text"] = TEXT[_p]["text"] + WHOLE + _t
    TEXT[_p]["technique"] = TEXT[_p]["technique"] + " + whole-tool correspondence S-P (real _run_stub_generator vs Model/Pipeline.runTool, byte-exact)"

NOT_YET = "not claimed yet: theorems for this property are still being proved (see DESIGN.md)"


def main() -> None:
    checks = []
    for pid in ALL:
        if pid not in props.PROPS or pid not in TEXT:
            continue
        t = TEXT[pid]
        checks.append({
            "property_id": pid,
            "quick_cmd": f"./check {pid} --tier quick",
            "thorough_cmd": f"./check {pid} --tier thorough",
            "evidence_file": f"/verif/evidence/{pid}.json",
            "replay_cmd_template": f"./check {pid} --replay {{path}}",
            "engine": "lean4-stubgen",
            "level_claimed": {"category": "proof", "text": t["text"], "design_ref": f"DESIGN.md §4 {pid}"},
            "level_note": t["note"],
            "technique": t["technique"],
        })
    claimed = {c["property_id"] for c in checks}
    manifest = {
        "version": 1,
        "setup_cmd": "cd /verif/lean && lake build StubGen driver",
        "hooks": {
            "guard": "SAFE_DS_STUBGEN_VERIF",
            "enable": "no source hooks are needed: the harness imports the implementation in-process from /repo/src "
                      "(working tree) and wraps Path.glob / logging itself; /repo carries only 'fix:' commits",
            "baseline_off_cmd": "cd /repo && /venv/bin/python -m pytest -ra -q -p no:cacheprovider --timeout=900 "
                                "--continue-on-collection-errors",
            "source_commits": [],
            "add_only": True,
        },
        "engines": [{
            "name": "lean4-stubgen",
            "path": "/verif/lean",
            "serves_properties": sorted(claimed),
            "kind_free_text": "Lean 4 model + theorems (lake project StubGen), compiled line-protocol driver, Python "
                              "harness under /verif/tie (table translator, differential correspondence, oracles)",
        }],
        "checks": checks,
        "notes": "All checks go through ./check <id>; every run regenerates the Lean tables from /repo's working tree, "
                 "rebuilds, audits axioms, runs the correspondence stages and writes evidence/<id>.json. Known findings "
                 "and fixed defects: known_findings.json.",
        "not_applicable": [{"property_id": p, "reason": NOT_YET} for p in ALL if p not in claimed],
    }
    (VERIF / "MANIFEST.json").write_text(json.dumps(manifest, indent=1) + "\n")
    print(f"MANIFEST.json: {len(checks)} checks, {len(manifest['not_applicable'])} not claimed")


if __name__ == "__main__":
    main()
