#!/usr/bin/env python3
"""Writes /verif/MANIFEST.json from the property registry (tie/props.py) and the texts below."""
from __future__ import annotations

import json
import os
import sys
from pathlib import Path

sys.path.insert(0, os.path.dirname(os.path.abspath(__file__)))
import props  # noqa: E402

VERIF = Path(__file__).resolve().parent.parent
ALL = [f"C{i:02d}" for i in range(1, 21)]

TRUST = ("Trusted: Lean 4.33 kernel; axioms propext/Quot.sound/Classical.choice only (audited by #print axioms each run); "
         "the compiled driver; tie/ (translators T1/T2, harness, generators). The theorems are about the Lean model; "
         "the model is tied to /repo's working tree by regenerated tables (proof obligations in lake build) and by "
         "differential execution of model and implementation on generated inputs (sampling, exhaustive where stated). "
         "mypy, griffe, file system, json, CPython hashing are modelled, not verified.")

TEXT = {
    "C19": dict(
        technique="Lean 4 proof (mutual structural induction over the type algebra) + differential correspondence S-T",
        text="Proof: Theorems/C19 proves, for every type term of the 14-constructor algebra and with no size bound, "
             "from_dict(to_dict t) = t (hence equal, and to_dict stable), reflexivity, symmetry and transitivity of ==, "
             "== implies equal hash key, and permutation-invariance of == and hash for the seven order-insensitive "
             "constructors. The model (Model/Types.lean) is tied to _types.py by S-T: every enumerated/random term and "
             "pair is run through both, incl. malformed from_dict inputs; the C19 predicate itself is also evaluated on "
             "the implementation's results, so a defect is reported with the failing term as replay.",
        note=TRUST + " Float literals/bounds and NaN are outside the term language; hash(x) is assumed to be a function "
             "of the structural hash key (accidental 64-bit collisions ignored)."),
    "C09": dict(
        technique="Lean 4 proof (list induction over the name-conversion function) + exhaustive differential correspondence S-N",
        text="Proof: Theorems/C09 proves for all strings: flag off is the identity; flag on yields no underscore, keeps "
             "exactly the non-underscore characters in order up to ASCII case, is idempotent, and maps every convertible "
             "name to a legal identifier; the annotation rule (present iff the rendered name differs, carrying the "
             "original) makes the Python name recoverable and flag-independent. Tie: S-N compares model and "
             "implementation on every string over [A-Za-z0-9_] up to length 3 (exhaustive), a reduced alphabet to length "
             "8/10, all keywords and decorated variants; the generator-level part (annotation at each emission site, "
             "nothing else changes) is checked through the generator correspondence.",
        note=TRUST + " str.upper() is modelled for ASCII only; identifiers are assumed ASCII."),
}

TEXT["C13"] = dict(
    technique="Lean 4 proof (invariant over every query sequence of the one-entry docstring cache; equations for the comment assembly) + differential correspondence S-D/S-B/S-E",
    text="Proof: Theorems/C13 proves for EVERY sequence of the five documentation queries that the cached parser answers "
         "exactly like the cache-less lookup (invariant Cache.Valid, induction over the query list; an answer is independent "
         "of all earlier queries), and gives exact line-for-line equations for the documentation comment (description "
         "lines, one @param block per documented parameter, @result numbering, example code lines) as a function of the "
         "element's own docstring fields only. Tie: S-D runs random query sequences (with repetitions/revisits) against "
         "the real DocstringParser on real griffe trees and compares every record; S-B compares generated comments byte "
         "for byte; S-E checks on generated packages (4 styles, unique marker texts) that each description reaches the "
         "comment of its own element and no other.",
    note=TRUST + " griffe's three docstring grammars are outside the model (the tree carries what griffe parsed; the "
         "extractor applies griffe's parse_annotation to string annotations). Style independence is therefore not a "
         "theorem; it is exercised by S-E only.")
TEXT["C15"] = dict(
    technique="Lean 4 proof (list induction over the discovery filter) + differential correspondence S-D (real discovery loop on generated directory trees)",
    text="Proof: Theorems/C15 proves for all file lists: with the flag off the kept files are exactly those with no path "
         "component equal to test/tests/docs (whole components: look-alikes are kept), with it on all files are kept; the "
         "flag-off result is the flag-on result minus the skipped files; if no file lies in such a directory the flag is "
         "irrelevant; every AST handed to the walker belongs to a kept file; the documented 'No files found' error arises "
         "iff nothing is kept. The three directory names and the glob pattern are regenerated from the source (T1). Tie: "
         "S-D runs the real discovery loop of get_api and _get_mypy_asts (mypy stubbed) on random directory trees.",
    note=TRUST + " Path components are those of the resolved absolute path, so a source tree that itself lies under a "
         "directory called tests is excluded entirely (stated; it is what upstream test data does). The end-to-end part "
         "(stubs unaffected outside such directories) rests on the correspondence only.")


GEN_TIE = (" Tie: S-B runs the model and the real StubsStringGenerator/generate_stub_data/create_stub_files on synthetic API "
           "objects and on the analysed repo test packages under both naming settings and compares every produced file byte for "
           "byte; S-E runs the whole tool (mypy + griffe) on generated packages and evaluates the property's predicate — written "
           "from the property statement against the package specification — on the parsed stubs.")
ANA = (" The analyser side (mypy nodes -> API model) of this property is covered by the S-E oracle only; its Lean model "
       "(Model/Analyze.lean) is tied by S-A but no theorem about it is claimed yet.")
TEXT["C02"] = dict(
    technique="Lean 4 proof (lexical validity of every emitted token class) + exhaustive name correspondence S-N + S-B/S-E with an independent stub recogniser",
    text="Proof: Theorems/C02 proves for all inputs: escapeKeyword yields a legal identifier token and back-quotes exactly "
         "the 33 Safe-DS keywords (table regenerated from the source, T1); every convertible Python name is rendered as an "
         "identifier token under both settings at every emission site that goes through convert+escape (class, attribute, "
         "function, property, parameter, result, enum member, type parameter); package paths and import lines are qualified "
         "tokens; string literals and @PythonName/@PythonModule bodies are single closed STRING tokens when the value has no "
         "quote/backslash/newline; documentation comments are single closed comment tokens when the text has no '*/'; with "
         "kernel-checked counterexamples for each hypothesis (the corresponding known findings)." + GEN_TIE +
         " 'Parses' is decided on the implementation's files by tie/stubparse.py, a recogniser written from the Safe-DS grammar.",
    note=TRUST + " The syntactic half (brackets/braces closed by construction of the printer) is not a Lean theorem: it rests on "
         "the recogniser accepting every file of every S-B/S-E case. The Safe-DS reference parser is not installed.")
TEXT["C05"] = dict(
    technique="Lean 4 proof (mutual structural induction: rendered type = compositional specification, totality, union normalisation laws) + S-B/S-E",
    text="Proof: Theorems/C05 proves that for EVERY API type, generator state, module and position the rendered text equals "
         "Spec.typeText — a pure compositional function of the type and the naming flag written from the documented mapping "
         "— that rendering never raises on renderable types, and the union laws (duplicates removed, Nothing? last, T? "
         "shorthand iff exactly {T, Nothing?} with a nullable kind, order-insensitivity), plus the mapping equations per "
         "constructor." + GEN_TIE + ANA,
    note=TRUST + " Known findings (position-dependent behaviour of the analyser): K05-callable-attribute, K05-property-tuple, "
         "K05-list-attribute-unanalysed.")
TEXT["C06"] = dict(
    technique="Lean 4 proof (list induction over the parameter renderer against a specification) + S-B/S-E",
    text="Proof: Theorems/C06 proves for all parameter lists: under the receiver invariant the stub list is the Python list "
         "with the implicit receiver removed — same length, order, names (recoverable through the annotation), the default "
         "is shown iff the parameter is optional and equals the Safe-DS literal of the Python default, variadic special cases "
         "— with counterexamples for the two API invariants used (receiver first; optional implies typed)." + GEN_TIE +
         " S-E also checks assigned_by / default_value / is_optional in the API JSON." + ANA,
    note=TRUST)
TEXT["C07"] = dict(
    technique="Lean 4 proof (inductive relation for the rendered result list) + S-B/S-E",
    text="Proof: Theorems/C07 proves for all result lists: a lone None result gives no results and no marker; otherwise exactly "
         "the typed, non-empty-rendering results appear in order as name: type, with the one/many/none shapes and the "
         "'result without type' marker iff none is shown; a None result among several is shown as Nothing?." + GEN_TIE +
         " S-E checks annotated results against the annotation and inferred results (return statements nested in "
         "if/try/loops/with/match/conditional expressions) for coverage of every literal." + ANA,
    note=TRUST)
TEXT["C10"] = dict(
    technique="Lean 4 proof (paths and headers of every write operation) + S-B/S-E",
    text="Proof: Theorems/C10 proves for every stub the generator model writes (module stubs, re-export stubs, placeholders): "
         "the directory segments are the dot-segments of the Python module path announced in the header, the header "
         "determines that path (annotation, else the un-escaped package line), the base name is the module/declaration name "
         "without leading underscores, no segment is empty/'.'/'..' for well-formed ids; and characterises exactly when two "
         "writes hit one path (proved absent under three stated exclusions, each with a kernel-checked counterexample)." + GEN_TIE,
    note=TRUST + " no_two_texts_one_path is partial by necessity: the excluded situations (x/_x, placeholder vs module stub, "
         "a..b vs a.b) are real and listed as findings.")
TEXT["C16"] = dict(
    technique="Lean 4 proof (write-log algebra: first operation on every path is a write; re-run idempotence) + S-B before/after oracle",
    text="Proof: Theorems/C16 proves for all API values: the write log does not depend on pre-existing files (coherent "
         "placeholder paths), the first operation on every path is a write, hence folding the log over ANY initial file map "
         "gives the single-run contents on touched paths and leaves others alone; running twice equals running once "
         "(rerun_idempotent_eq). The model has no hidden state (generation is a function of the API value). That the "
         "IMPLEMENTATION does not mutate its API object is not a theorem: it is the S-B oracle (API.to_dict() before/after "
         "every generation) plus byte-exact correspondence of repeated generations.",
    note=TRUST + " Known finding K16-alias-rename (re-export under an alias renames the node in the API object).")
TEXT["C20"] = dict(
    technique="Lean 4 proof (state-monad invariants: pending markers flushed at every declaration; marker set = feature set) + S-B/S-E",
    text="Proof: Theorems/C20 proves for all declarations and generator states: rendering a type/parameter adds exactly the "
         "markers of Spec.typeKeys/paramKeys; createTodoMsg empties the pending set and prints the sorted messages; after "
         "every function/property/attribute/class/module the pending set is empty (markers never move to a neighbour); "
         "and for a function/attribute/class the emitted marker block is exactly the feature set of that declaration "
         "(function_markers_model; _partial w.r.t. the independent Spec only for type variables whose converted name is "
         "empty)." + GEN_TIE,
    note=TRUST + " 'internal class as type' is state-dependent (imports seen so far) and characterised separately.")

NOT_YET = "not claimed yet: the model layer this property lives in is still under construction (see DESIGN.md §6 staging)"


def main() -> None:
    checks = []
    for pid in ALL:
        if pid not in props.PROPS or pid not in TEXT:
            continue
        t = TEXT[pid]
        checks.append({
            "property_id": pid,
            "quick_cmd": f"./check {pid} --tier quick",
            "thorough_cmd": f"./check {pid} --tier thorough",
            "evidence_file": f"/verif/evidence/{pid}.json",
            "replay_cmd_template": f"./check {pid} --replay {{path}}",
            "engine": "lean4-stubgen",
            "level_claimed": {"category": "proof", "text": t["text"], "design_ref": f"DESIGN.md §4 {pid}"},
            "level_note": t["note"],
            "technique": t["technique"],
        })
    claimed = {c["property_id"] for c in checks}
    manifest = {
        "version": 1,
        "setup_cmd": "cd /verif/lean && lake build StubGen driver",
        "hooks": {
            "guard": "SAFE_DS_STUBGEN_VERIF",
            "enable": "no source hooks are needed: the harness imports the implementation in-process from /repo/src "
                      "(working tree) and wraps Path.glob / logging itself; /repo carries only 'fix:' commits",
            "baseline_off_cmd": "cd /repo && /venv/bin/python -m pytest -ra -q -p no:cacheprovider --timeout=900 "
                                "--continue-on-collection-errors",
            "source_commits": [],
            "add_only": True,
        },
        "engines": [{
            "name": "lean4-stubgen",
            "path": "/verif/lean",
            "serves_properties": sorted(claimed),
            "kind_free_text": "Lean 4 model + theorems (lake project StubGen), compiled line-protocol driver, Python "
                              "harness under /verif/tie (table translator, differential correspondence, oracles)",
        }],
        "checks": checks,
        "notes": "All checks go through ./check <id>; every run regenerates the Lean tables from /repo's working tree, "
                 "rebuilds, audits axioms, runs the correspondence stages and writes evidence/<id>.json. Known findings "
                 "and fixed defects: known_findings.json.",
        "not_applicable": [{"property_id": p, "reason": NOT_YET} for p in ALL if p not in claimed],
    }
    (VERIF / "MANIFEST.json").write_text(json.dumps(manifest, indent=1) + "\n")
    print(f"MANIFEST.json: {len(checks)} checks, {len(manifest['not_applicable'])} not claimed")


if __name__ == "__main__":
    main()
