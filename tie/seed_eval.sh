#!/bin/bash
# seed_eval.sh <seed-dir> <property> [more properties…]
# Confirms a seeded change (demo fails with it, passes without), then runs the registered quick check(s)
# of /verif against /repo with the change applied, and undoes the change.
set -u
SEED="$1"; shift
cd /repo || exit 2
if ! git diff --quiet; then echo "refusing: /repo has uncommitted changes"; exit 2; fi
echo "== demo on unchanged tree"; (cd /tmp && /venv/bin/python "$SEED/demo.py" /repo/src >/dev/null 2>&1); echo "exit $?"
git apply "$SEED/patch.diff" || { echo "patch does not apply"; exit 2; }
trap 'git -C /repo checkout -- . ; echo "== /repo restored"' EXIT
echo "== demo with the change"; (cd /tmp && /venv/bin/python "$SEED/demo.py" /repo/src >/dev/null 2>&1); echo "exit $?"
for P in "$@"; do
  echo "== ./check $P --tier quick (with the change)"
  (cd /verif && timeout 1800 ./check "$P" --tier quick 2>&1 | grep -E "VIOLATION|KNOWN-FINDING|violation:|\] ok:|obligation/corr" | head -8; echo "exit ${PIPESTATUS[0]}")
done
