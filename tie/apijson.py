"""Serialise a live `safeds_stubgen` API object into the JSON the Lean driver decodes
(lean/StubGen/Driver/ApiJson.lean).  Reflective: decides nothing."""
from __future__ import annotations


def canon(d):
    if isinstance(d, dict):
        return {k: canon(v) for k, v in d.items()}
    if isinstance(d, (set, frozenset)):
        return sorted(canon(x) for x in d)
    if isinstance(d, (list, tuple)):
        return [canon(x) for x in d]
    return d


def ty(t):
    return None if t is None else canon(t.to_dict())


def default(v):
    if v is None:
        return {"k": "none"}
    if isinstance(v, bool):
        return {"k": "bool", "v": v}
    if isinstance(v, int):
        return {"k": "int", "v": v}
    if isinstance(v, float):
        return {"k": "float", "v": f"{v}"}
    if isinstance(v, str):
        return {"k": "str", "v": v}
    return {"k": "unknown"}


def doc(d):
    return {"description": d.description, "full_docstring": getattr(d, "full_docstring", ""),
            "examples": list(getattr(d, "examples", []) or [])}


def modref(m):
    return {"id": m.id,
            "qualified_imports": [{"qualified_name": q.qualified_name, "alias": q.alias} for q in m.qualified_imports],
            "wildcard_imports": [w.module_name for w in m.wildcard_imports]}


def param(p):
    return {"id": p.id, "name": p.name, "is_optional": p.is_optional, "default": default(p.default_value),
            "assigned_by": p.assigned_by.name,
            "doc": {"type": ty(p.docstring.type), "default_value": p.docstring.default_value,
                    "description": p.docstring.description},
            "type": ty(p.type)}


def function(f):
    return {"id": f.id, "name": f.name, "doc": doc(f.docstring), "is_public": f.is_public, "is_static": f.is_static,
            "is_class_method": f.is_class_method, "is_property": f.is_property,
            "result_docs": [{"type": ty(r.type), "description": r.description, "name": r.name} for r in f.result_docstrings],
            "type_vars": [{"name": t.name, "upper_bound": ty(t.upper_bound)} for t in f.type_var_types],
            "results": [{"id": r.id, "name": r.name, "type": ty(r.type)} for r in f.results],
            "reexported_by": [modref(m) for m in f.reexported_by],
            "params": [param(p) for p in f.parameters]}


def class_(c):
    return {"id": c.id, "name": c.name, "superclasses": list(c.superclasses), "is_public": c.is_public,
            "doc": doc(c.docstring), "ctor": None if c.constructor is None else function(c.constructor),
            "inherits_from_exception": c.inherits_from_exception,
            "reexported_by": [modref(m) for m in c.reexported_by],
            "attributes": [{"id": a.id, "name": a.name, "is_public": a.is_public, "is_static": a.is_static,
                            "type": ty(a.type),
                            "doc": {"type": ty(a.docstring.type), "description": a.docstring.description}}
                           for a in c.attributes],
            "methods": [function(m) for m in c.methods],
            "classes": [class_(k) for k in c.classes],
            "type_parameters": [{"name": t.name, "type": ty(t.type), "variance": t.variance.name}
                                for t in c.type_parameters]}


def enum(e):
    return {"id": e.id, "name": e.name, "doc": doc(e.docstring),
            "instances": [{"id": i.id, "name": i.name} for i in e.instances]}


def module(m):
    return {"id": m.id, "name": m.name, "docstring": m.docstring,
            "qualified_imports": [{"qualified_name": q.qualified_name, "alias": q.alias} for q in m.qualified_imports],
            "wildcard_imports": [w.module_name for w in m.wildcard_imports],
            "classes": [class_(c) for c in m.classes],
            "functions": [function(f) for f in m.global_functions],
            "enums": [enum(e) for e in m.enums]}


def api(a):
    """The reexport map's sets are serialised in their current iteration order (it is stable while
    the sets are not modified, which generation does not do)."""
    return {"package": a.package,
            "modules": [module(m) for m in a.modules.values()],
            "classes": [class_(c) for c in a.classes.values()],
            "reexport_map": [{"key": k, "modules": [modref(m) for m in v]} for k, v in a.reexport_map.items()],
            # the other tables of the API object, as their key order
            "function_ids": list(a.functions), "result_ids": list(a.results), "enum_ids": list(a.enums),
            "enum_instance_ids": list(a.enum_instances), "attribute_ids": list(a.attributes_),
            "parameter_ids": list(a.parameters_)}
