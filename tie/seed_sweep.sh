#!/bin/bash
# usage: tie/seed_sweep.sh "<seeds>" "<props>" [tier]   -- runs checks on the CURRENT tree, prints exit codes
cd /verif
tier=${3:-quick}
for s in $1; do for p in $2; do
  out=$(VERIF_SEED=$s ./check $p --tier $tier 2>&1); rc=$?
  echo "seed=$s $p rc=$rc $(echo "$out" | grep -c KNOWN-FINDING) known; $(echo "$out" | tail -1)"
  if [ $rc -ne 0 ]; then echo "$out" | grep -v KNOWN | tail -8; fi
done; done
