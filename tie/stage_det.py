"""S-R — determinism of the complete output (C08): the real entry point is run in fresh interpreters that
differ only in PYTHONHASHSEED, directory-enumeration order (os.listdir/os.scandir shuffled), working
directory and the spelling of the source/output paths; the sha256 of every output file must agree."""
from __future__ import annotations

import hashlib
import json
import multiprocessing as mp
import os
import random
import shutil
import subprocess
import sys
import time
from pathlib import Path

import e2e
import implrun
import pkggen
from common import REPO, pool_results

HERE = Path(__file__).resolve().parent
PY = sys.executable

GEN = dict(kw_rate=0.03, docs=0.4, private_rate=0.25, unique_top_names=False, doc_types="mixed", infer_returns=0.3, ties=0.5, dual=0.5)


def digest(out: Path) -> dict[str, str]:
    d = {}
    if out.exists():
        for p in sorted(out.rglob("*")):
            if p.is_file():
                d[str(p.relative_to(out))] = hashlib.sha256(p.read_bytes()).hexdigest()
    return d


def variants(rng: random.Random, top: Path, root: str, k: int):
    """[(label, env hash seed, spec)]; the first is the reference run; `root` is the source directory relative to
    top/src (the package itself, or a plain directory that contains packages at different depths)"""
    src = top / "src" / root
    base_opts = []
    style = rng.choice(["plaintext", "numpydoc", "google", "rest"])
    base_opts += ["--docstyle", style]
    if rng.random() < 0.5:
        base_opts.append("-nc")
    if rng.random() < 0.3:
        base_opts.append("-tr")
    if rng.random() < 0.5:
        base_opts += ["-tsp", rng.choice(["code", "docstring"])]
    out = []

    def v(label, hs, cwd, s_spelling, o_spelling, shuffle):
        out.append((label, hs, {"cwd": str(cwd), "argv": ["-s", s_spelling, "-o", o_spelling] + base_opts,
                                "shuffle": shuffle, "repo_src": str(REPO / "src")}, o_spelling if os.path.isabs(o_spelling)
                    else str((Path(cwd) / o_spelling))))
    v("reference", 0, top, str(src), str(top / "out0"), None)
    kinds = ["hash", "shuffle", "relative", "slash", "repeat", "cwd", "dot"]
    rng.shuffle(kinds)
    for i, kind in enumerate((kinds * 3)[:k], start=1):
        o = top / f"out{i}"
        hs = rng.randrange(1, 4000)
        if kind == "hash":
            v(f"hash seed {hs}", hs, top, str(src), str(o), None)
        elif kind == "shuffle":
            sh = rng.randrange(1 << 30)
            v(f"enumeration order shuffled ({sh}), hash seed {hs}", hs, top, str(src), str(o), sh)
        elif kind == "relative":
            v("relative paths from the parent of the package", hs, top / "src", root, f"../out{i}", None)
        elif kind == "slash":
            v("trailing slashes and a '.' component", hs, top, f"{top}/./src/{root}/", f"{o}/", None)
        elif kind == "repeat":
            v("repeated run, same hash seed as the reference", 0, top, str(src), str(o), None)
        elif kind == "dot":
            v("run from inside the source directory, '-s .'", hs, src, ".", str(o), None)
        else:
            v("working directory /", hs, "/", str(src), str(o), rng.randrange(1 << 30))
    return out, base_opts


def one_case(task):
    seed, k = task
    rng = random.Random(seed)
    style = rng.choice(["plaintext", "numpydoc", "google", "rest"])
    pkg = pkggen.PkgGen(rng, style=style, **GEN).package()
    files = pkggen.render(pkg)
    src_root = pkg["root"]
    if rng.random() < 0.35:
        # the source directory is not a package: the package lies two levels down, a decoy package three levels down in a
        # sibling subtree whose name sorts (and often enumerates) first; the tool has to pick the nearest one
        files = {f"code/lib/{p}": t for p, t in files.items()}
        files["code/bench/perf/suite/__init__.py"] = ""
        files["code/bench/perf/suite/cases.py"] = "def zz_case(n: int) -> int:\n    return n\n"
        files["code/aaa/deeper/still/more/__init__.py"] = ""
        files["code/aaa/deeper/still/more/m.py"] = "def zz_m() -> None: ...\n"
        src_root = "code"
    top = implrun.WORK / f"sr_{os.getpid()}_{seed}"
    res = {"seed": seed, "fails": [], "runs": 0, "outcomes": [], "n_files": 0, "labels": []}
    try:
        e2e.write_pkg(files, top / "src")
        res["labels"].append("layout: plain source directory" if src_root == "code" else "layout: package")
        vs, base_opts = variants(rng, top, src_root, k)
        ref = None
        for label, hs, spec, outdir in vs:
            env = dict(os.environ, PYTHONHASHSEED=str(hs), MYPY_CACHE_DIR=os.devnull)
            env.pop("PYTHONPATH", None)
            p = subprocess.run([PY, str(HERE / "detrun.py"), json.dumps(spec)], capture_output=True, text=True, env=env,
                               timeout=300)
            try:
                outcome = json.loads(p.stdout.strip().splitlines()[-1])
            except Exception:  # noqa: BLE001
                outcome = {"outcome": "crash", "stderr": p.stderr[-300:]}
            d = digest(Path(outdir).resolve())
            res["runs"] += 1
            res["labels"].append(label.split(" (")[0].split(" seed")[0])
            res["outcomes"].append(outcome["outcome"] if outcome["outcome"] != "exc" else f"{outcome['exc']}@{outcome['site']}")
            cur = (outcome.get("outcome"), outcome.get("exc"), d)
            if ref is None:
                ref = (cur, label, spec, outdir)
                res["n_files"] = len(d)
                continue
            if cur != ref[0]:
                (r_out, r_exc, r_d) = ref[0]
                differing = sorted(f for f in set(d) | set(r_d) if d.get(f) != r_d.get(f))
                first = differing[0] if differing else None
                excerpt = None
                if first is not None:
                    a = (Path(ref[3]) / first).resolve()
                    b = (Path(outdir) / first).resolve()
                    ta = a.read_text() if a.exists() else None
                    tb = b.read_text() if b.exists() else None
                    if ta is not None and tb is not None:
                        la, lb = ta.splitlines(), tb.splitlines()
                        for i, (x, y) in enumerate(zip(la + [None], lb + [None])):
                            if x != y:
                                excerpt = {"line": i + 1, "reference": x, "variant": y}
                                break
                    else:
                        excerpt = {"reference_exists": ta is not None, "variant_exists": tb is not None}
                what = (f"output differs between the reference run and the run with {label}: "
                        + (f"{len(differing)} file(s), first {first}" if differing else f"outcome {cur[:2]} vs {ref[0][:2]}"))
                res["fails"].append(("C08", what, {"stage": "S-R", "seed": seed, "variant": label, "reference_spec": ref[2],
                                                  "variant_spec": spec, "variant_hash_seed": hs, "differing_files": differing[:10],
                                                  "first_difference": excerpt, "sources": files}))
                break
    finally:
        shutil.rmtree(top, ignore_errors=True)
    return res


def run(ctx) -> None:
    rep = ctx.rep
    n, k = {"quick": (20, 4), "thorough": (160, 8)}[ctx.tier]
    rng = random.Random(ctx.seed * 48271 % (1 << 31) + 5)
    tasks = [(rng.randrange(1 << 40), k) for _ in range(n)]
    rep.rule = (rep.rule + " | " if rep.rule else "") + (
        "S-R: generated packages (same-named classes in different modules and nesting levels allowed, re-exports; in a third of "
        "the cases below a plain source directory next to deeper decoy packages, "
        "docstring types) run through safeds_stubgen.main.main() in fresh interpreters: reference run vs. runs with "
        "other PYTHONHASHSEED values, shuffled os.listdir/os.scandir order, relative / trailing-slash / dotted path "
        "spellings, other working directories, and a repetition; sha256 of every output file compared; "
        "non-trivial = the reference run wrote >= 3 files; distinct by generator seed")
    implrun.WORK.mkdir(exist_ok=True)
    t0 = time.time()
    with mp.get_context("fork").Pool(min(16, os.cpu_count() or 4)) as pool:
        for r in pool_results(pool, one_case, tasks, ctx.deadline):
            if time.time() > ctx.deadline:
                pool.terminate()
                break
            rep.evaluations += r["runs"]
            for o in r["outcomes"]:
                rep.bump("det_outcome", o)
            for lab in r["labels"]:
                rep.bump("det_variant", lab)
            if r["n_files"] >= 3:
                rep.nontrivial.add(r["seed"])
            for p, what, replay in r["fails"]:
                if len(rep.violations) >= 2:
                    replay = {k_: v for k_, v in replay.items() if k_ != "sources"}
                ctx.oracle_failure(p, what, replay)
    rep.extra["det_wall_s"] = round(time.time() - t0, 1)
