"""Known-finding classifiers.  A finding suppresses an oracle failure only if the failing input
satisfies the finding's classifier AND the failure text matches; anything else is still a violation."""
from __future__ import annotations

import re


def matches(finding: dict, what: str, replay: dict) -> bool:
    m = finding.get("match", {})
    if "failure_regex" in m and not re.search(m["failure_regex"], what):
        return False
    fn = CLASSIFIERS.get(m.get("classifier", ""))
    if fn is None:
        return False
    try:
        return bool(fn(replay, m))
    except Exception:  # noqa: BLE001
        return False


CLASSIFIERS: dict = {}


def classifier(name):
    def deco(f):
        CLASSIFIERS[name] = f
        return f
    return deco


@classifier("always")
def _always(replay, m):
    return True


@classifier("field_true")
def _field_true(replay, m):
    return bool(replay.get(m["field"]))


@classifier("field_equals")
def _field_equals(replay, m):
    return replay.get(m["field"]) == m["value"]


@classifier("field_regex")
def _field_regex(replay, m):
    return re.search(m["regex"], str(replay.get(m["field"], ""))) is not None


@classifier("keyword_in_unescaped_position")
def _kw_unescaped(replay, m):
    """the parse error names a keyword that occurs in one of the positions the generator does not escape"""
    mm = re.search(r"keyword '(\w+)' used as identifier", replay.get("error", ""))
    return bool(mm and mm.group(1) in replay.get("unescaped_positions", []))
