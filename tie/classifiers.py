"""Known-finding classifiers.  A finding suppresses an oracle failure only if the failing input
satisfies the finding's classifier AND the failure text matches; anything else is still a violation."""
from __future__ import annotations

import re


def matches(finding: dict, what: str, replay: dict) -> bool:
    m = finding.get("match", {})
    if "failure_regex" in m and not re.search(m["failure_regex"], what):
        return False
    fn = CLASSIFIERS.get(m.get("classifier", ""))
    if fn is None:
        return False
    try:
        return bool(fn(replay, m))
    except Exception:  # noqa: BLE001
        return False


CLASSIFIERS: dict = {}


def classifier(name):
    def deco(f):
        CLASSIFIERS[name] = f
        return f
    return deco
