"""Registry: property -> Lean modules, theorems, stages."""
import stage_disc
import stage_doc
import stage_e2e
import stage_gen
import stage_names
import stage_types

PROPS = {
    "C09": {
        "modules": ["StubGen.Theorems.C09", "StubGen.Theorems.Tables"],
        "theorems": ["StubGen.C09.convert_off", "StubGen.C09.convert_on_no_underscore", "StubGen.C09.convert_on_letters",
                     "StubGen.C09.convert_on_legal", "StubGen.C09.convert_idempotent", "StubGen.C09.annotation_iff_differs",
                     "StubGen.C09.recover_eq", "StubGen.C09.recover_flag_independent", "StubGen.C09.no_annotation_off",
                     "StubGen.Tables.name_annotation_form"],
        "stages": [stage_names.run, stage_gen.run],
    },
    "C13": {
        "modules": ["StubGen.Theorems.C13"],
        "theorems": ["StubGen.C13.valid_empty", "StubGen.C13.getCached_ok", "StubGen.C13.getCached_error",
                     "StubGen.C13.getCached_total", "StubGen.C13.getCached_transparent",
                     "StubGen.C13.getClassDocumentation_cache_irrelevant", "StubGen.C13.getFunctionDocumentation_cache_irrelevant",
                     "StubGen.C13.getParameterDocumentation_cache_irrelevant", "StubGen.C13.getAttributeDocumentation_cache_irrelevant",
                     "StubGen.C13.getResultDocumentation_cache_irrelevant", "StubGen.C13.queries_eq_cacheless_spec",
                     "StubGen.C13.cache_transparent", "StubGen.C13.runAll_eq_spec", "StubGen.C13.answer_independent_of_history",
                     "StubGen.C13.order_irrelevant", "StubGen.C13.descriptionPart_lines", "StubGen.C13.descriptionPart_line_for_line",
                     "StubGen.C13.sdsDocstringDescription_form", "StubGen.C13.sdsDocstring_blocks", "StubGen.C13.sdsDocstring_empty_iff",
                     "StubGen.C13.resultDocLines_spec", "StubGen.C13.exampleText_lines", "StubGen.C13.attached_to_own_element",
                     "StubGen.C13.attached_to_own_class", "StubGen.C13.attached_to_own_attribute"],
        "stages": [stage_doc.run, stage_gen.run, stage_e2e.run],
    },
    "C15": {
        "modules": ["StubGen.Theorems.C15", "StubGen.Theorems.Tables"],
        "theorems": ["StubGen.C15.filter_spec", "StubGen.C15.flag_on_keeps_all", "StubGen.C15.flag_off_excludes",
                     "StubGen.C15.flag_irrelevant_outside", "StubGen.C15.flag_only_removes", "StubGen.C15.no_files_error",
                     "StubGen.C15.analysed_subset", "StubGen.C15.packages_first", "StubGen.Tables.excluded_dirs"],
        "stages": [stage_disc.run],
    },
    "C19": {
        "modules": ["StubGen.Theorems.C19", "StubGen.Theorems.Tables"],
        "theorems": ["StubGen.C19.roundtrip", "StubGen.C19.roundtrip_eq", "StubGen.C19.todict_stable",
                     "StubGen.C19.eq_refl", "StubGen.C19.eq_symm", "StubGen.C19.eq_trans", "StubGen.C19.eq_hash",
                     "StubGen.C19.perm_namedSeq", "StubGen.C19.perm_union", "StubGen.C19.perm_list",
                     "StubGen.C19.perm_set", "StubGen.C19.perm_tuple", "StubGen.C19.perm_callable",
                     "StubGen.C19.perm_literal", "StubGen.Tables.type_kinds"],
        "stages": [stage_types.run],
    },
}
