"""Registry: property -> Lean modules, theorems (read from the theorem files), stages."""
from __future__ import annotations

import re
from pathlib import Path

import stage_ana
import stage_corpus
import stage_det
import stage_disc
import stage_doc
import stage_e2e
import stage_gen
import stage_layout
import stage_meta
import stage_names
import stage_pipe
import stage_types

LEAN = Path(__file__).resolve().parent.parent / "lean"


def theorems_of(module: str, only: list[str] | None = None) -> list[str]:
    """fully qualified names of the theorems stated in lean/<module path>.lean"""
    path = LEAN / (module.replace(".", "/") + ".lean")
    text = path.read_text() if path.exists() else ""
    ns = re.search(r"^namespace\s+(\S+)", text, re.M)
    prefix = ns.group(1) + "." if ns else ""
    names = re.findall(r"^theorem\s+([A-Za-z_0-9'.]+)", text, re.M)
    return [prefix + n for n in names if only is None or n in only]


ANALYSER_PARTS = {"C04": ["C04a", "C04b"], "C05": ["C05a", "C05b"], "C06": ["C06a", "C06b"], "C07": ["C07a", "C07b"], "C15": ["C15a", "C15b"], "C13": ["C13a", "C13b"], "C14": ["C14b"], "C16": ["C16b"],
                  "C03": ["C03a", "C03b"], "C02": ["C02a"], "C01": ["C01a", "C01b"], "C08": ["C08b"], "C10": ["C10b"], "C11": ["C11b"], "C12": ["C12b"],
                  "C18": ["C18a", "C18b"], "C09": ["C09b"]}
"""further theorem files of a property: `a` = the analyser half (mypy nodes -> API model), `b` = the whole-tool part
(Model/Pipeline.lean: discovery, alias table, walk, API JSON text, generator, writes)"""


def spec(prop: str, stages, extra_modules=(), extra_theorems=(), only=None):
    mods = [f"StubGen.Theorems.{prop}", *extra_modules]
    thms = theorems_of(f"StubGen.Theorems.{prop}", only) + list(extra_theorems)
    for part in ANALYSER_PARTS.get(prop, []):
        mods.append(f"StubGen.Theorems.{part}")
        thms += theorems_of(f"StubGen.Theorems.{part}")
    return {"modules": mods, "theorems": thms, "stages": [stage_corpus.run, *stages]}


T = "StubGen.Theorems.Tables"
DA, DP, DT, DR = ("StubGen.Theorems.DecArgs", "StubGen.Theorems.DecParams", "StubGen.Theorems.DecAttrs",
                  "StubGen.Theorems.DecResults")
DS = "StubGen.Theorems.DecStrings"
"""T2 obligations: model = table of the real function on every point of a finite domain"""

PROPS = {
    "C01": spec("C01", [stage_gen.run, stage_ana.run, stage_e2e.run, stage_pipe.run]),
    "C03": spec("C03", [stage_gen.run, stage_ana.run, stage_e2e.run, stage_pipe.run]),
    "C04": spec("C04", [stage_gen.run, stage_ana.run, stage_e2e.run], [DT], ["StubGen.Decisions.attribute_string_table"]),
    "C17": spec("C17", [stage_gen.run, stage_e2e.run]),
    "C02": spec("C02", [stage_names.run, stage_gen.run, stage_e2e.run], [T, DS],
                ["StubGen.Tables.keywords_escaped", "StubGen.Tables.escape_table_exact", "StubGen.Decisions.escape_string_table"]),
    "C05": spec("C05", [stage_gen.run, stage_ana.run, stage_e2e.run], [T, DA],
                ["StubGen.Tables.builtin_names", "StubGen.Decisions.type_of_any_table", "StubGen.Decisions.variance_table"]),
    "C06": spec("C06", [stage_gen.run, stage_ana.run, stage_e2e.run], [DA, DP, DS],
                ["StubGen.Decisions.argument_kind_table", "StubGen.Decisions.parameter_string_table",
                 "StubGen.Decisions.escape_string_table"]),
    "C07": spec("C07", [stage_gen.run, stage_ana.run, stage_e2e.run], [DR], ["StubGen.Decisions.result_string_table"]),
    "C08": spec("C08", [stage_det.run, stage_disc.run, stage_ana.run, stage_gen.run, stage_pipe.run]),
    "C09": spec("C09", [stage_names.run, stage_gen.run, stage_e2e.run], [T], ["StubGen.Tables.name_annotation_form"]),
    "C10": spec("C10", [stage_gen.run, stage_e2e.run, stage_layout.run, stage_pipe.run]),
    "C11": spec("C11", [stage_gen.run, stage_e2e.run]),
    "C18": spec("C18", [stage_meta.run, stage_gen.run]),
    "C12": spec("C12", [stage_ana.run, stage_e2e.run, stage_pipe.run]),
    "C13": spec("C13", [stage_doc.run, stage_gen.run, stage_e2e.run]),
    "C14": spec("C14", [stage_ana.run, stage_e2e.run, stage_pipe.run]),
    "C15": spec("C15", [stage_disc.run, stage_pipe.run], [T], ["StubGen.Tables.excluded_dirs"]),
    "C16": spec("C16", [stage_gen.run, stage_e2e.run, stage_pipe.run]),
    "C19": spec("C19", [stage_types.run], [T], ["StubGen.Tables.type_kinds"]),
    "C20": spec("C20", [stage_gen.run, stage_e2e.run], [T, DP, DT, DR],
                ["StubGen.Tables.todo_keys", "StubGen.Tables.todo_messages_distinct", "StubGen.Decisions.parameter_string_table",
                 "StubGen.Decisions.attribute_string_table", "StubGen.Decisions.result_string_table"]),
}
