"""S-T — correspondence of the L0 type algebra (Model/Types.lean) with api_analyzer/_types.py,
and the C19 oracles evaluated on the implementation."""
from __future__ import annotations

import itertools
import json
import random

from common import driver_batch


def load_impl():
    import importlib
    import sys
    from common import REPO
    src = str(REPO / "src")
    if src not in sys.path:
        sys.path.insert(0, src)
    return importlib.import_module("safeds_stubgen.api_analyzer._types")


def canon(d):
    """canonical JSON value of a to_dict() result (sets -> sorted lists)."""
    if isinstance(d, dict):
        return {k: canon(v) for k, v in d.items()}
    if isinstance(d, (set, frozenset)):
        return sorted(canon(x) for x in d)
    if isinstance(d, (list, tuple)):
        return [canon(x) for x in d]
    return d


def canon_enum_sorted(d):
    """also sort EnumType values coming from the model (it keeps input order)."""
    if isinstance(d, dict):
        out = {k: canon_enum_sorted(v) for k, v in d.items()}
        if out.get("kind") == "EnumType" and isinstance(out.get("values"), list):
            out["values"] = sorted(out["values"])
        return out
    if isinstance(d, list):
        return [canon_enum_sorted(x) for x in d]
    return d


def jkey(d) -> str:
    return json.dumps(d, sort_keys=True, ensure_ascii=False)


class Gen:
    def __init__(self, T, rng: random.Random):
        self.T = T
        self.rng = rng

    def leaves(self):
        T = self.T
        return [
            T.UnknownType(),
            T.NamedType("int", "builtins.int"),
            T.NamedType("A", "pkg.m.A"),
            T.NamedType("A", "pkg.n.A"),
            T.NamedType("None", "builtins.None"),
            T.EnumType(frozenset({"a", "b"})),
            T.EnumType(frozenset({"b"})),
            T.BoundaryType("float", 0, "Infinity", True, True),
            T.BoundaryType("float", 0, "Infinity", True, False),
            T.BoundaryType("int", 0, 1, True, False),
            T.BoundaryType("int", "NegativeInfinity", 1, False, True),
            T.LiteralType([1]),
            T.LiteralType([True]),
            T.LiteralType(["1", None]),
            T.LiteralType([None, "1"]),
            T.LiteralType([0, False, 0]),
            T.TypeVarType("T"),
            T.TypeVarType("T", T.NamedType("int", "builtins.int")),
        ]

    def level1(self, base):
        """all terms with one constructor application over `base`, arity <= 2."""
        T = self.T
        out = []
        seqs = [[]] + [[a] for a in base] + [[a, b] for a in base for b in base]
        for s in seqs:
            out += [T.UnionType(list(s)), T.ListType(list(s)), T.SetType(list(s)), T.TupleType(list(s))]
        for s in seqs[: 1 + len(base) + 40]:
            out.append(T.NamedSequenceType("Seq", "typing.Seq", list(s)))
        for a in base:
            out.append(T.FinalType(a))
            out.append(T.TypeVarType("T", a))
            out.append(T.CallableType([], a))
            for b in base:
                out.append(T.DictType(a, b))
                out.append(T.CallableType([a], b))
        return out

    def rand_term(self, depth: int):
        T, r = self.T, self.rng
        if depth <= 0 or r.random() < 0.25:
            return r.choice(self.leaves())
        k = r.randrange(10)
        kids = lambda: [self.rand_term(depth - 1) for _ in range(r.choice([0, 1, 1, 2, 2, 3]))]
        if k == 0:
            return T.UnionType(kids())
        if k == 1:
            return T.ListType(kids())
        if k == 2:
            return T.SetType(kids())
        if k == 3:
            return T.TupleType(kids())
        if k == 4:
            return T.NamedSequenceType(r.choice(["Seq", "G"]), r.choice(["typing.Seq", "pkg.G"]), kids())
        if k == 5:
            return T.DictType(self.rand_term(depth - 1), self.rand_term(depth - 1))
        if k == 6:
            return T.CallableType(kids(), self.rand_term(depth - 1))
        if k == 7:
            return T.FinalType(self.rand_term(depth - 1))
        if k == 8:
            return T.TypeVarType(r.choice(["T", "U"]), self.rand_term(depth - 1))
        lits = [r.choice([0, 1, True, False, "a", "1", None, -3]) for _ in range(r.choice([0, 1, 2, 3]))]
        return T.LiteralType(lits)

    def variant(self, t):
        """a term that should be == t but is not identical: shuffle / re-spell children."""
        T, r = self.T, self.rng
        name = type(t).__name__
        if name in ("UnionType", "ListType", "SetType", "TupleType"):
            kids = [self.variant(k) for k in t.types]
            r.shuffle(kids)
            return type(t)(kids)
        if name == "NamedSequenceType":
            kids = [self.variant(k) for k in t.types]
            r.shuffle(kids)
            return T.NamedSequenceType(t.name, t.qname, kids)
        if name == "CallableType":
            kids = [self.variant(k) for k in t.parameter_types]
            r.shuffle(kids)
            return T.CallableType(kids, self.variant(t.return_type))
        if name == "DictType":
            return T.DictType(self.variant(t.key_type), self.variant(t.value_type))
        if name == "FinalType":
            return T.FinalType(self.variant(t.type_))
        if name == "TypeVarType":
            return T.TypeVarType(t.name, None if t.upper_bound is None else self.variant(t.upper_bound))
        if name == "LiteralType":
            lits = [({True: 1, False: 0}.get(l, l) if isinstance(l, bool) else l) for l in t.literals]
            r.shuffle(lits)
            return T.LiteralType(lits)
        if name == "BoundaryType" and t.max == "Infinity":
            return T.BoundaryType(t.base_type, t.min, t.max, t.min_inclusive, not t.max_inclusive)
        if name == "EnumType":
            return T.EnumType(frozenset(sorted(t.values, reverse=True)))
        return t


def depth_of(d) -> int:
    if isinstance(d, dict):
        return 1 + max([depth_of(v) for v in d.values()] + [0])
    if isinstance(d, list):
        return max([depth_of(v) for v in d] + [0])
    return 0


def safe(f, *a):
    try:
        return ("ok", f(*a))
    except Exception as e:  # noqa: BLE001
        return ("exc", type(e).__name__)


def run(ctx) -> None:
    rep, tier = ctx.rep, ctx.tier
    T = load_impl()
    rng = random.Random(ctx.seed * 7919 + 19)
    g = Gen(T, rng)
    leaves = g.leaves()
    small = leaves[:4] + leaves[5:6] + leaves[7:9] + leaves[11:14] + leaves[16:18]
    lvl1 = g.level1(small if tier == "quick" else leaves[:14])
    n_rand = 1500 if tier == "quick" else 12000
    rand = [g.rand_term(rng.choice([2, 3, 4, 5])) for _ in range(n_rand)]
    terms = leaves + lvl1 + rand
    rep.rule = ("S-T: type terms = leaf alphabet + all one-level terms of arity<=2 over it + random terms to depth 5; "
                "pairs = stratified/all pairs of the enumerated terms + random pairs + (term, shuffled/re-spelt variant); "
                "non-trivial = nesting depth >= 2 or an equal-but-not-identical pair; distinct by canonical JSON")

    # ---- single terms: round trip, to_dict stability, reflexivity
    reqs, metas = [], []
    for t in terms:
        d = safe(lambda: canon(t.to_dict()))
        if d[0] != "ok":
            rep.violation(f"to_dict raised {d[1]} on {t!r}", {"stage": "S-T", "term": repr(t)}, True)
            continue
        d = d[1]
        key = jkey(d)
        rt = safe(lambda: T.AbstractType.from_dict(t.to_dict()))
        fail = None
        if rt[0] != "ok":
            fail = f"from_dict(to_dict(t)) raised {rt[1]}"
        else:
            t2 = rt[1]
            e = safe(lambda: t2 == t)
            d2 = safe(lambda: canon(t2.to_dict()))
            h = safe(lambda: hash(t2) == hash(t))
            r_ = safe(lambda: t == t)
            if e != ("ok", True):
                fail = f"from_dict(to_dict(t)) == t gave {e}"
            elif d2 != ("ok", d):
                fail = f"second to_dict differs: {d2}"
            elif h != ("ok", True):
                fail = f"hash(from_dict(to_dict(t))) == hash(t) gave {h}"
            elif r_ != ("ok", True):
                fail = f"t == t gave {r_}"
        nt = key if depth_of(d) >= 3 else None
        rep.count(key, nt)
        rep.bump("kind", d.get("kind", "?"))
        rep.sample({"term": d}, limit=4)
        if fail:
            ctx.oracle_failure("C19", fail, {"stage": "S-T", "case": "roundtrip", "term": d})
        reqs.append({"op": "type", "d": d})
        metas.append(d)
    if ctx.driver_ok:
        for d, out in zip(metas, driver_batch(reqs)):
            ctx.rep.disagreements_checked += 1
            if not out.get("ok"):
                ctx.disagree("S-T/from_dict", {"term": d}, out, "ok")
            elif canon_enum_sorted(out["todict"]) != d:
                ctx.disagree("S-T/to_dict", {"term": d}, out["todict"], d)
            elif not out.get("refl"):
                ctx.disagree("S-T/refl", {"term": d}, False, True)

    # ---- malformed from_dict inputs: error classes
    bad = [
        {}, {"kind": "Nope"}, {"kind": 3}, {"kind": "NamedType"}, {"kind": "NamedType", "name": "a"},
        {"kind": "ListType"}, {"kind": "ListType", "types": [1]}, {"kind": "ListType", "types": ["x"]},
        {"kind": "ListType", "types": ""}, {"kind": "ListType", "types": 3},
        {"kind": "ListType", "types": [{"kind": "Nope"}]}, {"kind": "DictType", "key_type": {"kind": "UnknownType"}},
        {"kind": "FinalType", "type": None}, {"kind": "CallableType", "parameter_types": []},
        {"kind": "TypeVarType", "name": "T"}, {"kind": "TypeVarType", "upper_bound": None},
        {"kind": "TypeVarType", "name": "T", "upper_bound": {"kind": "Nope"}},
        {"kind": "UnionType", "types": [{"kind": "UnknownType"}, {}]}, {"kind": "EnumType"}, {"kind": "LiteralType"},
        {"kind": "BoundaryType", "base_type": "int", "min": 0},
        {"kind": "NamedSequenceType", "name": "a", "qname": "b"},
    ]
    if ctx.driver_ok:
        outs = driver_batch([{"op": "type", "d": b} for b in bad])
        for b, out in zip(bad, outs):
            impl = safe(lambda: T.AbstractType.from_dict(b))
            rep.bump("malformed", impl[1] if impl[0] == "exc" else "ok")
            rep.evaluations += 1
            if out.get("err") == "unsupported":
                continue
            model = ("ok",) if out.get("ok") else ("exc", out.get("err"))
            impl_c = ("ok",) if impl[0] == "ok" else impl
            ctx.rep.disagreements_checked += 1
            if model != impl_c:
                ctx.disagree("S-T/from_dict-malformed", {"dict": b}, model, impl_c)

    # ---- pairs: symmetry, eq => hash, order-insensitivity
    enum_terms = leaves + lvl1
    pairs = []
    if tier == "quick":
        sub = leaves + rng.sample(lvl1, min(len(lvl1), 110))
        pairs += list(itertools.product(sub, sub))
        pairs += [(rng.choice(enum_terms), rng.choice(enum_terms)) for _ in range(15000)]
    else:
        sub = leaves + rng.sample(lvl1, min(len(lvl1), 600))
        pairs += list(itertools.product(sub, sub))
    pairs += [(rng.choice(rand), rng.choice(rand)) for _ in range(2000 if tier == "quick" else 20000)]
    variants = [(t, g.variant(t)) for t in (lvl1[:: 3 if tier == "quick" else 1] + rand)]
    pairs += variants
    n_var = len(variants)
    reqs, metas = [], []
    for idx, (a, b) in enumerate(pairs):
        is_variant = idx >= len(pairs) - n_var
        e1, e2 = safe(lambda: a == b), safe(lambda: b == a)
        h = safe(lambda: hash(a) == hash(b))
        da, db = canon(a.to_dict()), canon(b.to_dict())
        fail = None
        if e1[0] != "ok" or e2[0] != "ok" or h[0] != "ok":
            fail = f"==/hash raised: {e1} {e2} {h}"
        elif e1[1] != e2[1]:
            fail = f"equality not symmetric: a==b is {e1[1]}, b==a is {e2[1]}"
        elif e1[1] and not h[1]:
            fail = "a == b but hash(a) != hash(b)"
        elif is_variant and not e1[1]:
            fail = "order/spelling variant is not equal to the original"
        rep.evaluations += 1
        if e1 == ("ok", True) and da != db:
            rep.nontrivial.add(("eqpair", jkey(da), jkey(db)))
        rep.bump("pairs", "equal" if e1 == ("ok", True) else "unequal")
        if is_variant:
            rep.sample({"a": da, "b": db, "eq": e1[1] if e1[0] == "ok" else e1}, limit=7)
        if fail:
            ctx.oracle_failure("C19", fail, {"stage": "S-T", "case": "pair", "a": da, "b": db})
        reqs.append({"op": "eq", "a": da, "b": db})
        metas.append((da, db, e1, e2, h))
    if ctx.driver_ok:
        hash_rev = 0
        for (da, db, e1, e2, h), out in zip(metas, driver_batch(reqs)):
            ctx.rep.disagreements_checked += 1
            if not out.get("ok"):
                ctx.disagree("S-T/eq-parse", {"a": da, "b": db}, out, "ok")
                continue
            if e1[0] == "ok" and out["eq"] != e1[1]:
                ctx.disagree("S-T/eq", {"a": da, "b": db}, out["eq"], e1[1])
            elif e2[0] == "ok" and out["eqr"] != e2[1]:
                ctx.disagree("S-T/eq-reversed", {"a": da, "b": db}, out["eqr"], e2[1])
            elif h[0] == "ok" and out["hashEq"] and not h[1]:
                ctx.disagree("S-T/hashKey-equal-but-hash-differs", {"a": da, "b": db}, True, False)
            elif h[0] == "ok" and h[1] and not out["hashEq"]:
                hash_rev += 1
        rep.extra["hash_equal_but_hashKey_differs"] = hash_rev
    if tier == "thorough":
        rep.extra["pairs_exhaustive_over_terms"] = len(sub)
