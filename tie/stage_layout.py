"""S-L — output layout with a source directory that is NOT itself the package (C10): the package lies below a plain
directory, next to deeper decoy packages; the API inventory must be named after the requested source directory, every
file must lie inside the requested output directory, and the stubs must be laid out by module path."""
from __future__ import annotations

import multiprocessing as mp
import os
import random
import shutil
import time
from pathlib import Path

import e2e
from common import pool_results
import implrun
import pkggen
import stubparse

_IMPL = None


def _impl():
    global _IMPL
    if _IMPL is None:
        _IMPL = implrun.load()
    return _IMPL


def one_case(seed):
    rng = random.Random(seed)
    style = rng.choice(["plaintext", "numpydoc", "google", "rest"])
    pkg = pkggen.PkgGen(rng, style=style, private_rate=0.3).package()
    files = pkggen.render(pkg)
    src_name = rng.choice(["code", "sources", "my_src", "lib_dir"])
    depth = rng.choice([1, 2])
    prefix = f"{src_name}/" + "".join(f"d{i}/" for i in range(depth))
    files = {prefix + p: t for p, t in files.items()}
    files[f"{src_name}/zz_bench/perf/deep/suite/__init__.py"] = ""
    files[f"{src_name}/zz_bench/perf/deep/suite/cases.py"] = "def zz_case(n: int) -> int:\n    return n\n"
    top = implrun.WORK / f"sl_{os.getpid()}_{seed}"
    out = {"seed": seed, "fails": [], "n_files": 0}
    opts = {"style": style, "convert": rng.random() < 0.5}
    try:
        e2e.write_pkg(files, top / "src")
        before = {p for p in top.rglob("*") if p.is_file()}
        if seed % 3 == 0:
            # the output directory as a RELATIVE path (library callers; the CLI resolves `-o` itself)
            cwd = os.getcwd()
            os.chdir(top)
            try:
                res = e2e.run_tool(_impl(), top / "src" / src_name, Path("out"), out_as_given=True, **opts)
            finally:
                os.chdir(cwd)
            base_extra = {"output_directory": "relative ('out', cwd = the directory above)"}
        else:
            res = e2e.run_tool(_impl(), top / "src" / src_name, top / "out", **opts)
            base_extra = {}
        after = {p for p in top.rglob("*") if p.is_file()}
        out["n_files"] = len(res["files"])
        base = {"stage": "S-L", "seed": seed, "options": opts, "source_directory": src_name, **base_extra}
        if res["outcome"] != "ok":
            return out
        api_files = [p for p in res["files"] if p.endswith("__api.json")]
        if api_files != [f"{src_name}__api.json"]:
            out["fails"].append(("C10", f"API inventory written to {api_files}, expected '{src_name}__api.json' (the name of the "
                                        f"requested source directory)", {**base, "api_files": api_files}))
        stray = sorted(str(p.relative_to(top)) for p in after - before if not str(p).startswith(str(top / "out") + os.sep))
        if stray:
            out["fails"].append(("C10", f"files written outside the requested output directory: {stray[:3]}", {**base, "stray": stray[:5]}))
        for path, text in res["files"].items():
            if not path.endswith(".sdsstub"):
                continue
            try:
                sf, _ = stubparse.parse(text, lenient=True)
            except stubparse.StubSyntaxError:
                continue
            parts = path.split("/")
            if parts[:-1] != sf.pymodule.split("."):
                out["fails"].append(("C10", f"stub at {path!r} announces python module {sf.pymodule!r}", {**base, "path": path}))
            if parts[-1].startswith("_"):
                out["fails"].append(("C10", f"stub file name {parts[-1]!r}", {**base, "path": path}))
    finally:
        shutil.rmtree(top, ignore_errors=True)
    return out


def run(ctx) -> None:
    rep = ctx.rep
    n = {"quick": 12, "thorough": 150}[ctx.tier]
    rng = random.Random(ctx.seed * 31337 + 9)
    tasks = [rng.randrange(1 << 40) for _ in range(n)]
    rep.rule = (rep.rule + " | " if rep.rule else "") + (
        "S-L: generated packages placed one or two levels below a plain source directory (next to a deeper decoy package), the "
        "tool run on that directory: name of the API inventory, no file outside the output directory, stub paths = announced "
        "module paths; non-trivial = >= 3 files written; distinct by generator seed")
    implrun.WORK.mkdir(exist_ok=True)
    with mp.get_context("fork").Pool(min(12, os.cpu_count() or 4)) as pool:
        for r in pool_results(pool, one_case, tasks, ctx.deadline):
            if time.time() > ctx.deadline:
                pool.terminate()
                break
            rep.evaluations += 1
            if r["n_files"] >= 3:
                rep.nontrivial.add(r["seed"])
            for p, what, replay in r["fails"]:
                ctx.oracle_failure(p, what, replay)
