"""S-D (docstring part) — Model/Doc.lean against the real DocstringParser on real griffe trees:
random query sequences (so that the one-entry cache is hit, missed and bypassed in every order),
every returned record compared; C13 oracle: an answer never depends on the queries before it."""
from __future__ import annotations

import random
import shutil
import sys
from pathlib import Path

import e2e
import griffe_extract
import implrun
import pkggen
from apijson import canon
from common import REPO, driver_batch


def rec(x):
    """canonical JSON of a docstring record returned by the implementation"""
    if isinstance(x, list):
        return [rec(y) for y in x]
    d = {}
    for k in ("description", "full_docstring", "examples", "default_value", "name"):
        if hasattr(x, k):
            d[k] = getattr(x, k)
    if hasattr(x, "type"):
        d["type"] = None if x.type is None else canon(x.type.to_dict())
    return d


def ask(parser, q):
    F = type("N", (), {})
    if q["q"] == "class":
        n = F(); n.fullname = q["fullname"]
        return rec(parser.get_class_documentation(n))
    if q["q"] == "function":
        n = F(); n.fullname = q["fullname"]
        return rec(parser.get_function_documentation(n))
    if q["q"] == "parameter":
        return rec(parser.get_parameter_documentation(q["function"], q["name"], q["parent"]))
    if q["q"] == "attribute":
        return rec(parser.get_attribute_documentation(q["parent"], q["name"]))
    return rec(parser.get_result_documentation(q["function"]))


def normalise_model(a):
    if isinstance(a, list):
        return [normalise_model(x) for x in a]
    if isinstance(a, dict) and "type" in a and a["type"] is not None:
        a = dict(a)
        a["type"] = canon(a["type"])
    return a


def make_queries(rng, names, param_names, n):
    qs = []
    funcs = [x for x in names if x[0] == "function"]
    classes = [x for x in names if x[0] == "class"]
    attrs = [x for x in names if x[0] == "attribute"]
    for _ in range(n):
        k = rng.randrange(10)
        if k < 2 and classes:
            qs.append({"q": "class", "fullname": rng.choice(classes)[1]})
        elif k < 4 and funcs:
            qs.append({"q": "function", "fullname": rng.choice(funcs)[1]})
        elif k < 7 and funcs:
            f = rng.choice(funcs)
            parent = f[2].replace(".", "/") if rng.random() < 0.9 else ""
            qs.append({"q": "parameter", "function": f[1], "name": rng.choice(param_names), "parent": parent})
        elif k < 8 and (attrs or classes):
            if attrs and rng.random() < 0.7:
                a = rng.choice(attrs)
                if a[2]:
                    qs.append({"q": "attribute", "parent": a[2].replace(".", "/"), "name": a[1].rsplit(".", 1)[1]})
                    continue
            if classes:
                qs.append({"q": "attribute", "parent": rng.choice(classes)[1].replace(".", "/"), "name": rng.choice(param_names)})
        elif funcs:
            qs.append({"q": "result", "function": rng.choice(funcs)[1]})
    # bursts about one class, the way the analyser asks: the class, its constructor, its attributes
    # (documented and undocumented ones, in any order), its methods and their parameters
    for _ in range(max(1, n // 10)):
        if not classes:
            break
        c = rng.choice(classes)[1]
        cid = c.replace(".", "/")
        burst = [{"q": "class", "fullname": c}, {"q": "function", "fullname": c + ".__init__"}]
        own_attrs = [a[1].rsplit(".", 1)[1] for a in attrs if a[2] == c]
        for an in own_attrs + rng.sample(param_names, 3):
            burst.append({"q": "attribute", "parent": cid, "name": an})
        for pn in rng.sample(param_names, 3):
            burst.append({"q": "parameter", "function": c + ".__init__", "name": pn, "parent": cid})
        for f in [x for x in funcs if x[2] == c][:3]:
            burst.append({"q": "function", "fullname": f[1]})
            burst.append({"q": "parameter", "function": f[1], "name": rng.choice(param_names), "parent": cid})
            burst.append({"q": "result", "function": f[1]})
        rng.shuffle(burst)
        at = rng.randrange(len(qs) + 1)
        qs[at:at] = burst
    # repeat some queries right after each other (cache hits) and revisit earlier ones
    out = []
    for q in qs:
        out.append(q)
        if rng.random() < 0.3:
            out.append(dict(q))
        if rng.random() < 0.15 and out:
            out.append(dict(rng.choice(out)))
    return out


def trees(ctx, impl, rng, base: Path):
    """(label, package dir, style) — the repo's docstring test package and generated packages"""
    D = impl.doc.DocstringStyle
    repo_pkg = REPO / "tests/data/docstring_parser_package"
    if repo_pkg.exists():
        for st in ("numpydoc", "google", "rest"):
            yield (f"repo:docstring_parser_package:{st}", repo_pkg, st)
    n = 6 if ctx.tier == "quick" else 60
    for i in range(n):
        seed = rng.randrange(1 << 40)
        st = rng.choice(["numpydoc", "google", "rest"])
        g = pkggen.PkgGen(random.Random(seed), style=st, docs=0.9, doc_types="mixed", kw_rate=0.0, reexports=False)
        pkg = g.package()
        top = base / f"g{i}"
        e2e.write_pkg(pkggen.render(pkg), top)
        yield (f"generated#{seed}:{st}", top / pkg["root"], st)


def run(ctx) -> None:
    rep = ctx.rep
    impl = implrun.load()
    from griffe.enumerations import Parser
    import importlib
    dp = importlib.import_module("safeds_stubgen.docstring_parsing._docstring_parser")
    rng = random.Random(ctx.seed * 7907 + 11)
    rule = ("S-D/docstrings: real griffe trees (the repo's docstring test package and generated packages with "
            "numpydoc/google/reST docstrings carrying types) x random sequences of the five documentation queries, "
            "with immediate repetitions and revisits so that the one-entry cache is hit, missed and bypassed "
            "(__init__); non-trivial = a sequence of >= 20 queries that touches >= 3 different nodes; distinct by "
            "(tree, sequence seed)")
    rep.rule = (rep.rule + " | " if rep.rule else "") + rule
    base = implrun.tmp_out("sdoc")
    reqs, metas = [], []
    saved = list(sys.path)
    try:
        import time
        for label, pkgdir, st in trees(ctx, impl, rng, base):
            if time.time() > ctx.deadline:
                break
            parser_kind = {"numpydoc": Parser.numpy, "google": Parser.google, "rest": Parser.sphinx}[st]
            sys.path[:] = [p for p in saved if p not in ("", ".") and not str(pkgdir.resolve()).startswith(p.rstrip("/") + "/")]
            try:
                parser = dp.DocstringParser(parser_kind, pkgdir.resolve())
            finally:
                sys.path[:] = saved
            root = parser.griffe_build
            tree = griffe_extract.node(root, st == "numpydoc", st == "google")
            names = griffe_extract.qnames(root)
            pnames = sorted({p.name for _, q, _ in names if _ == "function" for p in []} | {"x", "y", "value", "max_depth", "n_jobs",
                            "alpha", "data_set", "flag", "name", "count", "opt_z", "self", "p", "a", "b", "args", "kwargs",
                            "no_type_no_default", "type_no_default", "optional_unknown_default", "grouped_parameter_1"})
            n_seq = 4 if ctx.tier == "quick" else 20
            for k in range(n_seq):
                qs = make_queries(rng, names, pnames, 30)
                # ---- implementation: one parser object for the whole sequence (this is what carries the cache)
                parser._DocstringParser__cached_node = None
                parser._DocstringParser__cached_docstring = None
                impl_answers = []
                for q in qs:
                    try:
                        impl_answers.append(ask(parser, q))
                    except Exception as e:  # noqa: BLE001
                        impl_answers.append({"err": type(e).__name__})
                        break
                # ---- C13 oracle on the implementation: each answer equals the answer of a fresh parser state
                for i, q in enumerate(qs[: len(impl_answers)]):
                    if "err" in (impl_answers[i] if isinstance(impl_answers[i], dict) else {}):
                        break
                    parser._DocstringParser__cached_node = None
                    parser._DocstringParser__cached_docstring = None
                    try:
                        fresh = ask(parser, q)
                    except Exception as e:  # noqa: BLE001
                        fresh = {"err": type(e).__name__}
                    if fresh != impl_answers[i]:
                        ctx.oracle_failure("C13", f"answer to {q} depends on the queries before it",
                                           {"stage": "S-D", "tree": label, "query": q, "position": i,
                                            "in_sequence": impl_answers[i], "fresh": fresh, "previous": qs[max(0, i - 2):i]})
                rep.evaluations += len(impl_answers)
                touched = {q.get("fullname") or q.get("function") or q.get("parent") for q in qs}
                if len(qs) >= 20 and len(touched) >= 3:
                    rep.nontrivial.add((label, k))
                for q in qs:
                    rep.bump("doc_queries", q["q"])
                rep.sample({"tree": label, "queries": qs[:4], "answers": impl_answers[:2]}, limit=2)
                reqs.append({"op": "doc", "tree": tree, "style": {"numpydoc": "numpy", "google": "google", "rest": "rest"}[st],
                             "queries": qs})
                metas.append((label, k, qs, impl_answers))
        if ctx.driver_ok:
            for (label, k, qs, ia), m in zip(metas, driver_batch(reqs)):
                ma = [normalise_model(a) for a in m["answers"]]
                rep.disagreements_checked += len(ia)
                for i, (a, b) in enumerate(zip(ia, ma)):
                    if isinstance(a, dict) and "err" in a and isinstance(b, dict) and "err" in b:
                        if a["err"] != b["err"]:
                            ctx.disagree("S-D/doc-error-kind", {"tree": label, "query": qs[i]}, b, a)
                        break
                    if a != b:
                        ctx.disagree("S-D/doc-answer", {"tree": label, "query": qs[i], "position": i}, b, a)
                        break
                if len(ia) != len(ma):
                    ctx.disagree("S-D/doc-sequence-length", {"tree": label, "seq": k}, len(ma), len(ia))
    finally:
        sys.path[:] = saved
        shutil.rmtree(base, ignore_errors=True)
