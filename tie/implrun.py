"""Running the implementation in-process from /repo's working tree."""
from __future__ import annotations

import importlib
import logging
import os
import shutil
import sys
from pathlib import Path

from common import REPO, WORK


def load():
    src = str(REPO / "src")
    if src not in sys.path:
        sys.path.insert(0, src)
    logging.disable(logging.CRITICAL)
    # logging.warning() on a root logger without handlers calls basicConfig(), which would print to stderr
    if not logging.getLogger().handlers:
        logging.getLogger().addHandler(logging.NullHandler())
    m = type("Impl", (), {})()
    m.analyzer = importlib.import_module("safeds_stubgen.api_analyzer")
    m.api_mod = importlib.import_module("safeds_stubgen.api_analyzer._api")
    m.types = importlib.import_module("safeds_stubgen.api_analyzer._types")
    m.stubs = importlib.import_module("safeds_stubgen.stubs_generator")
    m.gen_mod = importlib.import_module("safeds_stubgen.stubs_generator._stub_string_generator")
    m.files_mod = importlib.import_module("safeds_stubgen.stubs_generator._generate_stubs")
    m.helper = importlib.import_module("safeds_stubgen.stubs_generator._helper")
    m.doc = importlib.import_module("safeds_stubgen.docstring_parsing")
    m.cli = importlib.import_module("safeds_stubgen.api_analyzer.cli._cli")
    return m


def read_tree(root: Path) -> dict[str, str]:
    out = {}
    for p in sorted(root.rglob("*")):
        if p.is_file():
            out[str(p.relative_to(root))] = p.read_bytes().decode("utf-8")
    return out


def generate(impl, api, safe: bool, out: Path, twice: bool = False):
    """StubsStringGenerator + generate_stub_data + create_stub_files into `out`.
    Returns ("ok", stubs_data, outside, files) or ("exc", type name, innermost safeds frame)."""
    try:
        g = impl.stubs.StubsStringGenerator(api=api, convert_identifiers=safe)
        data = impl.stubs.generate_stub_data(stubs_generator=g, out_path=out)
        impl.stubs.create_stub_files(stubs_generator=g, stubs_data=data, out_path=out)
        stubs = [{"dir": os.path.relpath(str(d), str(out)).replace(os.sep, "/"), "name": n, "text": t, "pkg": p}
                 for d, n, t, p in data]
        for s in stubs:
            if s["dir"] == ".":
                s["dir"] = ""
        return ("ok", stubs, sorted(g.classes_outside_package), read_tree(out))
    except Exception as e:  # noqa: BLE001
        import traceback
        frames = [f for f in traceback.extract_tb(e.__traceback__) if "safeds_stubgen" in f.filename]
        site = f"{Path(frames[-1].filename).name}:{frames[-1].lineno}" if frames else "?"
        return ("exc", type(e).__name__, site)


def tmp_out(name: str) -> Path:
    d = WORK / f"{name}_{os.getpid()}"
    if d.exists():
        shutil.rmtree(d)
    d.mkdir(parents=True)
    return d
