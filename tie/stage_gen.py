"""S-B — correspondence of the generator model (Model/Gen.lean, Model/Files.lean) with
stubs_generator/*: synthetic API objects (tie/apigen.py) and the APIs the analyser produces for the
repo's own test packages, both naming settings; byte equality of every produced file, of the
stub-data list and of the set of placeholder classes.  Property oracles (tie/oracles_gen.py) are
evaluated on the implementation's output of every case."""
from __future__ import annotations

import copy
import json
import random
import shutil
from pathlib import Path

import apigen
import apijson
import implrun
from common import REPO, driver_batch


def first_diff(a: str, b: str) -> str:
    if a is None or b is None:
        return "missing on one side"
    for i, (x, y) in enumerate(zip(a, b)):
        if x != y:
            return f"at {i}: impl …{a[max(0, i - 40):i + 40]!r} / model …{b[max(0, i - 40):i + 40]!r}"
    return f"length {len(a)} vs {len(b)}"


def cases(ctx, impl, rng):
    """yield (label, api_factory) — a factory, because generation may mutate the API object"""
    n = 120 if ctx.tier == "quick" else 1500
    for i in range(n):
        seed = rng.randrange(1 << 60)
        yield (f"synthetic#{seed}", seed)


def shuffled_sets(j, label):
    """the re-export map is a dict of *sets* of modules: the model gets the entries and each set in an order of
    the harness' choosing (its result must not depend on it: Theorems/C08 shortestPublicReexport_perm)"""
    r = random.Random(hash(label) & 0xFFFFFFF if False else sum(map(ord, label)))
    rm = [{"key": kv["key"], "modules": r.sample(kv["modules"], len(kv["modules"]))} for kv in j["reexport_map"]]
    r.shuffle(rm)
    return {**j, "reexport_map": rm}


def build(impl, seed):
    g = apigen.ApiGen(impl, random.Random(seed), keyword_rate=random.Random(seed + 1).choice([0.0, 0.1, 0.3]))
    return g.api(), g.features


def run(ctx) -> None:
    rep = ctx.rep
    impl = implrun.load()
    rng = random.Random(ctx.seed * 15485863 + 3)
    rule = ("S-B: synthetic API objects (1-5 packages, modules, classes with attributes/constructors/methods/"
            "properties/nested classes/private and public superclasses/type parameters, functions with all five "
            "parameter kinds, defaults, results, docstrings, enums, __init__ reexports by name/alias/star/module) and "
            "the analysed repo test packages, x naming flag; non-trivial = the output has >= 2 stub files and >= 1 "
            "class; distinct by generator seed")
    rep.rule = (rep.rule + " | " if rep.rule else "") + rule
    import oracles_gen
    todo = []
    import time
    for label, seed in cases(ctx, impl, rng):
        if time.time() > ctx.deadline:
            break
        pair = {}
        for safe in (False, True):
            api, feats = build(impl, seed)
            j = apijson.api(api)
            before = json.dumps(apijson.canon(api.to_dict()), sort_keys=True, default=str)
            out = implrun.tmp_out("sb")
            r = implrun.generate(impl, api, safe, out)
            after = json.dumps(apijson.canon(api.to_dict()), sort_keys=True, default=str)
            r2 = None
            if ctx.prop == "C16" and r[0] == "ok":
                # C16: a second run into the same, now populated, directory (fresh generator, as the CLI does)
                api2, _ = build(impl, seed)
                r2 = implrun.generate(impl, api2, safe, out)
                if r2[0] != "ok":
                    ctx.oracle_failure("C16", f"second run into the same directory raised {r2[1]} at {r2[2]}", {"stage": "S-B", "case": label, "safe": safe})
                elif r2[3] != r[3]:
                    bad = [p for p in sorted(set(r[3]) | set(r2[3])) if r[3].get(p) != r2[3].get(p)]
                    ctx.oracle_failure("C16", f"a second run into the same output directory changed {bad[:3]}",
                                       {"stage": "S-B", "case": label, "safe": safe, "paths": bad[:5],
                                        "first": {p: r[3].get(p) for p in bad[:2]}, "second": {p: r2[3].get(p) for p in bad[:2]}})
            if ctx.prop == "C16" and r[0] == "ok":
                # C16: a second generation from the SAME API object (fresh generator, fresh directory): same files
                out3 = implrun.tmp_out("sb3")
                r3 = implrun.generate(impl, api, safe, out3)
                shutil.rmtree(out3, ignore_errors=True)
                if r3[0] != "ok":
                    ctx.oracle_failure("C16", f"a second generation from the same API object raised {r3[1]} at {r3[2]}",
                                       {"stage": "S-B", "case": label, "safe": safe})
                elif r3[3] != r[3]:
                    bad = [p for p in sorted(set(r[3]) | set(r3[3])) if r[3].get(p) != r3[3].get(p)]
                    ctx.oracle_failure("C16", f"a second generation from the same API object differs from the first in {bad[:3]}",
                                       {"stage": "S-B", "case": label, "safe": safe, "paths": bad[:5],
                                        "aliased_reexport": any(q.get("alias") for m in j["modules"] for q in m.get("qualified_imports", [])),
                                        "first": {p: r[3].get(p) for p in bad[:1]}, "second": {p: r3[3].get(p) for p in bad[:1]}})
            shutil.rmtree(out, ignore_errors=True)
            for k, v in feats.items():
                rep.bump("features", k, v)
            rep.evaluations += 1
            rep.bump("outcome", "ok" if r[0] == "ok" else f"{r[1]}@{r[2]}")
            if r[0] == "ok" and len(r[3]) >= 2 and any("class " in t for t in r[3].values()):
                rep.nontrivial.add((seed, safe))
            rep.sample({"case": label, "safe": safe, "files": sorted(r[3])[:6] if r[0] == "ok" else r[1:],
                        "features": dict(list(feats.items())[:8])}, limit=3)
            oracles_gen.check(ctx, impl, label, safe, api, j, r, before, after)
            todo.append((label, safe, j, r, r2))
            pair[safe] = r
        oracles_gen.check_flag_pair(ctx, label, pair[False], pair[True])
    if not ctx.driver_ok:
        return
    CH = 40
    for i in range(0, len(todo), CH):
        chunk = todo[i:i + CH]
        outs = driver_batch([{"op": "gen", "api": shuffled_sets(j, label), "safe": safe} for label, safe, j, _, _ in chunk])
        second = [(k, c) for k, c in enumerate(chunk) if c[4] is not None and c[4][0] == "ok" and c[3][0] == "ok"]
        outs2 = driver_batch([{"op": "gen", "api": c[2], "safe": c[1], "preexisting": sorted(c[3][3])} for _, c in second])
        for (k, c), m2 in zip(second, outs2):
            # the model's write log applied on top of the first run's files must give the implementation's second tree
            rep.disagreements_checked += 1
            if not m2.get("ok"):
                ctx.disagree("S-B/second-run-outcome", {"case": c[0], "safe": c[1]}, m2.get("err"), "ok")
                continue
            tree = dict(c[3][3])
            for op in m2["ops"]:
                tree[op["path"]] = op["text"] if op["mode"] == "w" else tree.get(op["path"], "") + op["text"]
            if tree != c[4][3]:
                bad = [p for p in sorted(set(tree) | set(c[4][3])) if tree.get(p) != c[4][3].get(p)]
                ctx.disagree("S-B/second-run-files", {"case": c[0], "safe": c[1], "paths": bad[:4]},
                             {p: tree.get(p) for p in bad[:1]}, {p: c[4][3].get(p) for p in bad[:1]})
        for (label, safe, j, r, _r2), m in zip(chunk, outs):
            rep.disagreements_checked += 1
            inp = {"case": label, "safe": safe}
            if r[0] != "ok" or not m.get("ok"):
                mi = ("ok",) if m.get("ok") else ("exc", m.get("err"))
                ii = ("ok",) if r[0] == "ok" else ("exc", r[1])
                if m.get("err") == "unsupported":
                    rep.bump("outcome", "model-unsupported")
                elif mi != ii:
                    ctx.disagree("S-B/outcome", inp, mi, ii + ((r[2],) if r[0] != "ok" else ()))
                continue
            stubs_i = [(s["dir"], s["name"], s["text"], s["pkg"]) for s in r[1]]
            stubs_m = [(s["dir"], s["name"], s["text"], s["pkg"]) for s in m["stubs"]]
            files_m = dict(m["files"])
            if [(a, b, d) for a, b, _, d in stubs_i] != [(a, b, d) for a, b, _, d in stubs_m]:
                ctx.disagree("S-B/stub-data-list", inp, [(a, b, d) for a, b, _, d in stubs_m],
                             [(a, b, d) for a, b, _, d in stubs_i])
            elif stubs_i != stubs_m:
                k = next(k for k in range(len(stubs_i)) if stubs_i[k] != stubs_m[k])
                ctx.disagree("S-B/stub-text", {**inp, "stub": stubs_i[k][:2]}, stubs_m[k][2], stubs_i[k][2])
                rep.extra.setdefault("first_text_diff", first_diff(stubs_i[k][2], stubs_m[k][2]))
            elif r[2] != m["outside"]:
                ctx.disagree("S-B/classes-outside-package", inp, m["outside"], r[2])
            elif r[3] != files_m:
                bad = [p for p in sorted(set(r[3]) | set(files_m)) if r[3].get(p) != files_m.get(p)]
                ctx.disagree("S-B/files", {**inp, "paths": bad[:4]}, {p: files_m.get(p) for p in bad[:2]},
                             {p: r[3].get(p) for p in bad[:2]})
            else:
                rep.bump("outcome", "byte_exact")


def run_repo_packages(ctx) -> None:
    """the analysed test packages of the repository as generator inputs"""
    rep = ctx.rep
    impl = implrun.load()
    D = impl.doc.DocstringStyle
    import oracles_gen
    pk = [("various_modules_package", D.PLAINTEXT), ("docstring_parser_package", D.NUMPYDOC),
          ("docstring_parser_package", D.GOOGLE), ("docstring_parser_package", D.REST), ("main_package", D.PLAINTEXT)]
    reqs, metas = [], []
    for pkg, style in pk:
        root = REPO / "tests/data" / pkg
        if not root.exists():
            continue
        for safe in (False, True):
            try:
                api = impl.analyzer.get_api(root, style, True)
            except Exception as e:  # noqa: BLE001
                rep.assumption_failures.append(f"get_api({pkg}) raised {type(e).__name__}")
                continue
            j = apijson.api(api)
            before = json.dumps(apijson.canon(api.to_dict()), sort_keys=True, default=str)
            out = implrun.tmp_out("sbp")
            r = implrun.generate(impl, api, safe, out)
            shutil.rmtree(out, ignore_errors=True)
            after = json.dumps(apijson.canon(api.to_dict()), sort_keys=True, default=str)
            rep.evaluations += 1
            if r[0] == "ok":
                rep.nontrivial.add((pkg, style.name, safe))
            oracles_gen.check(ctx, impl, f"{pkg}:{style.name}", safe, api, j, r, before, after)
            reqs.append({"op": "gen", "api": j, "safe": safe})
            metas.append((pkg, style.name, safe, r))
    if ctx.driver_ok:
        for (pkg, style, safe, r), m in zip(metas, driver_batch(reqs)):
            rep.disagreements_checked += 1
            inp = {"case": f"repo:{pkg}:{style}", "safe": safe}
            if r[0] != "ok" or not m.get("ok"):
                if (r[0] == "ok") != bool(m.get("ok")):
                    ctx.disagree("S-B/outcome", inp, m.get("err", "ok"), r[:3] if r[0] != "ok" else "ok")
                continue
            if r[3] != dict(m["files"]):
                fm = dict(m["files"])
                bad = [p for p in sorted(set(r[3]) | set(fm)) if r[3].get(p) != fm.get(p)]
                ctx.disagree("S-B/files", {**inp, "paths": bad[:4]}, {p: fm.get(p) for p in bad[:1]},
                             {p: r[3].get(p) for p in bad[:1]})
            else:
                rep.bump("outcome", "byte_exact_repo_package")
