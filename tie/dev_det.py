"""Development aid: rerun one S-R case, keep the directory, print the diff.  python dev_det.py SEED K"""
import sys, os, random, json, subprocess
sys.path.insert(0, os.path.dirname(os.path.abspath(__file__)))
import stage_det, shutil
seed, k = int(sys.argv[1]), int(sys.argv[2])
_rm = shutil.rmtree
shutil.rmtree = lambda *a, **kw: None
r = stage_det.one_case((seed, k))
shutil.rmtree = _rm
for p, what, replay in r["fails"]:
    print(what); print(json.dumps({k_: v for k_, v in replay.items() if k_ != "sources"}, indent=1))
print(r["outcomes"], [d for d in os.listdir(stage_det.implrun.WORK) if str(seed) in d])
