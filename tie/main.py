"""Check runner:  ./check Cnn [--tier quick|thorough] [--replay file]

 1. T1/T2: regenerate lean/StubGen/Generated/*.lean from /repo's working tree
 2. lake build (model, proofs, obligations, driver)
 3. audit: forbidden tokens, #print axioms of the property's theorems (thorough: leanchecker)
 4. stages: correspondence model <-> implementation, property oracles on the implementation
 5. evidence/Cnn.json, exit code
"""
from __future__ import annotations

import argparse
import json
import os
import sys
import time
import traceback

sys.path.insert(0, os.path.dirname(os.path.abspath(__file__)))

import common  # noqa: E402
from common import ALLOWED_AXIOMS, Report  # noqa: E402


class Ctx:
    def __init__(self, rep: Report, prop: str, tier: str, driver_ok: bool):
        self.rep = rep
        self.prop = prop
        self.tier = tier
        self.seed = common.seed()
        self.driver_ok = driver_ok
        self.disagreements: list[dict] = []
        self.findings = [f for f in common.load_findings() if f.get("status") == "known"]
        self.deadline = time.time() + (600 if tier == "quick" else 3300)

    def oracle_failure(self, prop: str, what: str, replay: dict) -> None:
        """The property predicate is false on the implementation's behaviour for this input."""
        if prop != self.prop:
            return
        import classifiers
        for f in self.findings:
            if f["property"] == prop and classifiers.matches(f, what, replay):
                self.rep.known_finding(f"{f['id']}: {f['failure']}")
                return
        if len(self.rep.violations) < 20:
            self.rep.violation(what, replay, True)

    def disagree(self, name: str, inp, model, impl) -> None:
        self.rep.bump("disagreements", name)
        if len(self.disagreements) < 20:
            self.disagreements.append({"correspondence": name, "input": inp, "model": model, "impl": impl})


def run_check(prop: str, tier: str) -> int:
    import props
    spec = props.PROPS[prop]
    rep = Report(prop, tier)
    rep.extra["theorems"] = spec["theorems"]
    rep.extra["statement_scope"] = spec.get("scope", "")
    try:
        common.regenerate(rep.log)
    except Exception as e:  # noqa: BLE001
        rep.obligation("T1/T2 table translation", "translator", False, str(e)[:500])
    if prop == "C01":
        # T3: the failure sites of the source against the reviewed inventory the totality theorems account for
        try:
            import sites
            ok3, detail3 = sites.check(common.REPO)
        except Exception as e:  # noqa: BLE001
            ok3, detail3 = False, f"site inventory could not be computed: {e}"
        rep.obligation("T3 failure-site inventory (tie/sites_reviewed.json)", "site inventory", ok3, detail3)
        rep.log("T3: " + detail3)
    build = common.lake_build(spec["modules"] + ["driver"], rep.log)
    hits = common.forbidden_tokens()
    rep.obligation("no sorry/admit/axiom/native_decide/bv_decide/implemented_by/unsafe/maxHeartbeats 0", "audit",
                   not hits, "; ".join(hits[:5]))
    if build.ok:
        ax = common.audit_axioms(spec["theorems"], spec["modules"], rep.log)
        for t in spec["theorems"]:
            a = ax.get(t)
            ok = a is not None and set(a) <= ALLOWED_AXIOMS
            rep.obligation(t, "theorem", ok, "missing" if a is None else "axioms: " + ", ".join(a))
        for m in spec.get("obligation_modules", []):
            rep.obligation(m, "generated-table obligation module", True, "built")
    else:
        for t in spec["theorems"]:
            rep.obligation(t, "theorem", False, "lake build failed: " + ", ".join(build.failed_modules))
        rep.extra["build_log_tail"] = build.log[-3000:]
    if tier == "thorough" and build.ok:
        ok, out = common.leanchecker(spec["modules"], rep.log)
        rep.obligation("leanchecker " + " ".join(spec["modules"]), "kernel re-check", ok, "" if ok else out)

    driver_ok = build.ok and build.driver_ok
    ctx = Ctx(rep, prop, tier, driver_ok)

    def run_stages(c: Ctx) -> None:
        for stage in spec["stages"]:
            try:
                stage(c)
            except Exception:  # noqa: BLE001
                tb = traceback.format_exc()
                rep.log("stage crashed:\n" + tb)
                rep.assumption_failures.append(f"stage {stage.__module__} crashed: {tb[-800:]}")
                rep.extra["stage_crashed"] = True

    run_stages(ctx)
    broken = [o for o in rep.obligations if not o["ok"]]
    if (broken or ctx.disagreements) and not rep.violations and tier == "quick":
        # a proof obligation or a correspondence no longer checks: widen the search for a failing input
        rep.log("obligation/correspondence broken — searching with the thorough budget")
        c2 = Ctx(rep, prop, "thorough", driver_ok)
        c2.deadline = time.time() + 240
        run_stages(c2)
        ctx.disagreements += c2.disagreements
    if not rep.violations:
        if broken:
            rep.violation("proof obligation no longer checks: " + "; ".join(f"{o['name']} ({o['detail'][:200]})" for o in broken[:6]),
                          {"broken_obligations": broken, "disagreements": ctx.disagreements[:5]}, False)
        elif ctx.disagreements:
            d = ctx.disagreements[0]
            rep.violation(f"correspondence {d['correspondence']} no longer checks (model and implementation differ)",
                          {"disagreements": ctx.disagreements[:10]}, False)
    else:
        rep.extra["broken_obligations"] = broken
        rep.extra["disagreements"] = ctx.disagreements[:5]
    if rep.extra.get("stage_crashed") and not rep.violations:
        # the check could not run: not a verdict
        rep.finish()
        return 2
    return rep.finish()


def main() -> None:
    ap = argparse.ArgumentParser()
    ap.add_argument("prop")
    ap.add_argument("--tier", default=os.environ.get("VERIF_TIER", "quick"), choices=["quick", "thorough"])
    ap.add_argument("--replay", default=None)
    a = ap.parse_args()
    if a.replay:
        data = json.loads(open(a.replay).read())
        os.environ["VERIF_SEED"] = str(data.get("seed", 0))
        print(json.dumps(data, indent=1)[:4000])
        sys.exit(run_check(data["property"], data.get("tier", "quick")))
    sys.exit(run_check(a.prop, a.tier))


if __name__ == "__main__":
    main()
