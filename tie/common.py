"""Shared machinery of the check runner: build + audit of the Lean project, the driver
line protocol, evidence files, known findings, violation reporting.

Everything here reads /repo's *working tree* at check time.
"""
from __future__ import annotations

import hashlib
import json
import os
import re
import shutil
import subprocess
import sys
import time
from pathlib import Path

VERIF = Path(__file__).resolve().parent.parent
REPO = Path(os.environ.get("VERIF_REPO", "/repo"))
LEAN = VERIF / "lean"
WORK = VERIF / "work"
EVID = VERIF / "evidence"
REPLAY = VERIF / "replay"
DRIVER = LEAN / ".lake/build/bin/driver"
GUARD = "SAFE_DS_STUBGEN_VERIF"

ALLOWED_AXIOMS = {"propext", "Quot.sound", "Classical.choice"}
FORBIDDEN = re.compile(r"\bsorry\b|\badmit\b|^\s*axiom\s|native_decide|bv_decide|implemented_by|\bunsafe\s|maxHeartbeats\s+0\b")

TRUSTED_BASE = [
    "Lean 4.33.0 kernel and elaborator (thorough tier: leanchecker re-checks the theorem modules)",
    "axioms allowed: propext, Quot.sound, Classical.choice (audited by #print axioms on every run); no sorry/admit/native_decide/bv_decide/own axioms",
    "Lean compiler for the driver executable (correspondence runs compiled model code)",
    "tie machinery: tie/gen_tables.py (T1), tie/tabulate.py (T2), harness + JSON encodings, generators",
    "modelled, not verified: mypy, griffe, pathlib/glob/file I/O, json, inspect.cleandoc, CPython hash() (function of the structural hash key; collisions ignored), argparse",
    "the correspondence between model and /repo is differential sampling (exhaustive only where the evidence says so)",
]


def seed() -> int:
    try:
        return int(os.environ.get("VERIF_SEED", "0"))
    except ValueError:
        return 0


def src_fingerprint() -> str:
    h = hashlib.sha256()
    for p in sorted((REPO / "src").rglob("*.py")):
        h.update(str(p.relative_to(REPO)).encode())
        h.update(p.read_bytes())
    return h.hexdigest()[:16]


def run(cmd, cwd=None, timeout=None, env=None, input_=None):
    e = dict(os.environ)
    if env:
        e.update(env)
    return subprocess.run(cmd, cwd=cwd, timeout=timeout, env=e, input=input_, capture_output=True, text=True)


# --------------------------------------------------------------------------- build

class BuildResult:
    def __init__(self):
        self.ok = True
        self.failed_modules: list[str] = []
        self.log = ""
        self.driver_ok = False
        self.wall = 0.0


def strip_comments(text: str) -> str:
    # remove /- ... -/ (nested not handled beyond one level, good enough) and -- comments
    out = []
    i, depth, n = 0, 0, len(text)
    while i < n:
        if text.startswith("/-", i):
            depth += 1
            i += 2
        elif depth and text.startswith("-/", i):
            depth -= 1
            i += 2
        elif depth:
            if text[i] == "\n":
                out.append("\n")
            i += 1
        elif text.startswith("--", i):
            while i < n and text[i] != "\n":
                i += 1
        elif text[i] == '"':
            # string literal: copy verbatim but blank it (tokens inside strings are not code)
            j = i + 1
            while j < n and text[j] != '"':
                j += 2 if text[j] == "\\" else 1
            out.append('""')
            i = j + 1
        else:
            out.append(text[i])
            i += 1
    return "".join(out)


def forbidden_tokens() -> list[str]:
    hits = []
    for p in sorted(LEAN.rglob("*.lean")):
        if ".lake" in p.parts:
            continue
        code = strip_comments(p.read_text())
        for ln, line in enumerate(code.split("\n"), 1):
            if FORBIDDEN.search(line):
                hits.append(f"{p.relative_to(LEAN)}:{ln}: {line.strip()[:100]}")
    return hits


def regenerate(log) -> None:
    """T1/T2: regenerate Generated/*.lean from /repo's working tree."""
    r = run([sys.executable, str(VERIF / "tie/gen_tables.py"), str(REPO)])
    log(r.stdout.strip())
    if r.returncode != 0:
        raise RuntimeError("T1 failed: " + r.stdout + r.stderr)
    tab = VERIF / "tie/tabulate.py"
    if tab.exists():
        r = run([sys.executable, str(tab), str(REPO)])
        log(r.stdout.strip())
        if r.returncode != 0:
            raise RuntimeError("T2 failed: " + r.stdout + r.stderr)


def lake_build(targets: list[str], log) -> BuildResult:
    res = BuildResult()
    t0 = time.time()
    r = run(["lake", "build", *targets], cwd=LEAN, timeout=3000)
    res.wall = time.time() - t0
    res.log = r.stdout + r.stderr
    if r.returncode != 0:
        res.ok = False
        res.failed_modules = sorted(set(re.findall(r"^- (\S+)$", res.log, re.M)))
        if not res.failed_modules:
            res.failed_modules = sorted(set(re.findall(r"✖ \[\d+/\d+\] Building (\S+)", res.log)))
    res.driver_ok = DRIVER.exists()
    log(f"lake build {' '.join(targets)}: {'ok' if res.ok else 'FAILED ' + str(res.failed_modules)} ({res.wall:.1f}s)")
    return res


def audit_axioms(theorems: list[str], modules: list[str], log) -> dict[str, list[str] | None]:
    """#print axioms for every listed theorem.  Returns name -> axioms (None if the theorem is missing)."""
    if not theorems:
        return {}
    WORK.mkdir(exist_ok=True)
    f = WORK / f"Audit_{os.getpid()}.lean"
    body = "".join(f"import {m}\n" for m in modules) + "".join(f"#print axioms {t}\n" for t in theorems)
    f.write_text(body)
    r = run(["lake", "env", "lean", str(f)], cwd=LEAN, timeout=1200)
    f.unlink(missing_ok=True)
    out = r.stdout + r.stderr
    result: dict[str, list[str] | None] = {t: None for t in theorems}
    for t in theorems:
        m = re.search(r"'" + re.escape(t) + r"' depends on axioms: \[([^\]]*)\]", out, re.S)
        if m:
            result[t] = [a.strip() for a in m.group(1).replace("\n", " ").split(",") if a.strip()]
        elif re.search(r"'" + re.escape(t) + r"' does not depend on any axioms", out):
            result[t] = []
    if any(v is None for v in result.values()):
        log("audit output:\n" + out[-2000:])
    return result


def leanchecker(modules: list[str], log) -> tuple[bool, str]:
    r = run(["lake", "env", "leanchecker", *modules], cwd=LEAN, timeout=3000)
    ok = r.returncode == 0
    log(f"leanchecker {' '.join(modules)}: {'ok' if ok else 'FAILED'}")
    return ok, (r.stdout + r.stderr)[-2000:]


# --------------------------------------------------------------------------- driver

def driver_batch(requests: list[dict]) -> list[dict]:
    """Send all requests to the compiled Lean driver, return the replies (same order)."""
    if not requests:
        return []
    data = "\n".join(json.dumps(r, ensure_ascii=False) for r in requests) + "\n"
    r = subprocess.run([str(DRIVER)], input=data, capture_output=True, text=True, timeout=3000)
    if r.returncode != 0:
        raise RuntimeError(f"driver failed: {r.stderr[:500]}")
    lines = r.stdout.split("\n")
    if lines and lines[-1] == "":
        lines.pop()
    if len(lines) != len(requests):
        raise RuntimeError(f"driver replied {len(lines)} lines for {len(requests)} requests")
    return [json.loads(l) for l in lines]


# --------------------------------------------------------------------------- findings

def load_findings() -> list[dict]:
    p = VERIF / "known_findings.json"
    if not p.exists():
        return []
    return json.loads(p.read_text())["findings"]


# --------------------------------------------------------------------------- reporting

class Report:
    """Collects what one check run did; writes evidence; decides the exit code."""

    def __init__(self, prop: str, tier: str):
        self.prop = prop
        self.tier = tier
        self.t0 = time.time()
        self.lines: list[str] = []
        self.obligations: list[dict] = []          # {name, kind, ok, detail}
        self.evaluations = 0
        self.nontrivial: set = set()
        self.samples: list = []
        self.rule = ""
        self.dist: dict = {}
        self.violations: list[dict] = []            # {what, replay(dict), found_input(bool)}
        self.known: list[str] = []
        self.assumption_failures: list[str] = []
        self.extra: dict = {}
        self.exhaustive = False
        self.disagreements_checked = 0

    def log(self, msg: str) -> None:
        if msg:
            print(f"[{self.prop}] {msg}", flush=True)

    def obligation(self, name: str, kind: str, ok: bool, detail: str = "") -> None:
        self.obligations.append({"name": name, "kind": kind, "ok": ok, "detail": detail})

    def count(self, key, nontrivial_key=None) -> None:
        self.evaluations += 1
        if nontrivial_key is not None:
            self.nontrivial.add(nontrivial_key)

    def bump(self, group: str, key: str, n: int = 1) -> None:
        d = self.dist.setdefault(group, {})
        d[key] = d.get(key, 0) + n

    def sample(self, s, limit: int = 8) -> None:
        if len(self.samples) < limit:
            self.samples.append(s)

    def violation(self, what: str, replay: dict, found_input: bool) -> None:
        self.violations.append({"what": what, "replay": replay, "found_input": found_input})

    def known_finding(self, text: str) -> None:
        if text not in self.known:
            self.known.append(text)

    def finish(self) -> int:
        wall = time.time() - self.t0
        EVID.mkdir(exist_ok=True)
        n_obl = len(self.obligations)
        n_ok = sum(1 for o in self.obligations if o["ok"])
        cov = {
            "obligations": n_obl,
            "discharged": n_ok,
            "obligation_list": self.obligations,
            "checker_cmd": "cd /verif/lean && lake build && lake env lean <Audit: #print axioms …>"
                           + (" && lake env leanchecker <theorem modules>" if self.tier == "thorough" else ""),
            "trusted_base": TRUSTED_BASE,
            "evaluations": self.evaluations,
            "distinct_nontrivial": len(self.nontrivial),
            "rule": self.rule,
            "samples": self.samples[:8] if self.samples else ["<none>"],
            "distribution": self.dist,
            "exhaustive": self.exhaustive,
            "disagreements_checked": self.disagreements_checked,
            "known_findings_reproduced": self.known,
            "assumption_failures": self.assumption_failures[:20],
            "repo_src_fingerprint": src_fingerprint(),
        }
        cov.update(self.extra)
        ev = {
            "property_id": self.prop,
            "tier": self.tier,
            "seed": seed(),
            "level": "proof",
            "coverage": cov,
            "assumptions": TRUSTED_BASE,
            "wall_s": round(wall, 2),
            "violations": len(self.violations),
        }
        (EVID / f"{self.prop}.json").write_text(json.dumps(ev, indent=1, ensure_ascii=False, default=str))
        for k in self.known:
            print(f"KNOWN-FINDING: property={self.prop} {k}", flush=True)
        if self.violations:
            REPLAY.mkdir(exist_ok=True)
            path = REPLAY / f"{self.prop}_{self.tier}_{seed()}.json"
            path.write_text(json.dumps({"property": self.prop, "tier": self.tier, "seed": seed(),
                                        "violations": self.violations}, indent=1, ensure_ascii=False, default=str))
            found = any(v["found_input"] for v in self.violations)
            for v in self.violations[:5]:
                self.log("violation: " + v["what"][:300])
            tail = "" if found else " no-failing-input-found"
            print(f"VIOLATION property={self.prop} replay={path}{tail}", flush=True)
            return 1
        self.log(f"ok: {n_ok}/{n_obl} obligations, {self.evaluations} evaluations, "
                 f"{len(self.nontrivial)} distinct non-trivial, {wall:.1f}s")
        return 0


def fresh_dir(name: str) -> Path:
    WORK.mkdir(exist_ok=True)
    d = WORK / f"{name}_{os.getpid()}"
    if d.exists():
        shutil.rmtree(d)
    d.mkdir(parents=True)
    return d


def pool_results(pool, fn, tasks, deadline, grace: float = 30.0):
    """`pool.imap_unordered(fn, tasks, chunksize=1)` that cannot hang: a worker that dies takes its task with it and the plain
    iterator would wait for ever; here the wait ends `grace` seconds after the stage deadline and the pool is terminated (the
    stage then reports what it has explored so far, like any stage that runs into its deadline)."""
    import multiprocessing
    import time
    it = pool.imap_unordered(fn, tasks, chunksize=1)
    while True:
        try:
            yield it.next(timeout=max(5.0, deadline + grace - time.time()))
        except StopIteration:
            return
        except multiprocessing.TimeoutError:
            pool.terminate()
            return
