#!/usr/bin/env python3
"""T3 — failure-site inventory (C01).

Lists, from the `ast` of /repo's working tree, every place where the tool's own code can raise on purpose: `raise`
statements and `assert`s, keyed by (file, enclosing function, exception class, first words of the message / the asserted
expression).  `tie/sites_reviewed.json` (committed) maps every key to the way the Lean model accounts for it (the `PyErr`
branch of the model function, or the reason it is unreachable from the CLI).  A site in the source that is not in the
reviewed list, or a reviewed site that has disappeared, means that the totality theorems no longer speak about the code
that exists: the obligation `T3 failure-site inventory` is reported as broken and the check searches for a failing input.
"""
from __future__ import annotations

import ast
import json
import sys
from pathlib import Path

HERE = Path(__file__).resolve().parent
REVIEWED = HERE / "sites_reviewed.json"


def inventory(repo: Path) -> list[str]:
    out = []
    src = repo / "src/safeds_stubgen"
    for path in sorted(src.rglob("*.py")):
        tree = ast.parse(path.read_text())
        rel = str(path.relative_to(src))

        def visit(node, scope):
            for child in ast.iter_child_nodes(node):
                sc = scope
                if isinstance(child, (ast.FunctionDef, ast.AsyncFunctionDef, ast.ClassDef)):
                    sc = scope + [child.name]
                if isinstance(child, ast.Raise):
                    exc = child.exc
                    name, msg = "re-raise", ""
                    if isinstance(exc, ast.Call):
                        name = ast.unparse(exc.func)
                        if exc.args:
                            a0 = exc.args[0]
                            msg = a0.value if isinstance(a0, ast.Constant) and isinstance(a0.value, str) else ast.unparse(a0)
                    elif exc is not None:
                        name = ast.unparse(exc)
                    out.append(f"{rel}::{'.'.join(scope) or '<module>'}::raise {name}::{' '.join(str(msg).split())[:60]}")
                elif isinstance(child, ast.Assert):
                    out.append(f"{rel}::{'.'.join(scope) or '<module>'}::assert::{' '.join(ast.unparse(child.test).split())[:60]}")
                visit(child, sc)
        visit(tree, [])
    # several identical sites in one function are told apart by a counter
    seen: dict[str, int] = {}
    keyed = []
    for k in out:
        seen[k] = seen.get(k, 0) + 1
        keyed.append(k if seen[k] == 1 else f"{k}#{seen[k]}")
    return keyed


def check(repo: Path) -> tuple[bool, str]:
    inv = inventory(repo)
    if not REVIEWED.exists():
        return False, "tie/sites_reviewed.json is missing"
    reviewed = json.loads(REVIEWED.read_text())["sites"]
    new = [k for k in inv if k not in reviewed]
    gone = [k for k in reviewed if k not in inv]
    if not new and not gone:
        return True, f"{len(inv)} raise/assert sites, all reviewed"
    return False, (f"{len(new)} site(s) not in the reviewed inventory: {new[:4]}; " if new else "") + \
        (f"{len(gone)} reviewed site(s) no longer in the source: {gone[:4]}" if gone else "")


if __name__ == "__main__":
    repo = Path(sys.argv[1] if len(sys.argv) > 1 else "/repo")
    if len(sys.argv) > 2 and sys.argv[2] == "--list":
        print("\n".join(inventory(repo)))
    else:
        ok, detail = check(repo)
        print(("T3: ok — " if ok else "T3: BROKEN — ") + detail)
        sys.exit(0 if ok else 1)
