#!/bin/bash
# seed_confirm.sh <seed-dir>  — confirm a seeded change independently: patch applies, demo passes without / fails with it,
# the 268 pinned baseline tests pass with it.  Leaves /repo restored.
set -u
SEED="$1"
cd /repo || exit 2
if ! git diff --quiet; then echo "refusing: /repo has uncommitted changes"; exit 2; fi
(cd /tmp && timeout 900 /venv/bin/python "$SEED/demo.py" /repo/src >/dev/null 2>&1); echo "demo_unchanged_exit=$?"
git apply "$SEED/patch.diff" || { echo "patch does not apply"; exit 2; }
trap 'git -C /repo checkout -- . ; echo "/repo restored"' EXIT
(cd /tmp && timeout 900 /venv/bin/python "$SEED/demo.py" /repo/src >/dev/null 2>&1); echo "demo_changed_exit=$?"
/venv/bin/python -m pytest -q -p no:cacheprovider --timeout=900 tests/safeds_stubgen/api_analyzer/test_types.py tests/safeds_stubgen/api_analyzer/test_api.py tests/safeds_stubgen/api_analyzer/test_type_source_enums.py tests/safeds_stubgen/docstring_parsing tests/safeds_stubgen/test_dummy.py "tests/safeds_stubgen/test_main.py::test_main_empty" 2>&1 | tail -1
