"""S-P — correspondence of the WHOLE-TOOL model (Model/Pipeline.lean: root adjustment, discovery, AST selection,
alias table, walk, API JSON text, stub generation, file writes) with `_run_stub_generator` itself.

The real CLI entry is run unchanged on a generated package; two of the functions it calls are wrapped only to
*observe* (never to change) what they receive and return: `_get_mypy_asts` (the build result: graph and
expression types, dumped by the extractor before the visitor patches mypy's types in place) and
`create_docstring_parser` (the griffe tree).  The model gets the directory listing, the dumped graph, the alias
facts and the griffe tree, and must reproduce: outcome, package name, the walked modules in order, the alias table,
the name and the TEXT of the API JSON file, every stub file byte for byte, and the type-source warnings."""
from __future__ import annotations

import importlib
import json
import multiprocessing as mp
import os
import random
import shutil
import time
import traceback
from pathlib import Path

import e2e
import extract
import griffe_extract
import implrun
import pkggen
from common import driver_batch, pool_results

_IMPL = None


def _impl():
    global _IMPL
    if _IMPL is None:
        _IMPL = implrun.load()
    return _IMPL


def run_observed(impl, src: Path, out: Path, top: Path, opts: dict):
    """the real `_run_stub_generator`, with observers; returns (tool input for the model | None, implementation result)"""
    ga = importlib.import_module("safeds_stubgen.api_analyzer._get_api")
    seen: dict = {}
    orig_asts, orig_aliases, orig_parser = ga._get_mypy_asts, ga._get_aliases, ga.create_docstring_parser
    style = opts.get("style", "plaintext")

    def obs_asts(build_result, files, package_paths):
        asts = orig_asts(build_result=build_result, files=files, package_paths=package_paths)
        prefix = str(top.resolve()) + os.sep
        trees = [build_result.graph[k].tree for k in build_result.graph]
        inside = [t for t in trees if t is not None and os.path.abspath(t.path).startswith(prefix)]
        seen["graph_total"] = len(trees)
        info_bases: dict = {}
        seen["modules"] = [extract.module(t, info_bases) for t in inside]
        seen["info_bases"] = [[k, v] for k, v in info_bases.items()]
        seen["walked"] = [t.path for t in asts]
        seen["facts"], seen["fact_stats"] = extract.alias_facts(build_result.types, ga._get_bound_type_fullname)
        return asts

    def obs_aliases(result_types, package_name):
        try:
            a = orig_aliases(result_types=result_types, package_name=package_name)
        except Exception as e:  # noqa: BLE001
            seen["aliases_exc"] = type(e).__name__
            raise
        seen["aliases"] = {k: sorted(v) for k, v in a.items()}
        seen["package"] = package_name
        return a

    def obs_parser(style, package_path):  # noqa: A002
        p = orig_parser(style=style, package_path=package_path)
        seen["parser"] = p
        return p

    files = [list(p.parts) for p in src.resolve().glob("./**/*.py")]
    ga._get_mypy_asts, ga._get_aliases, ga.create_docstring_parser = obs_asts, obs_aliases, obs_parser
    try:
        res = e2e.run_tool(impl, src, out, **opts)
    finally:
        ga._get_mypy_asts, ga._get_aliases, ga.create_docstring_parser = orig_asts, orig_aliases, orig_parser
    doc_tree = None
    p = seen.get("parser")
    if p is not None and style != "plaintext":
        doc_tree = griffe_extract.node(p.griffe_build, style == "numpydoc", style == "google")
    inp = {"op": "tool", "src_dir": list(src.resolve().parts), "files": files, "test_run": bool(opts.get("test_run", False)),
           "modules": seen.get("modules", []), "alias_facts": seen.get("facts", []), "info_bases": seen.get("info_bases", []),
           "doc_tree": doc_tree, "safe": bool(opts.get("convert", False)), "preexisting": [],
           "opts": {"plaintext": style == "plaintext",
                    "style": {"numpydoc": "numpy", "google": "google", "rest": "rest"}.get(style, "numpy"),
                    "prefer_docstring": opts.get("tsp", "CODE") == "DOCSTRING", "warn": opts.get("tsw", "WARN") == "WARN"}}
    obs = {k: seen.get(k) for k in ("walked", "aliases", "package", "graph_total", "fact_stats", "aliases_exc")}
    return inp, res, obs


OPTION_SETS = [dict(), dict(convert=True), dict(test_run=True), dict(tsp="DOCSTRING"), dict(tsp="DOCSTRING", tsw="IGNORE", convert=True)]


def one_case(task):
    seed, gen_kw = task
    rng = random.Random(seed)
    style = rng.choice(["plaintext", "numpydoc", "google", "rest"])
    g = pkggen.PkgGen(rng, style=style, **gen_kw)
    pkg = g.package()
    o = dict(rng.choice(OPTION_SETS))
    o["style"] = style
    top = implrun.WORK / f"sp_{os.getpid()}_{seed}"
    try:
        e2e.write_pkg(pkggen.render(pkg), top / "src")
        # one in four runs starts at the directory ABOVE the package (root adjustment, API file named after that directory)
        src = top / "src" / pkg["root"]
        k = rng.random()
        excluded = [p for p in pkg["packages"] if p[-1] in ("test", "tests", "docs")]
        if k < 0.25:
            src = src.parent
        elif k < 0.37 and excluded:
            # the source directory is itself a test/docs directory: "No files found to analyse." unless the flag is set
            src = top / "src" / "/".join(rng.choice(excluded))
        try:
            inp, res, obs = run_observed(_impl(), src, top / "out", top, o)
        except Exception as e:  # noqa: BLE001
            return {"seed": seed, "error": f"{type(e).__name__}: {e}", "tb": traceback.format_exc()[-1500:]}
        res.pop("api", None)
        second = None
        if res["outcome"] == "ok" and rng.random() < 0.5:
            # C16: the CLI a second time into the same, now populated, output directory
            r2 = e2e.run_tool(_impl(), src, top / "out", **o)
            second = {"outcome": r2["outcome"], "files": r2["files"]}
        return {"seed": seed, "second": second, "style": style, "options": o, "inp": inp, "impl": res, "obs": obs, "above": src == (top / "src" / pkg["root"]).parent,
                "n_decls": sum(len(m["functions"]) + len(m["classes"]) + len(m["enums"]) for m in pkg["modules"])}
    finally:
        shutil.rmtree(top, ignore_errors=True)


def first_diff(a: str, b: str) -> str:
    la, lb = a.split("\n"), b.split("\n")
    for i, (x, y) in enumerate(zip(la, lb)):
        if x != y:
            return f"line {i + 1}: model {x[:160]!r} / impl {y[:160]!r}"
    return f"lengths {len(la)} / {len(lb)} lines"


GEN = dict(kw_rate=0.03, docs=0.5, test_dirs=True, unique_top_names=False, ties=0.3, infer_returns=0.3, doc_types="mixed",
           aliases=0.4, private_rate=0.25, decoys=0.4)


def compare(ctx, r, m) -> None:
    rep = ctx.rep
    inp = {"stage": "S-P", "seed": r["seed"], "style": r["style"], "options": r["options"], "above": r["above"]}
    impl, obs = r["impl"], r["obs"]
    # C15: with the flag off no module of a test/tests/docs directory is walked (even when mypy reached it through an import)
    if not r["inp"]["test_run"] and obs.get("walked"):
        src_parts = len(r["inp"]["src_dir"])
        for pth in obs["walked"]:
            rel = pth.strip("/").split("/")[src_parts - 1:]
            if set(rel) & {"test", "tests", "docs"}:
                ctx.oracle_failure("C15", f"module of a test/docs directory analysed without the flag: {'/'.join(rel)}",
                                   {**inp, "path": pth})
                break
    if r.get("second") is not None:
        r["_first_files"] = dict(impl["files"])
    io = impl["outcome"]
    iout = ("ok",) if io == "ok" else ("exc", "ValueError") if io == "NoFiles" else ("exc", impl.get("exc"))
    mout = ("ok",) if m.get("ok") else ("exc", m.get("err"))
    if m.get("err") == "unsupported":
        rep.bump("sp_outcome", "model-unsupported")
        return
    if iout != mout:
        ctx.disagree("S-P/outcome", inp, mout, iout + ((impl.get("site"),) if io == "exc" else ()))
        return
    d = m.get("discovery") or {}
    if obs.get("walked") is not None and "selected" in d and d["selected"] != obs["walked"]:
        ctx.disagree("S-P/walked-modules", inp, d["selected"], obs["walked"])
        return
    if obs.get("package") is not None and d.get("package") != obs["package"]:
        ctx.disagree("S-P/package-name", inp, d.get("package"), obs["package"])
        return
    if obs.get("aliases") is not None and isinstance(m.get("aliases"), list):
        ma = {k: sorted(v) for k, v in m["aliases"]}
        if ma != obs["aliases"] or [k for k, _ in m["aliases"]] != list(obs["aliases"]):
            bad = [k for k in sorted(set(ma) | set(obs["aliases"])) if ma.get(k) != obs["aliases"].get(k)]
            ctx.disagree("S-P/alias-table", {**inp, "names": bad[:5]}, {k: ma.get(k) for k in bad[:3]},
                         {k: obs["aliases"].get(k) for k in bad[:3]})
            return
    if not m.get("ok"):
        rep.bump("sp_outcome", "same-error")
        return
    files_i = dict(impl["files"])
    api_i = impl.get("api_file")
    if api_i != m["api_file"]:
        ctx.disagree("S-P/api-file-name", inp, m["api_file"], api_i)
        return
    text_i = files_i.pop(api_i)
    if text_i != m["api_text"]:
        ctx.disagree("S-P/api-json-text", inp, "see first difference", first_diff(m["api_text"], text_i))
        rep.extra.setdefault("sp_first_api_diff", first_diff(m["api_text"], text_i))
        return
    files_m = dict(m["files"])
    if files_i != files_m:
        bad = [p for p in sorted(set(files_i) | set(files_m)) if files_i.get(p) != files_m.get(p)]
        ctx.disagree("S-P/stub-files", {**inp, "paths": bad[:4]}, {p: files_m.get(p) for p in bad[:1]},
                     {p: files_i.get(p) for p in bad[:1]})
        return
    wi = sorted(w for w in impl["warnings"] if w.startswith("Different type hint"))
    wm = sorted(w for w in m["warnings"] if w.startswith("Different type hint"))
    if wi != wm:
        ctx.disagree("S-P/warnings", inp, wm[:4], wi[:4])
        return
    rep.bump("sp_outcome", "whole_tool_byte_exact")


def run(ctx) -> None:
    rep = ctx.rep
    n = {"quick": 24, "thorough": 320}[ctx.tier]
    rng = random.Random(ctx.seed * 69069 + 5)
    tasks = [(rng.randrange(1 << 40), GEN) for _ in range(n)]
    rule = ("S-P: generated packages through the real `_run_stub_generator` (observed, not altered) and through "
            "Model/Pipeline.runTool on the dumped directory listing, mypy graph, expression-type facts and griffe tree; "
            "compared: outcome, package name, walked modules in order, alias table, API file name and TEXT, every stub "
            "file byte for byte, type-source warnings; non-trivial = >= 5 declarations; distinct by generator seed")
    rep.rule = (rep.rule + " | " if rep.rule else "") + rule
    implrun.WORK.mkdir(exist_ok=True)
    results = []
    with mp.get_context("fork").Pool(min(16, os.cpu_count() or 4)) as pool:
        for r in pool_results(pool, one_case, tasks, ctx.deadline):
            if time.time() > ctx.deadline:
                pool.terminate()
                break
            results.append(r)
    good = []
    for r in results:
        rep.evaluations += 1
        if "error" in r:
            rep.assumption_failures.append(f"S-P harness error seed {r['seed']}: {r['error']}")
            rep.bump("sp_outcome", "harness-error")
            continue
        if (r["obs"].get("fact_stats") or {}).get("callable_with_type"):
            rep.assumption_failures.append(f"S-P seed {r['seed']}: a CallableType value with a `.type` attribute (model assumption)")
            continue
        o = r["impl"]["outcome"]
        rep.bump("sp_impl_outcome", o if o != "exc" else f"{r['impl'].get('exc')}@{r['impl'].get('site')}")
        rep.bump("sp_start", "directory above the package" if r["above"] else "package directory")
        if r.get("n_decls", 0) >= 5:
            rep.nontrivial.add(("sp", r["seed"]))
        good.append(r)
    if not ctx.driver_ok:
        return
    CH = 6
    for i in range(0, len(good), CH):
        chunk = good[i:i + CH]
        outs = driver_batch([c["inp"] for c in chunk])
        for r, m in zip(chunk, outs):
            rep.disagreements_checked += 1
            compare(ctx, r, m)
    # second runs: the model's write operations for a run into the populated directory, applied on top of the first
    # run's files, must give the files the implementation leaves after ITS second run (and C16: the same files as before)
    again = [r for r in good if r.get("_first_files") is not None]
    outs = driver_batch([{**r["inp"], "preexisting": sorted(p for p in r["_first_files"] if p.endswith(".sdsstub"))} for r in again])
    for r, m in zip(again, outs):
        rep.disagreements_checked += 1
        inp = {"stage": "S-P", "seed": r["seed"], "style": r["style"], "options": r["options"], "run": "second"}
        sec = r["second"]
        if sec["outcome"] != "ok" or not m.get("ok"):
            if (sec["outcome"] == "ok") != bool(m.get("ok")):
                ctx.disagree("S-P/second-run-outcome", inp, m.get("err", "ok"), sec["outcome"])
            if sec["outcome"] != "ok":
                ctx.oracle_failure("C16", f"a second run of the tool into the same output directory ended with {sec['outcome']}", inp)
            continue
        tree = dict(r["_first_files"])
        tree[m["api_file"]] = m["api_text"]
        for op in m["ops"]:
            tree[op["path"]] = op["text"] if op["mode"] == "w" else tree.get(op["path"], "") + op["text"]
        if tree != sec["files"]:
            bad = [p for p in sorted(set(tree) | set(sec["files"])) if tree.get(p) != sec["files"].get(p)]
            ctx.disagree("S-P/second-run-files", {**inp, "paths": bad[:4]}, {p: tree.get(p) for p in bad[:1]},
                         {p: sec["files"].get(p) for p in bad[:1]})
        else:
            rep.bump("sp_outcome", "second_run_byte_exact")
        if sec["files"] != r["_first_files"]:
            bad = [p for p in sorted(set(sec["files"]) | set(r["_first_files"])) if sec["files"].get(p) != r["_first_files"].get(p)]
            for prop in ("C16", "C08"):
                # C16: independence of earlier generations; C08: the output is a function of package and options — also
                # between repeated runs into the same directory
                ctx.oracle_failure(prop, f"a second run of the whole tool into the same output directory changed {bad[:3]}",
                                   {**inp, "paths": bad[:5], "first": {p: r["_first_files"].get(p) for p in bad[:1]},
                                    "second": {p: sec["files"].get(p) for p in bad[:1]}})
