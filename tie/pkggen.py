"""Generator of real Python packages with a ground-truth model (S-A / S-E).

A package is first generated as a *specification* (plain dicts: modules, functions, classes, enums,
re-exports, docstrings, annotation terms); the Python source text and the ground truth the oracles use
are both derived from that specification — never from the tool under test.

Annotation terms (tuples):
  ("int",) ("str",) ("bool",) ("float",) ("None",) ("Any",)
  ("cls", name, qname)                       a class or enum of the generated package
  ("list", T) ("set", T) ("seq", T) ("coll", T) ("tuple", T1, ..) ("dict", K, V) ("map", K, V)
  ("opt", T) ("union", T1, ..) ("or", T1, ..) ("lit", v1, ..) ("callable", (T1, ..), R)
"""
from __future__ import annotations

import random

KEYWORDS = ["and", "annotation", "as", "attr", "class", "const", "enum", "false", "from", "fun", "import",
            "in", "internal", "literal", "not", "null", "or", "out", "package", "pipeline", "private", "schema",
            "segment", "static", "sub", "this", "true", "union", "unknown", "val", "where", "yield"]
PY_KEYWORDS = {"and", "as", "class", "from", "import", "in", "not", "or", "yield", "False", "True", "None"}
SAFE_KW_NAMES = [k for k in KEYWORDS if k not in PY_KEYWORDS]     # usable as Python identifiers

BASES = [("int",), ("str",), ("bool",), ("float",)]


# --------------------------------------------------------------------------- annotation terms

def ann_src(a) -> str:
    k = a[0]
    if k in ("int", "str", "bool", "float", "None", "Any"):
        return k
    if k == "cls":
        return a[1]
    if k == "qcls":
        return a[2]            # written by its dotted path (`import pkg.mod` is in scope)
    if k == "list":
        return f"list[{ann_src(a[1])}]"
    if k == "set":
        return f"set[{ann_src(a[1])}]"
    if k == "seq":
        return f"Sequence[{ann_src(a[1])}]"
    if k == "coll":
        return f"Collection[{ann_src(a[1])}]"
    if k == "tuple":
        return "tuple[" + ", ".join(ann_src(x) for x in a[1:]) + "]"
    if k == "dict":
        return f"dict[{ann_src(a[1])}, {ann_src(a[2])}]"
    if k == "map":
        return f"Mapping[{ann_src(a[1])}, {ann_src(a[2])}]"
    if k == "opt":
        return f"Optional[{ann_src(a[1])}]"
    if k == "union":
        return "Union[" + ", ".join(ann_src(x) for x in a[1:]) + "]"
    if k == "or":
        return " | ".join(ann_src(x) for x in a[1:])
    if k == "lit":
        return "Literal[" + ", ".join(repr(v) for v in a[1:]) + "]"
    if k == "callable":
        return "Callable[[" + ", ".join(ann_src(x) for x in a[1]) + "], " + ann_src(a[2]) + "]"
    raise ValueError(a)


def ann_classes(a, out: set) -> None:
    if a[0] == "cls":
        out.add((a[1], a[2]))
    for x in a[1:]:
        if isinstance(x, tuple) and x and isinstance(x[0], str) and x[0] in _KINDS:
            ann_classes(x, out)
        elif isinstance(x, tuple):
            for y in x:
                if isinstance(y, tuple):
                    ann_classes(y, out)


_KINDS = {"int", "str", "bool", "float", "None", "Any", "cls", "qcls", "list", "set", "seq", "coll", "tuple", "dict", "map",
          "opt", "union", "or", "lit", "callable"}


def named(n, q):
    return {"kind": "NamedType", "name": n, "qname": q}


NONE_T = named("None", "builtins.None")


def expected_api_type(a):
    """the API type the documented mapping assigns to an annotation term (unions flattened)"""
    k = a[0]
    if k in ("int", "str", "bool", "float"):
        return named(k, f"builtins.{k}")
    if k == "None":
        return NONE_T
    if k == "Any":
        return named("Any", "typing.Any")
    if k in ("cls", "qcls"):
        return named(a[1], a[2])
    if k in ("list", "seq", "coll"):
        return {"kind": "ListType", "types": [expected_api_type(a[1])]}
    if k == "set":
        return {"kind": "SetType", "types": [expected_api_type(a[1])]}
    if k == "tuple":
        return {"kind": "TupleType", "types": [expected_api_type(x) for x in a[1:]]}
    if k in ("dict", "map"):
        return {"kind": "DictType", "key_type": expected_api_type(a[1]), "value_type": expected_api_type(a[2])}
    if k == "lit":
        ms = [{"kind": "LiteralType", "literals": [v]} for v in a[1:]]
        return ms[0] if len(ms) == 1 else {"kind": "UnionType", "types": ms}
    if k in ("opt", "union", "or"):
        members = list(a[1:]) + ([("None",)] if k == "opt" else [])
        flat = []
        for m in members:
            t = expected_api_type(m)
            for x in (t["types"] if t["kind"] == "UnionType" else [t]):
                if repr(x) not in [repr(y) for y in flat]:      # duplicates removed (True and 1 differ)
                    flat.append(x)
        return {"kind": "UnionType", "types": flat}
    if k == "callable":
        return {"kind": "CallableType", "parameter_types": [expected_api_type(x) for x in a[1]],
                "return_type": expected_api_type(a[2])}
    raise ValueError(a)


class AnnGen:
    def __init__(self, rng: random.Random, classes):
        self.r = rng
        self.classes = classes          # [(name, qname)]

    def leaf(self):
        r = self.r
        if self.classes and r.random() < 0.25:
            n, q = r.choice(self.classes)
            return ("cls", n, q)
        return r.choice(BASES + [("Any",)] * 1 + BASES)

    def term(self, depth: int, allow_none=True):
        r = self.r
        if depth <= 0 or r.random() < 0.3:
            return self.leaf()
        k = r.randrange(13)
        sub = lambda: self.term(depth - 1)
        if k == 0:
            return ("list", sub())
        if k == 1:
            return ("set", sub())
        if k == 2:
            return ("tuple",) + tuple(sub() for _ in range(r.choice([1, 2, 3])))
        if k == 3:
            return ("dict", self.leaf(), sub())
        if k == 4:
            return ("opt", sub())
        if k == 5:
            ms = self.distinct(r.choice([2, 3]), depth - 1)
            return ("union",) + tuple(ms)
        if k == 6:
            ms = self.distinct(r.choice([2, 3]), depth - 1)
            if r.random() < 0.4:
                ms.append(("None",))
            return ("or",) + tuple(ms)
        if k == 7:
            vals = r.sample([1, 2, -3, "a", "b c", True, False], r.choice([1, 2, 3]))
            return ("lit",) + tuple(vals)
        if k == 8:
            return ("callable", tuple(self.leaf() for _ in range(r.choice([0, 1, 2]))),
                    r.choice([self.leaf(), ("None",), ("tuple", self.leaf(), self.leaf())]))
        if k == 9:
            return r.choice([("seq", sub()), ("coll", sub()), ("map", self.leaf(), sub())])
        if k == 10:
            vals = r.sample([1, 2, "a", "x"], r.choice([1, 2]))
            return ("opt", ("lit",) + tuple(vals))
        return self.leaf()

    def distinct(self, n, depth):
        out, seen = [], set()
        for _ in range(n * 4):
            t = self.term(depth)
            s = ann_src(t)
            if s not in seen and t[0] not in ("opt", "union", "or"):
                seen.add(s)
                out.append(t)
            if len(out) == n:
                break
        return out or [self.leaf()]


# --------------------------------------------------------------------------- names

FUNCS = ["f", "g", "compute", "my_func", "get_value_x", "doIt", "to_text", "helper1", "run_all", "transform",
         "load_data", "save_it", "fit", "predict_one", "score", "plot_xy", "resize", "merge_all", "split_by", "norm",
         "print_", "filter_", "_hidden_both_"]
CLASSES = ["A", "B", "Shape", "Node", "my_class", "HTTPServer", "Data_Set", "Tree", "Base", "Impl", "Widget",
           "Model", "Layer", "Table", "Row", "Col_Spec", "Reader", "Writer", "Graph", "Edge", "Type_", "object_"]
PARAMS = ["x", "y", "value", "max_depth", "n_jobs", "alpha", "data_set", "flag", "name", "count", "opt_z"]
ATTRS = ["a", "b", "count", "my_attr", "value_2", "data", "size"]
MODULES = ["mod_a", "mod_b", "core", "utils", "shapes", "io_tools", "lambda_", "class_", "models", "plots", "helpers"]
SUBPKGS = ["subpkg", "inner_pkg", "tools"]


class Names:
    def __init__(self, rng, kw_rate):
        self.r = rng
        self.kw = kw_rate

    def pick(self, pool, used, private_rate=0.0, cls=False):
        r = self.r
        for _ in range(60):
            if r.random() < self.kw:
                n = r.choice(SAFE_KW_NAMES)
                # keywords with underscore affixes become bare keywords under the naming conversion (from_ -> from)
                k = r.randrange(6)
                if k == 0:
                    n = n + "_"
                elif k == 1 and not cls:
                    n = r.choice(["from", "in", "import", "as", "class"]) + "_"
            else:
                n = r.choice(pool)
            if r.random() < private_rate:
                n = "_" + n
            if n not in used:
                used.add(n)
                return n
        n = f"{pool[0]}_{len(used)}"
        used.add(n)
        return n


# --------------------------------------------------------------------------- docstrings

def doc_block(style: str, desc: str, params: list[tuple[str, str, str]], result: tuple[str, str] | None,
              indent: str, attrs: list[tuple[str, str]] | None = None, type_first: bool = True) -> str:
    """a docstring in the given style with unique marker texts; params = [(name, type_src, desc)],
    result = (type_src, desc)"""
    attrs = attrs if style in ("numpydoc", "google") else None
    if not desc and not params and not result and not attrs:
        return ""
    lines = [desc] if desc else ["Doc."]
    if attrs and style == "numpydoc":
        lines += ["", "Attributes", "----------"]
        for n, d in attrs:
            lines += [n, f"    {d}"]
    if attrs and style == "google":
        lines += ["", "Attributes:"]
        for n, d in attrs:
            lines.append(f"    {n}: {d}")
    if style == "plaintext":
        pass
    elif style == "numpydoc":
        if params:
            lines += ["", "Parameters", "----------"]
            for n, t, d in params:
                lines.append(f"{n} : {t}" if t else n)
                lines.append(f"    {d}")
        if isinstance(result, list):
            lines += ["", "Returns", "-------"]
            for n, t, d in result:
                # a name without a type is written "name :" (a bare word would be read as a type)
                lines += [f"{n} : {t}" if t else f"{n} :", f"    {d}"]
        elif result:
            lines += ["", "Returns", "-------", f"result_1 : {result[0]}" if result[0] else "result_1", f"    {result[1]}"]
    elif style == "google":
        if params:
            lines += ["", "Args:"]
            for n, t, d in params:
                lines.append(f"    {n} ({t}): {d}" if t else f"    {n}: {d}")
        if result:
            lines += ["", "Returns:", f"    {result[0]}: {result[1]}" if result[0] else f"    {result[1]}"]
    elif style == "rest":
        if params:
            lines.append("")
            for n, t, d in params:
                # griffe's sphinx parser ignores a `:type:` line that FOLLOWS its `:param:` line when the signature has
                # a hint (known finding K14-signature-fallback); the order is part of the specification (`type_first`)
                if t and type_first:
                    lines.append(f":type {n}: {t}")
                lines.append(f":param {n}: {d}")
                if t and not type_first:
                    lines.append(f":type {n}: {t}")
        if result:
            lines.append("")
            lines.append(f":returns: {result[1]}")
            if result[0]:
                lines.append(f":rtype: {result[0]}")
    body = ("\n" + indent).join(lines)
    return f'{indent}"""{body}\n{indent}"""\n'


# --------------------------------------------------------------------------- the package

class PkgGen:
    def __init__(self, rng: random.Random, *, kw_rate=0.05, style="plaintext", docs=0.5, reexports=True,
                 test_dirs=False, private_rate=0.2, infer_returns=0.15, n_modules=(2, 4), root_name="pkg",
                 cross_refs=True, doc_types="none", unique_top_names=True, ties=0.0, aliases=0.0, chains=0.0, decoys=0.0, dual=0.0, twins=0.0, base_alias=0.0):
        self.r = rng
        self.names = Names(rng, kw_rate)
        self.style = style
        self.docs = docs
        self.reexports = reexports
        self.test_dirs = test_dirs
        self.private_rate = private_rate
        self.infer_returns = infer_returns
        self.n_modules = n_modules
        self.root = root_name
        self.cross_refs = cross_refs
        self.doc_types = doc_types          # none | same | mixed : types written into the docstrings
        # scope of most oracles: no two modules define the same top-level name (same-named declarations in
        # unrelated modules confuse the tool's suffix-matching of re-exports and aliases: known findings K18-*)
        self.unique_top_names = unique_top_names
        # rate of constructs whose treatment depends on the iteration order of a Python set inside the tool
        # (a nested class named like a top-level class of its module that is then used as a base class or type)
        self.ties = ties
        # rate of modules that define type aliases (a plain one and a recursive one) and use them in annotations
        self.aliases = aliases
        # rate of modules with a private inheritance chain shared by two public classes, one of which overrides a
        # method of the farther private ancestor (skipping the nearer one)
        self.chains = chains
        # rate of packages with a RELATIVE re-export from a private module of the root package plus a decoy module with the
        # same trailing path and the same declaration names in a sub-package (which stays private)
        self.decoys = decoys
        # rate of packages whose root __init__ re-exports one module BOTH under an alias and by a wildcard import
        self.dual = dual
        # rate of packages with a class re-exported by TWO sibling packages of equal depth whose ids differ in length
        self.twins = twins
        # rate of packages with two modules that each define a module-level alias of ONE short name for different classes and
        # derive a class through it
        self.base_alias = base_alias
        self.global_used: set = set()
        self.counter = 0

    def test_dirs_only_root(self) -> bool:
        return False

    def marker(self, what: str) -> str:
        self.counter += 1
        return f"MARK{self.counter}x {what}"

    # ---- declarations
    def params(self, ag: AnnGen, method_kind, depth=2):
        r = self.r
        out = []
        used = {"self", "cls"}
        kinds = []
        for kind, p in [("POSITION_ONLY", 0.25), ("POSITION_OR_NAME", 0.85), ("POSITIONAL_VARARG", 0.15),
                        ("NAME_ONLY", 0.3), ("NAMED_VARARG", 0.15)]:
            if r.random() < p:
                kinds += [kind] * (1 if "VARARG" in kind else r.choice([1, 1, 2, 3]))
        seen_default = False
        for kind in kinds:
            name = self.names.pick(PARAMS, used)
            ann = ag.term(depth) if r.random() < 0.85 else None
            default = None
            if "VARARG" not in kind:
                need = seen_default and kind in ("POSITION_ONLY", "POSITION_OR_NAME")
                if need or r.random() < 0.4:
                    default = self.default_for(ann)
                    if need and default is None:
                        default = ("None", None)
                        if ann is not None and ann[0] != "Any":
                            ann = ("opt", ann)
                    if kind in ("POSITION_ONLY", "POSITION_OR_NAME"):
                        seen_default = True
            out.append({"name": name, "kind": kind, "ann": ann, "default": default,
                        "doc": self.marker(f"param {name}") if r.random() < self.docs else "",
                        "doc_type": self.doc_type_for(ann)})
        return out

    def doc_type_for(self, ann):
        """a type to write into the docstring: (annotation term, agrees with the hint?) or None"""
        r = self.r
        if self.doc_types == "none" or r.random() < 0.3:
            return None
        simple = [("int",), ("str",), ("bool",), ("float",), ("list", ("int",)), ("dict", ("str",), ("int",)),
                  ("opt", ("int",)), ("tuple", ("int",), ("str",)), ("set", ("str",))]
        if ann is not None and ann_src(ann) in [ann_src(x) for x in simple] and (self.doc_types == "same" or r.random() < 0.5):
            return (ann, True)
        if self.doc_types == "same":
            return None
        t = r.choice(simple)
        return (t, ann is not None and ann_src(t) == ann_src(ann))

    def default_for(self, ann):
        """(source text, python value) of a literal default compatible with the annotation where easy"""
        r = self.r
        pool = {
            "int": [("0", 0), ("1", 1), ("-5", -5), ("42", 42), ("+7", 7)],
            "float": [("1.5", 1.5), ("-0.25", -0.25), ("2.0", 2.0), ("1e-05", 1e-05), ("+2.5", 2.5)],
            "str": [('"text"', "text"), ('""', ""), ("'a b'", "a b")],
            "bool": [("True", True), ("False", False)],
        }
        if ann is None:
            k = r.choice(list(pool))
            return r.choice(pool[k])
        if ann[0] in pool:
            return r.choice(pool[ann[0]])
        if ann[0] == "opt" or (ann[0] == "or" and ("None",) in ann[1:]) or ann[0] == "Any":
            return ("None", None)
        if ann[0] == "lit":
            v = ann[1]
            return (repr(v), v)
        return None

    def function(self, ag: AnnGen, name, method_kind=None, depth=2):
        r = self.r
        ps = self.params(ag, method_kind, depth)
        f = {"kind": "function", "name": name, "method_kind": method_kind, "params": ps, "ret": None,
             "returns": None, "doc": "", "result_doc": "", "is_property": False, "result_doc_type": None,
             "rest_type_first": (len(name) + len(ps)) % 4 != 0}
        k = r.random()
        if k < self.infer_returns:
            f["returns"] = self.return_body()
        elif k < 0.85:
            f["ret"] = r.choice([ag.term(depth), ag.term(depth), ("None",),
                                 ("tuple", ag.term(1), ag.term(1))])
        if r.random() < self.docs:
            f["doc"] = self.marker(f"function {name}")
            if f["ret"] is not None and f["ret"] != ("None",) and f["ret"][0] != "tuple" and r.random() < 0.5:
                f["result_doc_type"] = self.doc_type_for(f["ret"])
                if f["result_doc_type"] is not None or self.style != "numpydoc":
                    f["result_doc"] = self.marker(f"result of {name}")
            # numpydoc: one named Returns entry per component of a tuple result; an entry's type is the hint's, another
            # type, free text that is no Python type, or missing
            if (self.style == "numpydoc" and self.doc_types != "none" and f["ret"] is not None and f["ret"][0] == "tuple"
                    and (len(name) + len(ps)) % 2 == 0):
                simple = [("int",), ("str",), ("bool",), ("float",), ("list", ("int",))]
                entries = []
                for i, comp in enumerate(f["ret"][1:]):
                    kind = ["same", "diff", "text", "none", "diff"][(len(name) + 2 * i + len(ps)) % 5]
                    if kind == "same" and ann_src(comp) not in [ann_src(x) for x in simple]:
                        kind = "diff"       # only types the docstring converter knows are written into docstrings
                    t = comp if kind == "same" else simple[(len(name) + i) % len(simple)] if kind == "diff" else None
                    entries.append({"name": ["first", "second", "third", "fourth"][i % 4], "kind": kind, "type": t,
                                    "text": "array-like of shape (n,)" if kind == "text" else None})
                f["result_docs"] = entries
        return f

    def return_body(self):
        """un-annotated function body: nested return statements with literal values"""
        r = self.r
        lits = [("1", "int"), ("2.5", "float"), ('"s"', "str"), ("True", "bool"), ("None", "None")]
        rets = []
        shape = r.choice(["single", "if", "try", "loop", "tuple", "cond", "cond", "with", "match", "uninferable", "static_cond"]
                         + (["two_tuples"] * 3 if self.ties else []))
        pick = lambda: r.choice(lits)
        if shape == "single":
            rets = [[pick()]]
            body = [f"return {rets[0][0][0]}"]
        elif shape == "if":
            a, b = pick(), pick()
            rets = [[a], [b]]
            body = ["if len(str(0)) > 1:", f"    return {a[0]}", "else:", f"    return {b[0]}"]
        elif shape == "static_cond":      # a condition the type checker decides statically: both branches still count
            a, b = pick(), pick()
            rets = [[a], [b]]
            cond = r.choice(["TYPE_CHECKING", "not TYPE_CHECKING", "sys.platform == 'win32'", "sys.version_info >= (3, 99)"])
            body = [f"if {cond}:", f"    return {a[0]}", "else:", f"    return {b[0]}"]
        elif shape == "try":
            a, b = pick(), pick()
            rets = [[a], [b]]
            body = ["try:", f"    return {a[0]}", "except ValueError:", f"    return {b[0]}"]
        elif shape == "loop":
            a, b = pick(), pick()
            rets = [[a], [b]]
            body = ["for _i in range(3):", f"    return {a[0]}", "while False:", f"    return {b[0]}", "return None"]
            rets.append([("None", "None")])
        elif shape == "with":
            a = pick()
            rets = [[a]]
            body = ["with open(__file__) as _fh:", f"    return {a[0]}"]
        elif shape == "match":
            a, b = pick(), pick()
            rets = [[a], [b]]
            body = ["match len(str(0)):", "    case 1:", f"        return {a[0]}", "    case _:", f"        return {b[0]}"]
        elif shape == "cond":
            a, b = pick(), pick()
            k = r.randrange(4)
            if k == 0:
                rets = [[a], [b]]
                body = [f"return {a[0]} if len(str(0)) > 1 else {b[0]}"]
            elif k == 1:          # a call in the if-branch is not inferable; the else-branch still is
                rets = [[b]]
                body = [f"return len(str(0)) if len(str(0)) > 1 else {b[0]}"]
            elif k == 2:          # attribute access in the if-branch
                rets = [[b]]
                body = [f"return str.__name__ if len(str(0)) > 1 else {b[0]}"]
            else:                 # call in the else-branch
                rets = [[a]]
                body = [f"return {a[0]} if len(str(0)) > 1 else len(str(0))"]
        elif shape == "two_tuples":       # two tuple returns of equal length: equal sort keys in the analyser
            a, b, c, d = pick(), pick(), pick(), pick()
            rets = [[a, b], [c, d]]
            body = ["if len(str(0)) > 1:", f"    return {a[0]}, {b[0]}", f"return {c[0]}, {d[0]}"]
        elif shape == "uninferable":
            a = pick()
            k = r.randrange(3)
            rets = [[a]] if k else []
            body = ["if len(str(0)) > 1:", "    return " + r.choice(["[1, 2]", "1 + 2", "{'a': 1}", "len('x') > 0", "lambda: 1"])]
            body += [f"return {a[0]}"] if k else ["return [3]"]
        else:
            a, b, c = pick(), pick(), pick()
            rets = [[a, b], [c]]
            body = ["if len(str(0)) > 1:", f"    return {a[0]}, {b[0]}", f"return {c[0]}"]
        return {"body": body, "rets": rets}

    def class_(self, ag: AnnGen, name, qname, avail_bases, depth_left, shadow=()):
        r = self.r
        c = {"kind": "class", "name": name, "qname": qname, "bases": [], "attrs": [], "init": None, "inst_attrs": [],
             "methods": [], "classes": [], "doc": ""}
        if avail_bases and r.random() < 0.5:
            for b in r.sample(avail_bases, min(len(avail_bases), r.choice([1, 1, 2]))):
                c["bases"].append(b)
        used = {name}
        for _ in range(r.choice([0, 1, 2])):
            an = self.names.pick(ATTRS, used, self.private_rate)
            ann = ag.term(2) if r.random() < 0.8 else None
            d = self.default_for(ann) or ("0", 0) if ann is None or ann[0] in ("int", "float", "str", "bool") else None
            if ann is None and d is None:
                d = ("0", 0)
            c["attrs"].append({"name": an, "ann": ann, "value": d[0] if d else None,
                               "doc": ""})
        if r.random() < 0.6:
            init = self.function(ag, "__init__", "instance")
            init["ret"] = None
            init["returns"] = None
            c["init"] = init
            for p in init["params"][:2]:
                if "VARARG" in p["kind"]:
                    continue
                an = self.names.pick(ATTRS, used, self.private_rate)
                c["inst_attrs"].append({"name": an, "ann": p["ann"], "value": p["name"]})
        for _ in range(r.choice([0, 1, 2, 3])):
            mn = self.names.pick(FUNCS, used, self.private_rate)
            kind = r.choice(["instance", "instance", "instance", "static", "class"])
            m = self.function(ag, mn, kind)
            if kind == "instance" and r.random() < 0.2:
                m["is_property"] = True
                m["params"] = []
                if m["ret"] is None or m["ret"] == ("None",):
                    m["ret"] = ag.term(1)
                m["returns"] = None
            c["methods"].append(m)
        if depth_left > 0 and r.random() < 0.3:
            nn = self.names.pick(CLASSES, used, self.private_rate, cls=True)
            if shadow and r.random() < self.ties and shadow[-1][0] not in used:
                nn = shadow[-1][0]
            k = self.class_(ag, nn, f"{qname}.{nn}", [], depth_left - 1)
            # the nested class shares an attribute name with its owner (each class has its own attribute of that name)
            shared = [a["name"] for a in c["attrs"] + c["inst_attrs"]]
            if shared and shared[0] not in {a["name"] for a in k["attrs"] + k["inst_attrs"]} | {f["name"] for f in k["methods"]}:
                k["attrs"].append({"name": shared[0], "ann": ("int",), "value": "0", "doc": ""})
            c["classes"].append(k)
        c["extras"] = {"setters": r.random() < 0.5, "overload": r.random() < 0.15, "subscript": r.random() < 0.4,
                       "seq_base": r.random() < 0.1 and not c["bases"]}
        if c["extras"]["subscript"] and c["init"] is not None and not ({"zz_w", "zz_h"} & {a["name"] for a in c["attrs"] + c["inst_attrs"]}):
            # instance attributes assigned by TUPLE UNPACKING in the constructor (`self.zz_w, self.zz_h = 1, 2`); no draw
            c["inst_attrs"] += [{"name": "zz_w", "ann": None, "value": "1", "unpacked": True},
                                {"name": "zz_h", "ann": None, "value": "2", "unpacked": True}]
        # an overloaded static method: its implementation is itself decorated
        c["extras"]["overload_static"] = c["extras"]["overload"] and len(name) % 2 == 0
        # nested classes are written before the attributes and the constructor of their owner
        c["extras"]["nested_first"] = len(name) % 2 == 1
        if r.random() < self.docs:
            c["doc"] = self.marker(f"class {name}")
        # documented attributes (numpydoc / google only: an "Attributes" section of the class docstring)
        for a in c["attrs"] + c["inst_attrs"]:
            a["doc"] = self.marker(f"attr {a['name']}") if (r.random() < self.docs * 0.6) else ""
        return c

    def module(self, pkg_parts, name, avail):
        r = self.r
        qn = ".".join(pkg_parts + [name])
        m = {"kind": "module", "name": name, "pkg": list(pkg_parts), "qname": qn, "classes": [], "functions": [],
             "enums": [], "doc": self.marker(f"module {name}") if r.random() < self.docs * 0.6 else "", "imports": set(),
             "aliases": self.aliases > 0 and (len(name) * 7 + len(pkg_parts)) % 100 < self.aliases * 100,
             # an overloaded function at module level (one implementation)
             "overload_fn": (len(name) + 3 * len(pkg_parts)) % 4 == 0,
             # a generic class whose body ENDS with attributes typed by its type variables, as the LAST definition of the module
             "generic_tail": (len(name) * 3 + len(pkg_parts)) % 5 == 2}
        used = self.global_used if self.unique_top_names else set()
        local = []
        for _ in range(r.choice([0, 1, 2, 3])):
            cn = self.names.pick(CLASSES, used, self.private_rate, cls=True)
            ag = AnnGen(r, local + (avail if self.cross_refs else []))
            bases = [b for b in local + (avail if self.cross_refs else [])]
            c = self.class_(ag, cn, f"{qn}.{cn}", bases, 1, shadow=local)
            m["classes"].append(c)
            local.append((cn, f"{qn}.{cn}"))
        if self.chains > 0 and (len(name) * 5 + len(pkg_parts)) % 100 < self.chains * 100 and "_ZzFar" not in used:
            used.update({"_ZzFar", "_ZzNear", "ZzKeeps", "ZzOverrides"})
            mk = lambda n, ret: {"kind": "function", "name": n, "method_kind": "instance", "params": [], "ret": ret, "returns": None,
                                 "doc": "", "result_doc": "", "is_property": False, "result_doc_type": None, "rest_type_first": True}
            def cls(n, bases, methods):
                return {"kind": "class", "name": n, "qname": f"{qn}.{n}", "bases": bases, "attrs": [], "init": None, "inst_attrs": [],
                        "methods": methods, "classes": [], "doc": "", "extras": {}}
            far = cls("_ZzFar", [], [mk("zz_size", ("int",)), mk("zz_far_only", ("str",))])
            near = cls("_ZzNear", [("_ZzFar", f"{qn}._ZzFar")], [mk("zz_near", ("bool",))])
            keeps = cls("ZzKeeps", [("_ZzNear", f"{qn}._ZzNear")], [mk("zz_own", ("int",))])
            overrides = cls("ZzOverrides", [("_ZzNear", f"{qn}._ZzNear")], [mk("zz_size", ("float",))])
            order = [far, near] + ([keeps, overrides] if len(name) % 2 else [overrides, keeps])
            m["classes"] += order
            local += [(c["name"], c["qname"]) for c in order]
        if self.style == "numpydoc" and self.docs > 0 and (len(name) + len(pkg_parts)) % 3 == 0 and "ZzBare" not in used:
            # a class WITHOUT a docstring whose constructor documents its parameters (numpydoc reads those as a fallback)
            used.add("ZzBare")
            ps = [{"name": "zz_gamma", "kind": "POSITION_OR_NAME", "ann": ("int",), "default": None,
                   "doc": self.marker("param zz_gamma"), "doc_type": None},
                  {"name": "zz_delta", "kind": "POSITION_OR_NAME", "ann": ("str",), "default": ('"x"', "x"),
                   "doc": self.marker("param zz_delta"), "doc_type": None}]
            init = {"kind": "function", "name": "__init__", "method_kind": "instance", "params": ps, "ret": None, "returns": None,
                    "doc": "", "result_doc": "", "is_property": False, "result_doc_type": None, "rest_type_first": True}
            m["classes"].append({"kind": "class", "name": "ZzBare", "qname": f"{qn}.ZzBare", "bases": [], "attrs": [], "init": init,
                                 "inst_attrs": [], "methods": [], "classes": [], "doc": "", "extras": {}})
            local.append(("ZzBare", f"{qn}.ZzBare"))
        if r.random() < 0.25:
            en = self.names.pick(["Color", "Mode", "my_enum"], used, self.private_rate * 0.5)
            members = r.sample(["RED", "GREEN", "blue_value", "val_x"], r.choice([0, 1, 2, 3]))
            if len(en) % 2 == 0:
                # a member with a leading underscore is a real member (only _sunder_ / __dunder__ names are not); no draw
                members.append("_LEGACY")
            m["enums"].append({"kind": "enum", "name": en, "qname": f"{qn}.{en}", "members": members, "method": r.random() < 0.5,
                               "doc": self.marker(f"enum {en}") if r.random() < self.docs else ""})
        ag = AnnGen(r, local + (avail if self.cross_refs else []))
        for k in range(r.choice([1, 2, 3, 4])):
            fn = self.names.pick(FUNCS, used, self.private_rate)
            if k == 0 and len(name) % 5 == 0 and name not in used:
                fn = name              # a function named like its module (copy.copy, pprint.pprint)
                used.add(fn)
            m["functions"].append(self.function(ag, fn))
        return m, local

    def package(self):
        r = self.r
        pkgs = [[self.root]]
        for sp in r.sample(SUBPKGS, r.choice([0, 1, 2])):
            priv = r.random() < self.private_rate * 0.5
            pkgs.append([self.root, ("_" if priv else "") + sp])
        if self.test_dirs:
            for td in r.sample(["tests", "test", "docs", "testing", "mytests", "docs_old"], r.choice([1, 2, 3])):
                pkgs.append(r.choice(pkgs[:2]) + [td])
        modules, avail = [], []
        used_mod = {}
        n = r.randint(*self.n_modules)
        for i in range(n):
            pk = pkgs[i % len(pkgs)] if i < len(pkgs) else r.choice(pkgs)
            u = used_mod.setdefault(tuple(pk) if not self.unique_top_names else "all", set())
            pool = MODULES + (["test_x", "tests_util"] if self.test_dirs else [])
            mn = self.names.pick(pool, u, self.private_rate * 0.7)
            in_excl = bool(set(pk + [mn]) & {"test", "tests", "docs"})
            # a module outside test/docs directories does not depend on classes defined inside them
            usable = [(n_, q_) for (n_, q_, ex_) in avail if in_excl or not ex_]
            m, local = self.module(pk, mn, usable)
            modules.append(m)
            avail += [(n_, q_, in_excl) for (n_, q_) in local]
        # parameters named with two leading underscores behind `*` (mypy flags them `pos_only` whatever their kind) and an
        # un-annotated function whose only `return`s are the implicit ones of lambdas.  No random draws.
        m0 = modules[0]
        if not (set(m0["pkg"] + [m0["name"]]) & {"test", "tests", "docs"}) and "zz_gather" not in self.global_used:
            self.global_used.update({"zz_gather", "zz_hook", "zz_clip", "zz_when", "zz_quote", "_ZzHidden", "ZzService", "ZzOldStyle"})
            par = lambda n, k, a, d=None: {"name": n, "kind": k, "ann": a, "default": d, "doc": "", "doc_type": None}
            base = {"kind": "function", "method_kind": None, "returns": None, "doc": "", "result_doc": "", "is_property": False,
                    "result_doc_type": None, "rest_type_first": True}
            m0["functions"].append({**base, "name": "zz_gather", "ret": ("None",),
                                    "params": [par("first", "POSITION_OR_NAME", ("int",)), par("__items", "POSITIONAL_VARARG", ("int",)),
                                               par("__strict", "NAME_ONLY", ("bool",), ("False", False)),
                                               par("__extra", "NAMED_VARARG", ("str",))]})
            # float defaults that overflow to infinity (`1e999`): kept by the analyser, written as `Infinity` into the API file
            m0["functions"].append({**base, "name": "zz_clip", "ret": ("float",),
                                    "params": [par("value", "POSITION_OR_NAME", ("float",)),
                                               par("lower", "POSITION_OR_NAME", ("float",), ("-1e999", float("-inf"))),
                                               par("upper", "POSITION_OR_NAME", ("float",), ("1e999", float("inf")))]})
            # two classes of ONE module of another library: its placeholder stub is created, then appended to
            m0["functions"].append({**base, "name": "zz_when", "ret": ("None",),
                                    "params": [par("zz_day", "POSITION_OR_NAME", ("cls", "date", "datetime.date")),
                                               par("zz_moment", "POSITION_OR_NAME", ("cls", "datetime", "datetime.datetime"))]})
            # string defaults and Literal values with a double quote, a backslash, a backslash before a quote, a line break:
            # inside a Safe-DS string literal each of them has to be escaped (not escaped before d913d69)
            m0["functions"].append({**base, "name": "zz_quote", "ret": ("None",),
                                    "params": [par("zz_sep", "POSITION_OR_NAME", ("str",), (repr('a"b'), 'a"b')),
                                               par("zz_path", "POSITION_OR_NAME", ("str",), (repr("back\\slash"), "back\\slash")),
                                               par("zz_unquote", "POSITION_OR_NAME", ("str",), (repr('q\\"x'), 'q\\"x')),
                                               par("zz_eol", "POSITION_OR_NAME", ("str",), (repr("nl\nx"), "nl\nx")),
                                               par("zz_mode", "POSITION_OR_NAME", ("lit", 'q"t', "b\\s", "plain"), (repr('q"t'), 'q"t'))]})
            # dunder members (other than __init__) of a PRIVATE class: private with their class, although the module path is
            # public; a public subclass must not inherit them into its stub
            dm = lambda n, ret, ps=(): {**base, "name": n, "method_kind": "instance", "ret": ret, "params": list(ps)}
            qh = f"{m0['qname']}._ZzHidden"
            m0["classes"].append({"kind": "class", "name": "_ZzHidden", "qname": qh, "bases": [], "init": None, "inst_attrs": [],
                                  "attrs": [{"name": "__zz_tag__", "ann": ("int",), "value": "0", "doc": ""}],
                                  "methods": [dm("__getitem__", ("int",), [par("zz_i", "POSITION_OR_NAME", ("int",))]),
                                              dm("__contains__", ("bool",), [par("zz_x", "POSITION_OR_NAME", ("int",))])],
                                  "classes": [], "doc": "", "extras": {}})
            m0["classes"].append({"kind": "class", "name": "ZzService", "qname": f"{m0['qname']}.ZzService", "bases": [("_ZzHidden", qh)],
                                  "init": None, "inst_attrs": [], "attrs": [], "methods": [dm("zz_run", ("int",))], "classes": [],
                                  "doc": "", "extras": {}})
            # a class that names `object` among its bases (old style)
            m0["classes"].append({"kind": "class", "name": "ZzOldStyle", "qname": f"{m0['qname']}.ZzOldStyle", "bases": [("object", "builtins.object")],
                                  "init": None, "inst_attrs": [], "attrs": [{"name": "zz_o", "ann": ("int",), "value": "0", "doc": ""}],
                                  "methods": [], "classes": [], "doc": "", "extras": {}})
            m0["functions"].append({**base, "name": "zz_hook", "ret": None, "params": [],
                                    "extra_body": ["zz_cb = lambda: 0", "zz_cb2 = lambda: ('a', True)", "zz_cb3 = lambda: None"]})
        # members of another module reached through the module object (`import a.b as m; m.f`, `m.C`): expression types
        # of every kind enter the tool's alias collection (a function reached this way aborted the run before c9b80ef).
        # Deterministic in the names (no random draws), so the streams of the other constructs do not move.
        EXCL = {"test", "tests", "docs"}
        for i, m in enumerate(modules):
            if i == 0 or (len(m["name"]) + i) % 2:
                continue
            m_ex = bool(set(m["pkg"] + [m["name"]]) & EXCL)
            cands = [t for t in modules[:i] if t["qname"] != m["qname"] and (m_ex or not (set(t["pkg"] + [t["name"]]) & EXCL))]
            if cands:
                t = cands[(len(m["name"]) * 3 + i) % len(cands)]
                m["member_access"] = {"module": t["qname"], "funcs": [f["name"] for f in t["functions"]][:2],
                                      "classes": [c["name"] for c in t["classes"]][:2], "enums": [e["name"] for e in t["enums"]][:1]}
        # a module OUTSIDE the test/docs directories imports one INSIDE them (a self-check that borrows test helpers): mypy's
        # build graph then holds the excluded module although it was not discovered.  No draws.
        outside = [m for m in modules if not (set(m["pkg"] + [m["name"]]) & EXCL)]
        inside = [m for m in modules if set(m["pkg"] + [m["name"]]) & EXCL]
        if outside and inside:
            outside[-1].setdefault("raw_tail", []).extend([f"import {inside[0]['qname']} as _zz_borrowed", ""])
            outside[-1]["imports_excluded"] = inside[0]["qname"]
        # re-exports in __init__ files
        inits = {tuple(p): [] for p in pkgs}
        for p in pkgs:
            for k in range(1, len(p)):
                inits.setdefault(tuple(p[:k]), [])
        if self.reexports:
            for pk in list(inits):
                if r.random() < 0.5:
                    cands = [m for m in modules if m["pkg"][:len(pk)] == list(pk)]
                    for m in r.sample(cands, min(len(cands), r.choice([1, 2]))):
                        # a function named like its module is not re-exported by name: the tool would take the import
                        # for a re-export of the module (known finding K10-module-name-suffix-match)
                        decls = [c["name"] for c in m["classes"]] + [f["name"] for f in m["functions"] if f["name"] != m["name"]]
                        form = r.randrange(5)
                        if form <= 2 and decls:
                            d = r.choice(decls)
                            alias = None
                            if r.random() < 0.15:
                                alias = "Alias" + d.strip("_").replace("_", "").title()
                            inits[pk].append({"form": "name", "module": m["qname"], "name": d, "alias": alias})
                        elif form == 3:
                            inits[pk].append({"form": "star", "module": m["qname"]})
                        else:
                            inits[pk].append({"form": "module", "module": m["qname"], "name": m["name"], "alias": None})
        if self.doc_types == "mixed" and self.docs > 0 and self.style != "plaintext":
            # two DIFFERENT classes with one simple name; a function hinted with the first and documented with the second
            # (a real conflict of the two type sources that a comparison by simple name would miss).  No random draws.
            def zz_cfg(modname):
                qn = f"{self.root}.{modname}"
                c = {"kind": "class", "name": "ZzConfig", "qname": f"{qn}.ZzConfig", "bases": [], "attrs": [], "init": None,
                     "inst_attrs": [], "methods": [], "classes": [], "doc": self.marker(f"class ZzConfig of {modname}"), "extras": {}}
                return {"kind": "module", "name": modname, "pkg": [self.root], "qname": qn, "classes": [c], "functions": [],
                        "enums": [], "doc": "", "imports": set(), "aliases": False, "overload_fn": False}
            ma, mb = zz_cfg("zz_cfg_a"), zz_cfg("zz_cfg_b")
            # each module also documents its OWN `ZzConfig` under the same annotation text: hint and docstring agree there
            for mm in (ma, mb):
                own = ("cls", "ZzConfig", mm["classes"][0]["qname"])
                mm["functions"].append({"kind": "function", "name": "zz_make_" + mm["name"][-1], "method_kind": None,
                                        "params": [{"name": "zz_c", "kind": "POSITION_OR_NAME", "ann": own, "default": None,
                                                    "doc": self.marker("param zz_c"), "doc_type": (own, True)}],
                                        "ret": own, "returns": None, "doc": self.marker("function zz_make"), "result_doc": "",
                                        "is_property": False, "result_doc_type": None, "rest_type_first": True})
            hint = ("cls", "ZzConfig", ma["classes"][0]["qname"])
            other = ("qcls", "ZzConfig", mb["classes"][0]["qname"])
            f = {"kind": "function", "name": "zz_conflict", "method_kind": None,
                 "params": [{"name": "zz_c", "kind": "POSITION_OR_NAME", "ann": hint, "default": None,
                             "doc": self.marker("param zz_c"), "doc_type": (other, False)}],
                 "ret": hint, "returns": None, "doc": self.marker("function zz_conflict"), "result_doc": self.marker("result of zz_conflict"),
                 "is_property": False, "result_doc_type": (other, False), "rest_type_first": True}
            # a mapping whose key and value types are exchanged between hint and docstring: different types
            d1, d2 = ("dict", ("str",), ("int",)), ("dict", ("int",), ("str",))
            f2 = {"kind": "function", "name": "zz_swapped", "method_kind": None,
                  "params": [{"name": "zz_m", "kind": "POSITION_OR_NAME", "ann": d1, "default": None,
                              "doc": self.marker("param zz_m"), "doc_type": (d2, False)},
                             {"name": "zz_l", "kind": "POSITION_OR_NAME", "ann": ("list", d1), "default": None,
                              "doc": self.marker("param zz_l"), "doc_type": (("list", d2), False)}],
                  "ret": d1, "returns": None, "doc": self.marker("function zz_swapped"), "result_doc": self.marker("result of zz_swapped"),
                  "is_property": False, "result_doc_type": (d2, False), "rest_type_first": True}
            mu = {"kind": "module", "name": "zz_cfg_user", "pkg": [self.root], "qname": f"{self.root}.zz_cfg_user", "classes": [],
                  "functions": [f, f2], "enums": [], "doc": "", "imports": set(), "aliases": False, "overload_fn": False,
                  "plain_imports": [mb["qname"]]}
            modules += [ma, mb, mu]
        # a sub-package whose directory name ENDS with an underscore (`types_`, `async_`): a non-final segment of the dotted
        # module path with a trailing underscore.  No draws.
        if "zz_price" not in self.global_used and not self.test_dirs_only_root():
            self.global_used.add("zz_price")
            inits[(self.root, "zz_types_")] = []
            qz = f"{self.root}.zz_types_.zzprice"
            modules.append({"kind": "module", "name": "zzprice", "pkg": [self.root, "zz_types_"], "qname": qz, "classes": [],
                            "functions": [{"kind": "function", "name": "zz_price", "method_kind": None, "params": [], "ret": ("int",),
                                           "returns": None, "doc": "", "result_doc": "", "is_property": False,
                                           "result_doc_type": None, "rest_type_first": True}],
                            "enums": [], "doc": "", "imports": set(), "aliases": False, "overload_fn": False})
        if self.base_alias > 0 and (len(modules[0]["name"]) * 13 + len(modules)) % 100 < self.base_alias * 100:
            # `ZzBase = ZzRound` in one module, `ZzBase = ZzCorner` in another; `class ZzCircle(ZzBase)`, `class ZzSquare(ZzBase)`:
            # each class derives from the class ITS module's alias names.  No draws.
            for modname, real, derived in (("zz_circles", "ZzRound", "ZzCircle"), ("zz_squares", "ZzCorner", "ZzSquare")):
                qm = f"{self.root}.{modname}"
                mk = lambda n, bases, pre=(): {"kind": "class", "name": n, "qname": f"{qm}.{n}", "bases": bases, "init": None,
                                               "inst_attrs": [], "attrs": [{"name": "zz_k", "ann": ("int",), "value": "0", "doc": ""}],
                                               "methods": [], "classes": [], "doc": "", "extras": {"pre_lines": list(pre)}}
                modules.append({"kind": "module", "name": modname, "pkg": [self.root], "qname": qm,
                                "classes": [mk(real, []), mk(derived, [("ZzBase", f"{qm}.{real}")], [f"ZzBase = {real}", ""])],
                                "functions": [], "enums": [], "doc": "", "imports": set(), "aliases": False, "overload_fn": False})
        if self.twins > 0 and (len(modules[0]["name"]) * 11 + len(modules)) % 100 < self.twins * 100:
            # `pkg/zz_long_name` and `pkg/zzb` both re-export pkg.zz_things.ZzThing; pkg.zz_use refers to it.  The package with
            # the fewest path segments is a tie; the tie is broken by the id, not by the length of its spelling.  No draws.
            qt = f"{self.root}.zz_deep.zz_things"
            thing = {"kind": "class", "name": "ZzThing", "qname": f"{qt}.ZzThing", "bases": [], "init": None, "inst_attrs": [],
                     "attrs": [{"name": "zz_n", "ann": ("int",), "value": "0", "doc": ""}], "methods": [], "classes": [], "doc": "",
                     "extras": {}}
            user = {"kind": "function", "name": "zz_use_thing", "method_kind": None, "ret": ("None",), "returns": None, "doc": "",
                    "result_doc": "", "is_property": False, "result_doc_type": None, "rest_type_first": True,
                    "params": [{"name": "zz_t", "kind": "POSITION_OR_NAME", "ann": ("cls", "ZzThing", f"{qt}.ZzThing"),
                                "default": None, "doc": "", "doc_type": None}]}
            blank = lambda pk, n, cs, fs: {"kind": "module", "name": n, "pkg": pk, "qname": ".".join(pk + [n]), "classes": cs,
                                           "functions": fs, "enums": [], "doc": "", "imports": set(), "aliases": False,
                                           "overload_fn": False}
            modules += [blank([self.root, "zz_deep"], "zz_things", [thing], []), blank([self.root], "zz_use", [], [user])]
            inits[(self.root, "zz_deep")] = []
            for pk in ("zz_long_name", "zzb"):
                inits[(self.root, pk)] = [{"form": "name", "module": qt, "name": "ZzThing", "alias": None}]
                # a package enters mypy's build graph only through one of its modules
                filler = dict(user, name=f"zz_fill_{pk}", params=[])
                modules.append(blank([self.root, pk], "zz_m", [], [filler]))
            # two sub-packages with a module of ONE name that defines a class of ONE name (`pkg/zz_ord/zz_models.ZzRec`,
            # `pkg/zz_bil/zz_models.ZzRec`), a second class next to one of them, and a module that refers to all three by
            # their dotted paths: the last two segments of a class id do not identify the class.  No draws.
            recs = {}
            for pk in ("zz_ord", "zz_bil"):
                qm = f"{self.root}.{pk}.zz_models"
                cs = [dict(thing, name="ZzRec", qname=f"{qm}.ZzRec")]
                if pk == "zz_bil":
                    cs.append(dict(thing, name="ZzInvoice", qname=f"{qm}.ZzInvoice"))
                modules.append(blank([self.root, pk], "zz_models", cs, []))
                inits[(self.root, pk)] = []
                recs[pk] = qm
            qpar = lambda n, cn, qm: {"name": n, "kind": "POSITION_OR_NAME", "ann": ("qcls", cn, f"{qm}.{cn}"), "default": None,
                                      "doc": "", "doc_type": None}
            serve = dict(user, name="zz_serve", params=[qpar("zz_a", "ZzRec", recs["zz_ord"]), qpar("zz_b", "ZzRec", recs["zz_bil"]),
                                                        qpar("zz_i", "ZzInvoice", recs["zz_bil"])])
            svc = blank([self.root], "zz_service", [], [serve])
            svc["plain_imports"] = [recs["zz_ord"], recs["zz_bil"]]
            modules.append(svc)
        if self.dual > 0 and (len(modules[0]["name"]) * 3 + len(modules)) % 100 < self.dual * 100:
            # `from pkg import _impl as zz_helpers` + `from pkg._impl import *`: the re-export set of that module holds
            # (package, alias) and (package, None) — a tie on the package id that only the alias can break.  No draws.
            cands = [m for m in modules if m["pkg"] == [self.root] and not (set([m["name"]]) & EXCL)]
            if cands:
                m = sorted(cands, key=lambda x: (not x["name"].startswith("_"), x["name"]))[0]
                inits[(self.root,)].append({"form": "module", "module": m["qname"], "name": m["name"], "alias": "zz_helpers"})
                inits[(self.root,)].append({"form": "star", "module": m["qname"]})
        sub = [p for p in pkgs if len(p) == 2 and not (set(p) & EXCL)]
        if self.decoys > 0 and sub and (len(modules[0]["name"]) * 7 + len(modules)) % 100 < self.decoys * 100:
            def zz_module(pk):
                qn = ".".join(pk + ["_zz_impl"])
                fn = lambda n, kind, ret: {"kind": "function", "name": n, "method_kind": kind, "params": [], "ret": ret, "returns": None,
                                           "doc": "", "result_doc": "", "is_property": False, "result_doc_type": None, "rest_type_first": True}
                c = {"kind": "class", "name": "ZzEngine", "qname": f"{qn}.ZzEngine", "bases": [], "attrs": [], "init": None, "inst_attrs": [],
                     "methods": [fn("zz_run", "instance", ("int",))], "classes": [], "doc": "", "extras": {}}
                return {"kind": "module", "name": "_zz_impl", "pkg": list(pk), "qname": qn, "classes": [c],
                        "functions": [fn("_zz_build", None, ("str",))], "enums": [], "doc": "", "imports": set(), "aliases": False,
                        "overload_fn": False}
            modules.append(zz_module([self.root]))
            modules.append(zz_module(sub[0]))
            # ANOTHER private module directly in the package defines a class of the re-exported name that nobody re-exports: it is
            # private through its module whatever un-aliased imports the package's __init__ holds
            legacy = zz_module([self.root])
            legacy["name"], legacy["qname"] = "_zz_legacy", f"{self.root}._zz_legacy"
            legacy["classes"][0]["qname"] = f"{self.root}._zz_legacy.ZzEngine"
            legacy["functions"] = []
            modules.append(legacy)
            # a PRIVATE module-level class that the package re-exports under a public alias, followed in the same module by a
            # public class with a NESTED private class of the same name (and a private method named like a re-exported
            # private function): the re-export verdict of the first must not be reused for the members
            qb = f"{self.root}.zz_builders"
            fnb = lambda n, kind: {"kind": "function", "name": n, "method_kind": kind, "params": [], "ret": ("int",), "returns": None,
                                   "doc": "", "result_doc": "", "is_property": False, "result_doc_type": None, "rest_type_first": True}
            clsb = lambda n, q, methods, classes: {"kind": "class", "name": n, "qname": q, "bases": [], "init": None, "inst_attrs": [],
                                                   "attrs": [{"name": "zz_depth", "ann": ("int",), "value": "0", "doc": ""}],
                                                   "methods": methods, "classes": classes, "doc": "", "extras": {}}
            frame = clsb("_ZzFrame", f"{qb}._ZzFrame", [], [])
            widget = clsb("ZzWidget", f"{qb}.ZzWidget", [fnb("_zz_assemble", "instance")],
                          [clsb("_ZzFrame", f"{qb}.ZzWidget._ZzFrame", [], [])])
            modules.append({"kind": "module", "name": "zz_builders", "pkg": [self.root], "qname": qb, "classes": [frame, widget],
                            "functions": [fnb("_zz_assemble", None)], "enums": [], "doc": "", "imports": set(), "aliases": False,
                            "overload_fn": False})
            inits[(self.root,)].append({"form": "name", "module": qb, "name": "_ZzFrame", "alias": "ZzFrame", "relative": True})
            inits[(self.root,)].append({"form": "name", "module": qb, "name": "_zz_assemble", "alias": "zz_assemble", "relative": True})
            inits[(self.root,)].append({"form": "name", "module": f"{self.root}._zz_impl", "name": "ZzEngine", "alias": None, "relative": True})
            inits[(self.root,)].append({"form": "name", "module": f"{self.root}._zz_impl", "name": "_zz_build", "alias": "zz_build", "relative": True})
        return {"root": self.root, "packages": [list(p) for p in inits], "modules": modules,
                "inits": {"/".join(k): v for k, v in inits.items()}, "style": self.style}


# --------------------------------------------------------------------------- rendering to source

def func_src(f, indent: str, style: str, classes_in_scope=None) -> list[str]:
    ps = []
    kind = f.get("method_kind")
    if kind == "instance":
        ps.append("self")
    elif kind == "class":
        ps.append("cls")
    params = f["params"]
    pos_only = [p for p in params if p["kind"] == "POSITION_ONLY"]
    normal = [p for p in params if p["kind"] == "POSITION_OR_NAME"]
    star = [p for p in params if p["kind"] == "POSITIONAL_VARARG"]
    kw_only = [p for p in params if p["kind"] == "NAME_ONLY"]
    kwargs = [p for p in params if p["kind"] == "NAMED_VARARG"]

    def one(p, prefix=""):
        s = prefix + p["name"]
        if p["ann"] is not None:
            s += ": " + ann_src(p["ann"])
        if p["default"] is not None:
            s += (" = " if p["ann"] is not None else "=") + p["default"][0]
        return s
    ps += [one(p) for p in pos_only]
    if pos_only:
        ps.append("/")
    ps += [one(p) for p in normal]
    if star:
        ps.append(one(star[0], "*"))
    elif kw_only:
        ps.append("*")
    ps += [one(p) for p in kw_only]
    if kwargs:
        ps.append(one(kwargs[0], "**"))
    ret = f" -> {ann_src(f['ret'])}" if f["ret"] is not None else ""
    lines = []
    if kind == "static":
        lines.append(f"{indent}@staticmethod")
    if kind == "class":
        lines.append(f"{indent}@classmethod")
    if f.get("is_property"):
        lines.append(f"{indent}@property")
    lines.append(f"{indent}def {f['name']}({', '.join(ps)}){ret}:")
    pdocs = [(p["name"], ann_src(p["doc_type"][0]) if p.get("doc_type") else "", p["doc"] or "Desc.")
             for p in params if p["doc"] or p.get("doc_type")]
    rdt = f.get("result_doc_type")
    rdoc = (ann_src(rdt[0]) if rdt else "", f["result_doc"]) if f.get("result_doc") else None
    if f.get("result_docs") and style == "numpydoc":
        rdoc = [(e["name"], ann_src(e["type"]) if e["type"] is not None else (e["text"] or ""), "Desc.") for e in f["result_docs"]]
    if style == "plaintext":
        d = doc_block(style, f["doc"], [], None, indent + "    ")
    else:
        d = doc_block(style, f["doc"], pdocs, rdoc, indent + "    ", type_first=f.get("rest_type_first", True))
    if d:
        lines.append(d.rstrip("\n"))
    if f.get("extra_body"):
        lines += [indent + "    " + ln for ln in f["extra_body"]]
    if f["returns"] is not None:
        lines += [indent + "    " + ln for ln in f["returns"]["body"]]
    elif not f.get("extra_body"):
        lines.append(f"{indent}    ...")
    return lines


def class_src(c, indent: str, style: str) -> list[str]:
    bases = ", ".join(b[0] for b in c["bases"])
    ex = c.get("extras", {})
    if ex.get("seq_base"):
        bases = "Sequence[int]"
    lines = [f"{indent}class {c['name']}" + (f"({bases})" if bases else "") + ":"]
    inner = indent + "    "
    adocs = [(a["name"], a["doc"]) for a in c["attrs"] + c["inst_attrs"] if a.get("doc")]
    cdoc = doc_block("plaintext" if style == "plaintext" else style, c["doc"], [], None, inner, adocs)
    if cdoc:
        lines.append(cdoc.rstrip("\n"))
    body = False
    if ex.get("nested_first"):
        for k in c["classes"]:
            lines += class_src(k, inner, style)
            body = True
    for a in c["attrs"]:
        s = f"{inner}{a['name']}"
        if a["ann"] is not None:
            s += ": " + ann_src(a["ann"])
        if a["value"] is not None:
            s += " = " + a["value"]
        elif a["ann"] is None:
            s += " = 0"
        lines.append(s)
        body = True
    if c["init"] is not None:
        f = dict(c["init"])
        f["extra_body"] = [f"self.{a['name']}" + (f": {ann_src(a['ann'])}" if a["ann"] is not None else "") + f" = {a['value']}"
                           for a in c["inst_attrs"] if not a.get("unpacked")] or ["pass"]
        unpacked = [a for a in c["inst_attrs"] if a.get("unpacked")]
        if unpacked:
            f["extra_body"].append(", ".join(f"self.{a['name']}" for a in unpacked) + " = " + ", ".join(a["value"] for a in unpacked))
        if ex.get("subscript"):
            f["extra_body"] += ['self.__dict__["extra_key"] = 1', "self.__dict__['a'], self.__dict__['b'] = 1, 2"]
        lines += func_src(f, inner, style)
        body = True
    for m in c["methods"]:
        lines += func_src(m, inner, style)
        if m.get("is_property") and ex.get("setters"):
            lines += [f"{inner}@{m['name']}.setter", f"{inner}def {m['name']}(self, new_value) -> None:", f"{inner}    ..."]
        lines.append("")
        body = True
    if ex.get("overload"):
        lines += [f"{inner}@overload", f"{inner}def ov_{c['name'].strip('_')}(self, v: int) -> int: ...",
                  f"{inner}@overload", f"{inner}def ov_{c['name'].strip('_')}(self, v: str) -> str: ...",
                  f"{inner}def ov_{c['name'].strip('_')}(self, v):", f"{inner}    return v", ""]
        if ex.get("overload_static"):
            lines += [f"{inner}@overload", f"{inner}@staticmethod", f"{inner}def ovs_{c['name'].strip('_')}(v: int) -> int: ...",
                      f"{inner}@overload", f"{inner}@staticmethod", f"{inner}def ovs_{c['name'].strip('_')}(v: str) -> str: ...",
                      f"{inner}@staticmethod", f"{inner}def ovs_{c['name'].strip('_')}(v):", f"{inner}    return v", ""]
        body = True
    if not ex.get("nested_first"):
        for k in c["classes"]:
            lines += class_src(k, inner, style)
            body = True
    if not body and not c["doc"]:
        lines.append(f"{inner}...")
    elif not body:
        lines.append(f"{inner}pass")
    return lines


def module_src(m, style: str) -> str:
    lines = []
    if m["doc"]:
        lines.append(f'"""{m["doc"]}"""')
    lines += ["from __future__ import annotations", "import sys", "from typing import TYPE_CHECKING, Any, Callable, Literal, Optional, Union, overload",
              "from collections.abc import Collection, Mapping, Sequence", "from enum import Enum", ""]
    for q in m.get("plain_imports", []):
        lines.append(f"import {q}")
    refs: set = set()

    def walk_f(f):
        for p in f["params"]:
            if p["ann"] is not None:
                ann_classes(p["ann"], refs)
        if f["ret"] is not None:
            ann_classes(f["ret"], refs)

    def walk_c(c):
        for b in c["bases"]:
            refs.add(b)
        for a in c["attrs"]:
            if a["ann"] is not None:
                ann_classes(a["ann"], refs)
        if c["init"]:
            walk_f(c["init"])
        for mm in c["methods"]:
            walk_f(mm)
        for k in c["classes"]:
            walk_c(k)
    for c in m["classes"]:
        walk_c(c)
    for f in m["functions"]:
        walk_f(f)
    for n, q in sorted(refs):
        mod = ".".join(q.split(".")[:-1])
        if mod != m["qname"] and not mod.startswith(m["qname"] + "."):
            top = q[len(mod) + 1:]
            # q may name a nested class: import the module-level owner
            parts = q.split(".")
            lines.append(f"from {mod} import {top}")
    lines.append("")
    if m.get("aliases"):
        lines += ['ZzJson = Union[None, bool, int, float, str, list["ZzJson"], dict[str, "ZzJson"]]', "ZzVec = list[float]", "",
                  "def zz_alias_user(data: ZzJson, v: ZzVec) -> ZzJson:", "    ...", ""]
    for e in m["enums"]:
        lines.append(f"class {e['name']}(Enum):")
        if e["doc"]:
            lines.append(doc_block("plaintext", e["doc"], [], None, "    ").rstrip("\n"))
        for i, mem in enumerate(e["members"]):
            lines.append(f"    {mem} = {i + 1}")
        if e.get("method"):
            lines += ["    def describe(self) -> str:", "        return 'x'"]
        if not e["members"] and not e["doc"]:
            lines.append("    ...")
        lines.append("")
    for c in m["classes"]:
        lines += c.get("extras", {}).get("pre_lines", [])
        lines += class_src(c, "", style)
        lines.append("")
    if m.get("overload_fn"):
        lines += ["@overload", "def zz_overloaded(v: int) -> int: ...", "@overload", "def zz_overloaded(v: str) -> str: ...",
                  "def zz_overloaded(v):", "    return v", ""]
    for f in m["functions"]:
        lines += func_src(f, "", style)
        lines.append("")
    if m.get("generic_tail"):
        lines += ["from typing import Generic, TypeVar", 'ZzK = TypeVar("ZzK")', 'ZzV = TypeVar("ZzV")', "",
                  "class ZzEntry(Generic[ZzK, ZzV]):", "    zz_key: ZzK", "    zz_value: ZzV", ""]
    lines += m.get("raw_tail", [])       # verbatim source (constructs the specification language has no term for)
    ma = m.get("member_access")
    if ma:
        lines.append(f"import {ma['module']} as _zz_m")
        for k, n in enumerate(ma["funcs"]):
            lines.append(f"_ZZ_F{k} = _zz_m.{n}")
        for k, n in enumerate(ma["classes"]):
            lines.append(f"_zz_c{k} = [_zz_m.{n}]")
        for k, n in enumerate(ma["enums"]):
            lines.append(f"_zz_e{k} = (_zz_m.{n}, 1)")
        lines.append("")
    return "\n".join(lines) + "\n"


def init_src(entries, pkg_qname: str = "") -> str:
    lines = []
    for e in entries:
        if e["form"] == "name" and e.get("relative") and e["module"].startswith(pkg_qname + "."):
            # `from .sub.mod import x` — the import is stored the way it is written
            lines.append(f"from .{e['module'][len(pkg_qname) + 1:]} import {e['name']}" + (f" as {e['alias']}" if e["alias"] else ""))
        elif e["form"] == "name":
            lines.append(f"from {e['module']} import {e['name']}" + (f" as {e['alias']}" if e["alias"] else ""))
        elif e["form"] == "star":
            lines.append(f"from {e['module']} import *")
        else:
            parent = ".".join(e["module"].split(".")[:-1])
            lines.append(f"from {parent} import {e['name']}" + (f" as {e['alias']}" if e["alias"] else ""))
    return "\n".join(lines) + ("\n" if lines else "")


def render(pkg) -> dict[str, str]:
    files = {}
    for p, entries in pkg["inits"].items():
        files[p + "/__init__.py"] = init_src(entries, p.replace("/", "."))
    for m in pkg["modules"]:
        files["/".join(m["pkg"] + [m["name"] + ".py"])] = module_src(m, pkg["style"])
    return files
