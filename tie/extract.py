"""Extractor: a reflective dump of the mypy nodes the tool reads into the `Src` JSON that
lean/StubGen/Driver/SrcJson.lean decodes.  Decides nothing: every field is an attribute read (or an
isinstance test the tool itself performs).  inspect.cleandoc is applied here to string statements
because Lean cannot run it."""
from __future__ import annotations

import inspect

import mypy.nodes as N
import mypy.types as T


def mtype(t):
    if t is None:
        return None
    if isinstance(t, T.Instance):
        return {"k": "inst", "name": t.type.name, "fullname": t.type.fullname, "args": [mtype(a) for a in t.args]}
    if isinstance(t, T.UnionType):
        return {"k": "union", "items": [mtype(a) for a in t.items]}
    if isinstance(t, T.TupleType):
        return {"k": "tuple", "items": [mtype(a) for a in t.items]}
    if isinstance(t, T.CallableType):
        return {"k": "callable", "args": [mtype(a) for a in t.arg_types], "ret": mtype(t.ret_type)}
    if isinstance(t, T.AnyType):
        return {"k": "any", "type_of_any": int(t.type_of_any), "missing": t.missing_import_name or ""}
    if isinstance(t, T.NoneType):
        return {"k": "none"}
    if isinstance(t, T.LiteralType):
        return {"k": "literal", "value": t.value}
    if isinstance(t, T.TypeVarType):
        return {"k": "typevar", "name": t.name, "upper": mtype(t.upper_bound), "upper_str": str(t.upper_bound)}
    if isinstance(t, T.UnboundType):
        return {"k": "unbound", "name": t.name, "args": [mtype(a) for a in t.args]}
    n = getattr(t, "name", None)
    return {"k": "other", "cls": type(t).__name__, "name": n if isinstance(n, str) else None}


def expr(e):
    if e is None:
        return None
    if isinstance(e, N.NameExpr):
        node = e.node
        is_self = bool(getattr(node, "is_self", False))
        tn = tq = ""
        if is_self:
            try:
                tn, tq = node.type.type.name, node.type.type.fullname
            except AttributeError:
                is_self = True
        return {"k": "name", "name": e.name, "fullname": e.fullname or "", "is_self": is_self,
                "self_type_name": tn, "self_type_fullname": tq}
    if isinstance(e, N.IntExpr):
        return {"k": "int", "v": e.value}
    if isinstance(e, N.FloatExpr):
        return {"k": "float", "repr": f"{e.value}"}
    if isinstance(e, N.StrExpr):
        return {"k": "str", "v": e.value}
    if isinstance(e, N.TupleExpr):
        return {"k": "tuple", "items": [expr(x) for x in e.items]}
    if isinstance(e, N.UnaryExpr):
        return {"k": "unary", "op": e.op, "e": expr(e.expr)}
    if isinstance(e, N.CallExpr):
        return {"k": "call"}
    if isinstance(e, N.MemberExpr):
        return {"k": "member"}
    if isinstance(e, N.ConditionalExpr):
        return {"k": "cond", "if": expr(e.if_expr), "else": expr(e.else_expr)}
    return {"k": "other", "kind": type(e).__name__}


def var(node):
    if not isinstance(node, N.Var):
        return None
    return {"fullname": node.fullname, "type": mtype(node.type), "is_inferred": bool(node.is_inferred),
            "explicit_self_type": bool(node.explicit_self_type)}


def lvalue(lv):
    if isinstance(lv, N.NameExpr):
        return {"k": "name", "name": lv.name, "fullname": lv.fullname or "", "is_var": isinstance(lv.node, N.Var), "var": var(lv.node)}
    if isinstance(lv, N.MemberExpr):
        return {"k": "member", "name": lv.name, "fullname": lv.fullname or "", "is_var": isinstance(lv.node, N.Var), "var": var(lv.node)}
    if isinstance(lv, N.TupleExpr):
        return {"k": "tuple", "items": [lvalue(x) for x in lv.items]}
    return {"k": "other"}


def assignment(a):
    return {"lvalues": [lvalue(x) for x in a.lvalues], "un": mtype(a.unanalyzed_type)}


def stmt(s):
    if isinstance(s, N.ReturnStmt):
        return {"k": "ret", "e": expr(s.expr)}
    if isinstance(s, N.IfStmt):
        return {"k": "if", "body": [stmt(b) for b in s.body], "else": None if not s.else_body else [stmt(x) for x in s.else_body.body]}
    if isinstance(s, N.Block):
        return {"k": "block", "body": [stmt(x) for x in s.body]}
    if isinstance(s, N.TryStmt):
        return {"k": "try", "body": [stmt(x) for x in s.body.body], "handlers": [stmt(h) for h in s.handlers]}
    if isinstance(s, N.MatchStmt):
        return {"k": "match", "bodies": [stmt(b) for b in s.bodies]}
    if isinstance(s, (N.WhileStmt, N.WithStmt, N.ForStmt)):
        return {"k": "loop", "body": [stmt(x) for x in s.body.body]}
    if isinstance(s, N.AssignmentStmt):
        return {"k": "assign", "a": assignment(s)}
    if isinstance(s, N.ExpressionStmt) and isinstance(s.expr, N.StrExpr):
        return {"k": "doc", "raw": s.expr.value, "cleaned": inspect.cleandoc(s.expr.value)}
    return {"k": "other"}


def func(f):
    t = f.type
    has_ct = t is not None and hasattr(t, "ret_type")
    un_ret = getattr(f.unanalyzed_type, "ret_type", None)
    return {"name": f.name, "fullname": f.fullname, "is_static": bool(f.is_static), "is_class": bool(f.is_class),
            "is_property": bool(f.is_property),
            "args": [{"name": a.variable.name, "is_self": bool(a.variable.is_self), "is_cls": bool(a.variable.is_cls),
                      "kind": int(a.kind.value), "pos_only": bool(a.pos_only), "var_type": mtype(a.variable.type),
                      "annotation": mtype(a.type_annotation), "init": expr(a.initializer)} for a in (f.arguments or [])],
            "has_callable_type": bool(has_ct), "ret": mtype(t.ret_type) if has_ct else None, "un_ret": mtype(un_ret),
            "un_ret_literal_is_none": bool(un_ret) and getattr(un_ret, "literal_value", "") is None,
            "body": [stmt(x) for x in f.body.body]}


def type_var(node):
    if not isinstance(node, N.TypeVarExpr):
        return None
    return {"name": node.name, "variance": int(node.variance), "values": [mtype(v) for v in node.values],
            "upper": mtype(node.upper_bound), "upper_str": str(node.upper_bound)}


def base_expr(e, info_bases: dict):
    fullname = getattr(e, "fullname", None)
    node = getattr(e, "node", None)
    ti = None
    if isinstance(node, N.TypeInfo):
        ti = node.fullname
        collect_bases(node, info_bases)
    b = getattr(e, "base", None)
    base_name = getattr(b, "name", None)
    idx = getattr(e, "index", None)
    if isinstance(idx, N.TupleExpr):
        index = {"k": "tuple", "items": [type_var(i.node) for i in idx.items if hasattr(i, "node")]}
    elif isinstance(idx, N.NameExpr):
        index = {"k": "name", "tv": type_var(idx.node)}
    elif idx is None:
        index = {"k": "none"}
    else:
        index = {"k": "other"}
    return {"has_fullname": hasattr(e, "fullname"), "fullname": fullname or "", "type_info": ti,
            "base_name": base_name if isinstance(base_name, str) else None, "index": index}


def collect_bases(info, info_bases: dict) -> None:
    if info.fullname in info_bases:
        return
    info_bases[info.fullname] = [b.type.fullname for b in info.bases]
    for b in info.bases:
        collect_bases(b.type, info_bases)


def definition(d, info_bases: dict):
    if isinstance(d, N.FuncDef):
        return {"k": "func", "f": func(d)}
    if isinstance(d, N.Decorator):
        return {"k": "decorator", "f": func(d.func)}
    if isinstance(d, N.OverloadedFuncDef):
        # the walker takes `impl`, or the first item when there is no implementation; Decorators are unwrapped
        node = d.impl if d.impl is not None else (d.items[0] if d.items else None)
        if isinstance(node, N.Decorator):
            node = node.func
        return {"k": "overloaded", "impl": None if node is None else func(node)}
    if isinstance(d, N.ClassDef):
        return {"k": "class", "name": d.name, "fullname": d.fullname,
                "bases": [base_expr(b, info_bases) for b in d.base_type_exprs],
                "removed": [base_expr(b, info_bases) for b in d.removed_base_type_exprs],
                "defs": [definition(x, info_bases) for x in d.defs.body]}
    if isinstance(d, N.AssignmentStmt):
        return {"k": "assign", "a": assignment(d)}
    if isinstance(d, N.ExpressionStmt) and isinstance(d.expr, N.StrExpr):
        return {"k": "doc", "raw": d.expr.value, "cleaned": inspect.cleandoc(d.expr.value)}
    return {"k": "other", "kind": type(d).__name__}


def module(tree, info_bases: dict):
    imports = []
    for i in tree.imports:
        if isinstance(i, N.Import):
            imports.append({"k": "import", "ids": [[a, b] for a, b in i.ids]})
        elif isinstance(i, N.ImportFrom):
            imports.append({"k": "from", "id": i.id, "names": [[a, b] for a, b in i.names]})
        elif isinstance(i, N.ImportAll):
            imports.append({"k": "all", "id": i.id})
    return {"path": tree.path, "fullname": tree.fullname, "name": tree.name, "imports": imports,
            "defs": [definition(d, info_bases) for d in tree.defs]}


def extract(asts, aliases) -> dict:
    info_bases: dict = {}
    mods = [module(t, info_bases) for t in asts]
    return {"modules": mods, "aliases": [[k, list(v)] for k, v in aliases.items()],
            "info_bases": [[k, v] for k, v in info_bases.items()]}


def alias_facts(result_types, bound_fullname) -> tuple[list[dict], dict]:
    """What `_get_aliases` reads of each entry of `build_result.types`, in dict order (keys of the three expression
    classes it looks at only; the others are counted).  `bound_fullname` is the tool's own `_get_bound_type_fullname`."""
    facts = []
    stats = {"other_keys": 0, "callable_with_type": 0}
    for key, v in result_types.items():
        if isinstance(key, N.NameExpr):
            k = "n"
        elif isinstance(key, N.MemberExpr):
            k = "m"
        elif isinstance(key, N.TypeVarExpr):
            k = "t"
        else:
            stats["other_keys"] += 1
            continue
        f = {"k": k, "n": key.name, "f": key.fullname or ""}
        if k == "n":
            node = getattr(key, "node", None)
            if isinstance(node, N.TypeAlias) and isinstance(node.target, T.Instance):
                f["nk"], f["nf"] = "alias", node.target.type.fullname
            elif isinstance(node, N.Var):
                f["nk"], f["nf"] = "var", node.fullname
        has_type = hasattr(v, "type") and getattr(v, "type", None) is not None
        if isinstance(v, T.Instance):
            f["vk"], f["vn"], f["vf"] = "inst", v.type.name, v.type.fullname
        elif isinstance(v, T.CallableType):
            if has_type:
                stats["callable_with_type"] += 1      # the model assumes this never happens
            f["vk"], f["vf"] = "call", bound_fullname(v)
        elif has_type:
            f["vk"], f["vn"], f["vf"] = "typed", v.type.name, v.type.fullname
        facts.append(f)
    return facts, stats
