"""S-E — end-to-end runs of the tool on generated packages (real mypy + griffe), with the property
oracles of tie/oracles_e2e.py evaluated against the package specification.  Runs in a process pool."""
from __future__ import annotations

import multiprocessing as mp
import os
import random
import shutil
import time

import e2e
from common import pool_results
import implrun
import oracles_e2e
import pkggen

_IMPL = None


def _impl():
    global _IMPL
    if _IMPL is None:
        _IMPL = implrun.load()
    return _IMPL


PROFILES = {
    # per property: generator settings and the option sets to run
    "default": dict(gen=dict(), options=[dict()]),
    "C01": dict(gen=dict(kw_rate=0.03, docs=0.5, test_dirs=True, aliases=0.4),
                options=[dict(style=s, test_run=t, convert=c, tsp=p, tsw=w) for s, t, c, p, w in
                         [("plaintext", False, False, "CODE", "WARN"), ("numpydoc", True, True, "DOCSTRING", "IGNORE"),
                          ("google", False, True, "CODE", "IGNORE"), ("rest", True, False, "DOCSTRING", "WARN")]]),
    "C02": dict(gen=dict(kw_rate=0.25, docs=0.6), options=[dict(convert=False), dict(convert=True)]),
    "C03": dict(gen=dict(private_rate=0.3, chains=0.5), options=[dict()]),
    "C04": dict(gen=dict(private_rate=0.4, unique_top_names=False, decoys=0.6), options=[dict()]),
    "C05": dict(gen=dict(docs=0.0, infer_returns=0.0), options=[dict()]),
    "C06": dict(gen=dict(docs=0.0), options=[dict(), dict(convert=True)]),
    "C07": dict(gen=dict(docs=0.0, infer_returns=0.5, ties=0.3), options=[dict()]),
    "C10": dict(gen=dict(private_rate=0.3), options=[dict(), dict(convert=True)]),
    "C11": dict(gen=dict(twins=0.6), options=[dict()]),
    "C12": dict(gen=dict(private_rate=0.3, ties=0.4, base_alias=0.7), options=[dict()]),
    "C13": dict(gen=dict(docs=0.85, reexports=False), options=[dict()], history=True),
    "C20": dict(gen=dict(docs=0.0), options=[dict()]),
    "C14": dict(gen=dict(docs=1.0, doc_types="mixed", infer_returns=0.1), styles=["numpydoc", "google", "rest"],
                options=[dict(tsp=p, tsw=w) for p in ("CODE", "DOCSTRING") for w in ("WARN", "IGNORE")]),
    "C17": dict(gen=dict(private_rate=0.45, docs=0.0, chains=0.5), options=[dict(), dict(convert=True)]),
    "C09": dict(gen=dict(kw_rate=0.1, docs=0.3), options=[dict(convert=False), dict(convert=True)]),
    "C16": dict(gen=dict(docs=0.3), options=[dict(), dict(convert=True)], twice=True, history=True),
}


def one_case(task):
    prop, seed, tier = task
    prof = PROFILES.get(prop, PROFILES["default"])
    rng = random.Random(seed)
    gen_kw = dict(prof["gen"])
    style = gen_kw.pop("style", None) or rng.choice(prof.get("styles", ["plaintext", "numpydoc", "google", "rest"]))
    g = pkggen.PkgGen(rng, style=style, **gen_kw)
    pkg = g.package()
    files = pkggen.render(pkg)
    top = implrun.WORK / f"se_{os.getpid()}_{seed}"
    out = {"seed": seed, "fails": [], "outcomes": [], "n_files": 0, "n_decls": 0, "style": style, "sample": None}
    try:
        e2e.write_pkg(files, top / "src")
        runs = []
        for k, o in enumerate(prof["options"]):
            opts = {"style": style, **o}
            res = e2e.run_tool(_impl(), top / "src" / pkg["root"], top / f"out{k}", **opts)
            if prof.get("twice"):
                # C16: the CLI run a second time into the same, now populated, output directory
                res["second_run"] = e2e.run_tool(_impl(), top / "src" / pkg["root"], top / f"out{k}", **opts)
            out["outcomes"].append(res["outcome"] if res["outcome"] != "exc" else f"{res['exc']}@{res['site']}")
            out["n_files"] += len(res["files"])
            runs.append((opts, res))
            fails = oracles_e2e.check_all(prop, pkg, opts, res)
            for p, what, extra in fails[:8]:
                out["fails"].append((p, what, {"stage": "S-E", "seed": seed, "options": opts, **extra}))
            if out["sample"] is None:
                out["sample"] = {"seed": seed, "options": opts, "modules": [m["qname"] for m in pkg["modules"]],
                                 "stub_files": sorted(p for p in res["files"] if p.endswith(".sdsstub"))[:6]}
        if prof.get("history") and seed % 2 == 0:
            # C13 / C16: ANOTHER package written to the SAME path and analysed later in the same process must be judged
            # from its own sources (nothing remembered from the earlier analysis of that path)
            rng2 = random.Random(seed ^ 0x5EED5EED)
            pkg2 = pkggen.PkgGen(rng2, style=style, **gen_kw).package()
            if pkg2["root"] == pkg["root"]:
                shutil.rmtree(top / "src", ignore_errors=True)
                e2e.write_pkg(pkggen.render(pkg2), top / "src")
                opts = {"style": style, **prof["options"][0]}
                res2 = e2e.run_tool(_impl(), top / "src" / pkg2["root"], top / "out_history", **opts)
                out["outcomes"].append(res2["outcome"] if res2["outcome"] != "exc" else f"{res2['exc']}@{res2['site']}")
                if res2["outcome"] == "exc":
                    # does the same package complete at a path that was never analysed?  then the abort is history
                    e2e.write_pkg(pkggen.render(pkg2), top / "src_fresh")
                    res3 = e2e.run_tool(_impl(), top / "src_fresh" / pkg2["root"], top / "out_fresh", **opts)
                    if res3["outcome"] == "ok":
                        out["fails"].append((prop, f"the run ends with {res2['exc']} at {res2['site']} because ANOTHER package was analysed "
                                                   f"at the same path earlier in this process; at a fresh path the same package completes",
                                             {"stage": "S-E", "seed": seed, "options": opts,
                                              "history": "generator seed ^ 0x5EED5EED written over the first package", "msg": res2.get("msg")}))
                for p, what, extra in oracles_e2e.check_all(prop, pkg2, opts, res2)[:8]:
                    out["fails"].append((p, what, {"stage": "S-E", "seed": seed, "options": opts,
                                                   "history": "a different package was analysed at the same path earlier in this "
                                                              "process (generator seed ^ 0x5EED5EED)", **extra}))
                if out["fails"] and not files.get("__history__"):
                    files = {**files, **{"history/" + k: v for k, v in pkggen.render(pkg2).items()}}
        for p, what, extra in oracles_e2e.check_cross(prop, pkg, runs)[:4]:
            out["fails"].append((p, what, {"stage": "S-E", "seed": seed, **extra}))
        out["n_decls"] = sum(len(m["functions"]) + len(m["classes"]) + len(m["enums"]) for m in pkg["modules"])
        out["sources"] = files if out["fails"] else None
    finally:
        shutil.rmtree(top, ignore_errors=True)
    return out


def run(ctx) -> None:
    rep = ctx.rep
    prop = ctx.prop
    n = {"quick": 48, "thorough": 600}[ctx.tier]
    rng = random.Random(ctx.seed * 2654435761 % (1 << 31) + 17)
    tasks = [(prop, rng.randrange(1 << 40), ctx.tier) for _ in range(n)]
    rule = ("S-E: generated Python packages (1-3 package levels, public/private modules, classes with attributes/"
            "constructors/instance attributes/static, class and property methods/nested classes/base classes across "
            "modules, functions with all five parameter kinds and literal defaults, annotations over the type grammar "
            "to depth 3, un-annotated bodies with nested return statements, enums, docstrings in four styles with unique "
            "marker texts, __init__ re-exports by name/alias/star/module) run through the real tool (mypy + griffe); "
            "non-trivial = the run produced >= 2 stub files; distinct by generator seed")
    rep.rule = (rep.rule + " | " if rep.rule else "") + rule
    implrun.WORK.mkdir(exist_ok=True)
    t0 = time.time()
    with mp.get_context("fork").Pool(min(16, os.cpu_count() or 4)) as pool:
        for r in pool_results(pool, one_case, tasks, ctx.deadline):
            if time.time() > ctx.deadline:
                pool.terminate()
                break
            rep.evaluations += len(r["outcomes"])
            for o in r["outcomes"]:
                rep.bump("e2e_outcome", o)
            rep.bump("e2e_style", r["style"])
            if r["n_files"] >= 3:
                rep.nontrivial.add(r["seed"])
            if r["sample"]:
                rep.sample(r["sample"], limit=3)
            for p, what, replay in r["fails"]:
                if r.get("sources") and len(rep.violations) < 3:
                    replay = {**replay, "sources": r["sources"]}
                ctx.oracle_failure(p, what, replay)
    rep.extra["e2e_wall_s"] = round(time.time() - t0, 1)
