"""S-C — regression corpus: one small hand-written package per repaired defect (corpus/<id>/case.json: sources,
options, expectations), run through the whole tool.  Runs first in the check of the property the defect belonged to:
a defect that returns is reported with the corpus entry as replay."""
from __future__ import annotations

import json
import os
import shutil
from pathlib import Path

import e2e
import implrun

CORPUS = Path(__file__).resolve().parent.parent / "corpus"


def load(prop: str) -> list[dict]:
    out = []
    for d in sorted(CORPUS.iterdir()) if CORPUS.exists() else []:
        f = d / "case.json"
        if f.exists():
            c = json.loads(f.read_text())
            if c["property"] == prop:
                out.append(c)
    return out


def evaluate(case: dict, res: dict) -> list[str]:
    fails = []
    api = res.get("api") or {}
    for chk in case["checks"]:
        k = chk["kind"]
        if k == "outcome":
            if res["outcome"] != chk["is"]:
                fails.append(f"run ended with {res['outcome']} ({res.get('exc', '')} {res.get('msg', '')[:80]}), expected {chk['is']}")
        elif k in ("stub_contains", "stub_not_contains"):
            text = res["files"].get(chk["path"])
            if text is None:
                fails.append(f"stub {chk['path']} was not written")
            elif (chk["text"] in text) != (k == "stub_contains"):
                fails.append(f"stub {chk['path']} {'lacks' if k == 'stub_contains' else 'contains'} {chk['text']!r}")
        elif k == "file_exists":
            if chk["path"] not in res["files"]:
                fails.append(f"file {chk['path']} was not written")
        elif k == "file_absent":
            if chk["path"] in res["files"]:
                fails.append(f"file {chk['path']} was written")
        elif k == "api_ids":
            ids = {x["id"] for x in api.get(chk["table"], [])}
            for i in chk["contains"]:
                if i not in ids:
                    fails.append(f"API JSON: {chk['table']} lacks {i}")
            for i in chk["not_contains"]:
                if i in ids:
                    fails.append(f"API JSON: {chk['table']} contains {i}")
            all_ids = [x["id"] for x in api.get(chk["table"], [])]
            if len(all_ids) != len(set(all_ids)):
                fails.append(f"API JSON: duplicate ids in {chk['table']}")
        elif k == "api_field":
            x = next((x for x in api.get(chk["table"], []) if x["id"] == chk["id"]), None)
            if x is None:
                fails.append(f"API JSON: {chk['table']} lacks {chk['id']}")
            elif x.get(chk["field"]) != chk["equals"]:
                fails.append(f"API JSON: {chk['id']}.{chk['field']} = {x.get(chk['field'])!r}, expected {chk['equals']!r}")
        elif k == "no_warning":
            if any(chk["text"] in w for w in res.get("warnings", [])):
                fails.append(f"a warning containing {chk['text']!r} was logged")
    return fails


def run(ctx) -> None:
    rep = ctx.rep
    cases = load(ctx.prop)
    if not cases:
        return
    rep.rule = (rep.rule + " | " if rep.rule else "") + (
        f"S-C: {len(cases)} corpus package(s) of repaired defects of this property, run through the whole tool with the "
        "recorded options; expectations on stubs / API JSON / outcome")
    impl = implrun.load()
    implrun.WORK.mkdir(exist_ok=True)
    for case in cases:
        top = implrun.WORK / f"sc_{os.getpid()}_{case['id']}"
        try:
            e2e.write_pkg(case["files"], top / "src")
            res = e2e.run_tool(impl, top / "src" / "pkg", top / "out", **case.get("options", {}))
            rep.evaluations += 1
            rep.bump("corpus", case["id"])
            rep.nontrivial.add(("corpus", case["id"]))
            for f in evaluate(case, res):
                ctx.oracle_failure(ctx.prop, f"corpus {case['id']} ({case['finding']}): {f}",
                                   {"stage": "S-C", "corpus": case["id"], "finding": case["finding"], "options": case.get("options", {}),
                                    "sources": case["files"]})
        finally:
            shutil.rmtree(top, ignore_errors=True)
