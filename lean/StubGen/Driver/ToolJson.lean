/- driver op "tool": the whole pipeline (`Model/Pipeline.lean`) on one request. -/
import StubGen.Driver.ApiJson
import StubGen.Driver.SrcJson
import StubGen.Model.Pipeline

open Lean

namespace StubGen.Driver

def decParts (x : Json) : List String :=
  match x with
  | .arr a => a.toList.filterMap fun y => match y with | .str s => some s | _ => none
  | _ => []

def decAliasFact (j : Json) : AliasFact :=
  let kind := match getStr j "k" with
    | "n" => KeyKind.nameExpr | "m" => .memberExpr | "t" => .typeVarExpr | _ => .other
  let node := match getStr j "nk" with
    | "alias" => KeyNode.aliasToInstance (getStr j "nf")
    | "var" => .var (getStr j "nf")
    | _ => .other
  let val := match getStr j "vk" with
    | "inst" => ValType.instance (getStr j "vn") (getStr j "vf")
    | "call" => .callable (getStr j "vf")
    | "typed" => .withType (getStr j "vn") (getStr j "vf")
    | _ => .other
  { kind := kind, name := getStr j "n", fullname := getStr j "f", node := node, val := val }

def encTable (t : List (String × List String)) : Json :=
  .arr (t.map fun kv => Json.arr #[.str kv.1, .arr (kv.2.map Json.str).toArray]).toArray

def runToolOp (j : Json) : Json :=
  let o := getJson j "opts"
  let opts : AnalyzeOptions := { plaintext := getBool o "plaintext", style := decStyle (getStr o "style"),
                                 preferDocstring := getBool o "prefer_docstring", warn := getBool o "warn" }
  let root : GNode := match getJson j "doc_tree" with
    | .null => { name := "" }
    | t => decGNode t
  let inp : ToolInput :=
    { srcDir := decParts (getJson j "src_dir"), files := (getArr j "files").map decParts, isTestRun := getBool j "test_run",
      graph := (getArr j "modules").map decSrcModule, aliasFacts := (getArr j "alias_facts").map decAliasFact,
      infoBases := decStrTable j "info_bases", docRoot := root, opts := opts, safe := getBool j "safe",
      preexisting := getStrs j "preexisting" }
  -- the stages of the pipeline are also reported one by one, so that a disagreement is attributed
  let disc := match discoverSorted inp.srcDir inp.files inp.isTestRun with
    | .ok (root, d) => Json.mkObj [("root", .str (pathStr root)), ("package", .str (pathStem root)),
        ("selected", .arr ((selectModules inp.graph d).map (Json.str ·.path)).toArray)]
    | .error e => Json.mkObj [("err", .str e.name)]
  let al := match discoverSorted inp.srcDir inp.files inp.isTestRun with
    | .ok (root, _) => encTable (getAliases (pathStem root) inp.aliasFacts)
    | .error _ => .null
  match runTool inp with
  | .error e => Json.mkObj [("ok", .bool false), ("err", .str e.name), ("discovery", disc), ("aliases", al)]
  | .ok r =>
    let files := applyWrites [] r.gen.ops
    Json.mkObj [("ok", .bool true), ("discovery", disc), ("aliases", al), ("package", .str r.packageName),
      ("analysed", .arr (r.analysed.map Json.str).toArray),
      ("warnings", .arr (r.warnings.map Json.str).toArray),
      ("api_file", .str r.apiFileName), ("api_text", .str r.apiFileText),
      ("outside", .arr ((sortStrings r.gen.outside).map Json.str).toArray),
      ("ops", .arr (r.gen.ops.map encOp).toArray),
      ("files", .arr (files.map fun (p, t) => Json.arr #[.str p, .str t]).toArray)]

end StubGen.Driver
