/- Decoding of the harness' JSON serialisation of an `API` object (tie/apijson.py) into the model. -/
import StubGen.Driver.Json
import StubGen.Model.Files

open Lean

namespace StubGen.Driver

def decType (j : Json) : Option AType :=
  match j with
  | .null => none
  | _ => match AType.fromDict (jsonToPy j) with
    | .ok t => some t
    | .error _ => some .unknown

def decDoc (j : Json) : Docstring :=
  { description := getStr j "description", fullDocstring := getStr j "full_docstring", examples := getStrs j "examples" }

def decDefault (j : Json) : DefaultVal :=
  match getStr j "k" with
  | "str" => .str (getStr j "v")
  | "bool" => .bool (getBool j "v")
  | "int" => .int ((j.getObjValAs? Int "v").toOption.getD 0)
  | "float" => .float (getStr j "v")
  | "unknown" => .unknown
  | _ => .none

def decAssign (s : String) : Assign :=
  match s with
  | "IMPLICIT" => .implicit | "POSITION_ONLY" => .positionOnly | "POSITION_OR_NAME" => .positionOrName
  | "POSITIONAL_VARARG" => .positionalVararg | "NAME_ONLY" => .nameOnly | _ => .namedVararg

def decParam (j : Json) : Parameter :=
  let d := getJson j "doc"
  { id := getStr j "id", name := getStr j "name", isOptional := getBool j "is_optional",
    default := decDefault (getJson j "default"), assignedBy := decAssign (getStr j "assigned_by"),
    doc := { type := decType (getJson d "type"), defaultValue := getStr d "default_value", description := getStr d "description" },
    type := decType (getJson j "type") }

def decQImport (j : Json) : QImport := { qualifiedName := getStr j "qualified_name", alias := getStrOpt j "alias" }

def decModRef (j : Json) : ModRef :=
  { id := getStr j "id", qualifiedImports := (getArr j "qualified_imports").map decQImport,
    wildcardImports := getStrs j "wildcard_imports" }

def decFunction (j : Json) : Function :=
  { id := getStr j "id", name := getStr j "name", doc := decDoc (getJson j "doc"),
    isPublic := getBool j "is_public", isStatic := getBool j "is_static", isClassMethod := getBool j "is_class_method",
    isProperty := getBool j "is_property",
    resultDocs := (getArr j "result_docs").map fun r =>
      { type := decType (getJson r "type"), description := getStr r "description", name := getStr r "name" },
    typeVars := (getArr j "type_vars").map fun t => { name := getStr t "name", upperBound := decType (getJson t "upper_bound") },
    results := (getArr j "results").map fun r => { id := getStr r "id", name := getStr r "name", type := decType (getJson r "type") },
    reexportedBy := (getArr j "reexported_by").map decModRef,
    params := (getArr j "params").map decParam }

def decVariance (s : String) : Variance :=
  match s with
  | "COVARIANT" => .covariant | "CONTRAVARIANT" => .contravariant | _ => .invariant

instance : Inhabited Class := ⟨{ id := "", name := "", isPublic := false }⟩

partial def decClass (j : Json) : Class :=
  { id := getStr j "id", name := getStr j "name", superclasses := getStrs j "superclasses",
    isPublic := getBool j "is_public", doc := decDoc (getJson j "doc"),
    ctor := match getJson j "ctor" with
      | .null => none
      | c => some (decFunction c),
    inheritsFromException := getBool j "inherits_from_exception",
    reexportedBy := (getArr j "reexported_by").map decModRef,
    attributes := (getArr j "attributes").map fun a =>
      let d := getJson a "doc"
      { id := getStr a "id", name := getStr a "name", isPublic := getBool a "is_public", isStatic := getBool a "is_static",
        type := decType (getJson a "type"),
        doc := { type := decType (getJson d "type"), description := getStr d "description" } },
    methods := (getArr j "methods").map decFunction,
    classes := (getArr j "classes").map decClass,
    typeParams := (getArr j "type_parameters").map fun t =>
      { name := getStr t "name", type := decType (getJson t "type"), variance := decVariance (getStr t "variance") } }

def decEnum (j : Json) : Enum :=
  { id := getStr j "id", name := getStr j "name", doc := decDoc (getJson j "doc"),
    instances := (getArr j "instances").map fun i => { id := getStr i "id", name := getStr i "name" } }

def decModule (j : Json) : Module :=
  { id := getStr j "id", name := getStr j "name", docstring := getStr j "docstring",
    qualifiedImports := (getArr j "qualified_imports").map decQImport,
    wildcardImports := getStrs j "wildcard_imports",
    classes := (getArr j "classes").map decClass,
    functions := (getArr j "functions").map decFunction,
    enums := (getArr j "enums").map decEnum }

def decApi (j : Json) : API :=
  { package := getStr j "package",
    modules := (getArr j "modules").map decModule,
    classes := (getArr j "classes").map decClass,
    reexportMap := (getArr j "reexport_map").map fun kv =>
      (getStr kv "key", (getArr kv "modules").map decModRef) }

def encStub (d : StubData) : Json :=
  Json.mkObj [("dir", .str d.dir), ("name", .str d.name), ("text", .str d.text), ("pkg", .bool d.isPackageModule)]

def encOp (o : WriteOp) : Json :=
  Json.mkObj [("path", .str o.path), ("mode", .str (if o.mode == .write then "w" else "a")), ("text", .str o.text)]

def runGen (j : Json) : Json :=
  let api := decApi (getJson j "api")
  match runGenerator api (getBool j "safe") (getStrs j "preexisting") with
  | .error e => Json.mkObj [("ok", .bool false), ("err", .str e.name)]
  | .ok r =>
    let files := applyWrites [] r.ops
    Json.mkObj [("ok", .bool true), ("log", .arr (r.log.map fun (k, i) => Json.arr #[.str k, .str i]).toArray), ("stubs", .arr (r.stubs.map encStub).toArray),
      ("outside", .arr ((sortStrings r.outside).map Json.str).toArray),
      ("ops", .arr (r.ops.map encOp).toArray),
      ("files", .arr (files.map fun (p, t) => Json.arr #[.str p, .str t]).toArray)]

end StubGen.Driver
