/- JSON bridge for the analyser model: `Src` as dumped by tie/extract.py, and the resulting API in the
format of tie/apijson.py (so that model and implementation are compared field by field). -/
import StubGen.Driver.Json
import StubGen.Driver.ApiJson
import StubGen.Driver.DocJson
import StubGen.Model.Analyze

open Lean

namespace StubGen.Driver

instance : Inhabited MType := ⟨.none⟩
instance : Inhabited Expr := ⟨.call⟩
instance : Inhabited Stmt := ⟨.other⟩
instance : Inhabited LValue := ⟨.other⟩
instance : Inhabited Def := ⟨.other ""⟩

def decLit (j : Json) : Lit :=
  match j with
  | .str s => .str s
  | .bool b => .bool b
  | .null => .none
  | .num n => .int n.mantissa
  | _ => .none

partial def decMType (j : Json) : MType :=
  match getStr j "k" with
  | "inst" => .inst (getStr j "name") (getStr j "fullname") ((getArr j "args").map decMType)
  | "union" => .union ((getArr j "items").map decMType)
  | "tuple" => .tuple ((getArr j "items").map decMType)
  | "callable" => .callable ((getArr j "args").map decMType) (decMType (getJson j "ret"))
  | "any" => .any (getNat j "type_of_any") (getStr j "missing")
  | "none" => .none
  | "literal" => .literal (decLit (getJson j "value"))
  | "typevar" => .typeVar (getStr j "name") (decMType (getJson j "upper")) (getStr j "upper_str")
  | "unbound" => .unbound (getStr j "name") ((getArr j "args").map decMType)
  | _ => .other (getStr j "cls") (getStrOpt j "name")

def decMTypeOpt (j : Json) : Option MType :=
  match j with
  | .null => none
  | x => some (decMType x)

partial def decExpr (j : Json) : Expr :=
  match getStr j "k" with
  | "name" => .name (getStr j "name") (getStr j "fullname") (getBool j "is_self") (getStr j "self_type_name") (getStr j "self_type_fullname")
  | "int" => .int ((j.getObjValAs? Int "v").toOption.getD 0)
  | "float" => .float (getStr j "repr")
  | "str" => .str (getStr j "v")
  | "tuple" => .tuple ((getArr j "items").map decExpr)
  | "unary" => .unary (getStr j "op") (decExpr (getJson j "e"))
  | "call" => .call
  | "member" => .member
  | "cond" => .cond (decExpr (getJson j "if")) (decExpr (getJson j "else"))
  | _ => .other (getStr j "kind")

def decExprOpt (j : Json) : Option Expr :=
  match j with
  | .null => none
  | x => some (decExpr x)

def decVar (j : Json) : Option VarInfo :=
  match j with
  | .null => none
  | v => some { fullname := getStr v "fullname", type := decMTypeOpt (getJson v "type"),
                isInferred := getBool v "is_inferred", explicitSelfType := getBool v "explicit_self_type" }

partial def decLValue (j : Json) : LValue :=
  match getStr j "k" with
  | "name" => .name (getStr j "name") (getStr j "fullname") (getBool j "is_var") (decVar (getJson j "var"))
  | "member" => .member (getStr j "name") (getStr j "fullname") (getBool j "is_var") (decVar (getJson j "var"))
  | "tuple" => .tuple ((getArr j "items").map decLValue)
  | _ => .other

def decAssignment (j : Json) : Assignment :=
  { lvalues := (getArr j "lvalues").map decLValue, unanalyzedType := decMTypeOpt (getJson j "un") }

partial def decStmt (j : Json) : Stmt :=
  match getStr j "k" with
  | "ret" => .ret (decExprOpt (getJson j "e"))
  | "if" => .if_ ((getArr j "body").map decStmt) (match getJson j "else" with | .null => none | _ => some ((getArr j "else").map decStmt))
  | "block" => .block ((getArr j "body").map decStmt)
  | "try" => .try_ ((getArr j "body").map decStmt) ((getArr j "handlers").map decStmt)
  | "match" => .match_ ((getArr j "bodies").map decStmt)
  | "loop" => .loop ((getArr j "body").map decStmt)
  | "assign" => .assign (decAssignment (getJson j "a"))
  | "doc" => .docExpr (getStr j "raw") (getStr j "cleaned")
  | _ => .other

def decArg (j : Json) : Arg :=
  { name := getStr j "name", isSelf := getBool j "is_self", isCls := getBool j "is_cls", kind := getNat j "kind",
    posOnly := getBool j "pos_only", varType := decMTypeOpt (getJson j "var_type"),
    annotation := decMTypeOpt (getJson j "annotation"), init := decExprOpt (getJson j "init") }

def decFuncDef (j : Json) : FuncDef :=
  { name := getStr j "name", fullname := getStr j "fullname", isStatic := getBool j "is_static",
    isClass := getBool j "is_class", isProperty := getBool j "is_property", args := (getArr j "args").map decArg,
    hasCallableType := getBool j "has_callable_type", retType := decMTypeOpt (getJson j "ret"),
    unanalyzedRet := decMTypeOpt (getJson j "un_ret"), unanalyzedRetLiteralIsNone := getBool j "un_ret_literal_is_none",
    body := (getArr j "body").map decStmt }

def decTypeVarInfo (j : Json) : Option TypeVarInfo :=
  match j with
  | .null => none
  | t => some { name := getStr t "name", variance := getNat t "variance", values := (getArr t "values").map decMType,
                upperBound := decMType (getJson t "upper"), upperBoundStr := getStr t "upper_str" }

def decBase (j : Json) : BaseExpr :=
  let idx := getJson j "index"
  { hasFullname := getBool j "has_fullname", fullname := getStr j "fullname", typeInfo := getStrOpt j "type_info",
    baseName := getStrOpt j "base_name",
    index := match getStr idx "k" with
      | "tuple" => .tuple ((getArr idx "items").map decTypeVarInfo)
      | "name" => .name (decTypeVarInfo (getJson idx "tv"))
      | "other" => .other
      | _ => .none }

partial def decDef (j : Json) : Def :=
  match getStr j "k" with
  | "func" => .func (decFuncDef (getJson j "f"))
  | "decorator" => .decorator (decFuncDef (getJson j "f"))
  | "overloaded" => .overloaded (match getJson j "impl" with | .null => none | f => some (decFuncDef f))
  | "class" => .cls (getStr j "name") (getStr j "fullname") ((getArr j "bases").map decBase)
      ((getArr j "removed").map decBase) ((getArr j "defs").map decDef)
  | "assign" => .assign (decAssignment (getJson j "a"))
  | "doc" => .docExpr (getStr j "raw") (getStr j "cleaned")
  | _ => .other (getStr j "kind")

def jsonStr? (j : Option Json) : Option String :=
  match j with
  | some (Json.str s) => some s
  | _ => none

def decPairs (j : Json) (k : String) : List (String × Option String) :=
  (getArr j k).map fun p => match p with
    | .arr a => ((jsonStr? a[0]?).getD "", jsonStr? a[1]?)
    | _ => ("", none)

def decSrcModule (j : Json) : SrcModule :=
  { path := getStr j "path", fullname := getStr j "fullname", name := getStr j "name",
    imports := (getArr j "imports").map fun i => match getStr i "k" with
      | "import" => .import_ (decPairs i "ids")
      | "from" => .from_ (getStr i "id") (decPairs i "names")
      | _ => .all (getStr i "id"),
    defs := (getArr j "defs").map decDef }

def decStrTable (j : Json) (k : String) : List (String × List String) :=
  (getArr j k).map fun p => match p with
    | .arr a =>
      let vals : List String := match a[1]? with
        | some (Json.arr xs) => xs.toList.filterMap (fun x => jsonStr? (some x))
        | _ => []
      ((jsonStr? a[0]?).getD "", vals)
    | _ => ("", [])

/-! ### encoding the API the way tie/apijson.py does -/

def encStrOpt (s : Option String) : Json := match s with | some x => .str x | none => .null

def encDefault : DefaultVal → Json
  | .none => Json.mkObj [("k", .str "none")]
  | .str s => Json.mkObj [("k", .str "str"), ("v", .str s)]
  | .bool b => Json.mkObj [("k", .str "bool"), ("v", .bool b)]
  | .int i => Json.mkObj [("k", .str "int"), ("v", .num (JsonNumber.fromInt i))]
  | .float r => Json.mkObj [("k", .str "float"), ("v", .str r)]
  | .unknown => Json.mkObj [("k", .str "unknown")]

def encDocstring (d : Docstring) : Json :=
  Json.mkObj [("description", .str d.description), ("full_docstring", .str d.fullDocstring),
              ("examples", .arr (d.examples.map Json.str).toArray)]

def encModRef (m : ModRef) : Json :=
  Json.mkObj [("id", .str m.id),
    ("qualified_imports", .arr (m.qualifiedImports.map fun q => Json.mkObj [("qualified_name", .str q.qualifiedName), ("alias", encStrOpt q.alias)]).toArray),
    ("wildcard_imports", .arr (m.wildcardImports.map Json.str).toArray)]

def encParam (p : Parameter) : Json :=
  Json.mkObj [("id", .str p.id), ("name", .str p.name), ("is_optional", .bool p.isOptional), ("default", encDefault p.default),
    ("assigned_by", .str p.assignedBy.name),
    ("doc", Json.mkObj [("type", encTypeOpt p.doc.type), ("default_value", .str p.doc.defaultValue), ("description", .str p.doc.description)]),
    ("type", encTypeOpt p.type)]

def encFunction (f : Function) : Json :=
  Json.mkObj [("id", .str f.id), ("name", .str f.name), ("doc", encDocstring f.doc), ("is_public", .bool f.isPublic),
    ("is_static", .bool f.isStatic), ("is_class_method", .bool f.isClassMethod), ("is_property", .bool f.isProperty),
    ("result_docs", .arr (f.resultDocs.map fun r => Json.mkObj [("type", encTypeOpt r.type), ("description", .str r.description), ("name", .str r.name)]).toArray),
    ("type_vars", .arr (f.typeVars.map fun t => Json.mkObj [("name", .str t.name), ("upper_bound", encTypeOpt t.upperBound)]).toArray),
    ("results", .arr (f.results.map fun r => Json.mkObj [("id", .str r.id), ("name", .str r.name), ("type", encTypeOpt r.type)]).toArray),
    ("reexported_by", .arr (f.reexportedBy.map encModRef).toArray),
    ("params", .arr (f.params.map encParam).toArray)]

partial def encClass (c : Class) : Json :=
  Json.mkObj [("id", .str c.id), ("name", .str c.name), ("superclasses", .arr (c.superclasses.map Json.str).toArray),
    ("is_public", .bool c.isPublic), ("doc", encDocstring c.doc),
    ("ctor", match c.ctor with | some f => encFunction f | none => .null),
    ("inherits_from_exception", .bool c.inheritsFromException),
    ("reexported_by", .arr (c.reexportedBy.map encModRef).toArray),
    ("attributes", .arr (c.attributes.map fun a => Json.mkObj [("id", .str a.id), ("name", .str a.name),
        ("is_public", .bool a.isPublic), ("is_static", .bool a.isStatic), ("type", encTypeOpt a.type),
        ("doc", Json.mkObj [("type", encTypeOpt a.doc.type), ("description", .str a.doc.description)])]).toArray),
    ("methods", .arr (c.methods.map encFunction).toArray),
    ("classes", .arr (c.classes.map encClass).toArray),
    ("type_parameters", .arr (c.typeParams.map fun t => Json.mkObj [("name", .str t.name), ("type", encTypeOpt t.type), ("variance", .str t.variance.name)]).toArray)]

def encEnum (e : Enum) : Json :=
  Json.mkObj [("id", .str e.id), ("name", .str e.name), ("doc", encDocstring e.doc),
    ("instances", .arr (e.instances.map fun i => Json.mkObj [("id", .str i.id), ("name", .str i.name)]).toArray)]

def encModule (m : Module) : Json :=
  Json.mkObj [("id", .str m.id), ("name", .str m.name), ("docstring", .str m.docstring),
    ("qualified_imports", .arr (m.qualifiedImports.map fun q => Json.mkObj [("qualified_name", .str q.qualifiedName), ("alias", encStrOpt q.alias)]).toArray),
    ("wildcard_imports", .arr (m.wildcardImports.map Json.str).toArray),
    ("classes", .arr (m.classes.map encClass).toArray),
    ("functions", .arr (m.functions.map encFunction).toArray),
    ("enums", .arr (m.enums.map encEnum).toArray)]

def encAnaResult (r : AnaResult) : Json :=
  Json.mkObj [("modules", .arr (r.modules.map encModule).toArray),
    ("classes", .arr (r.classes.map encClass).toArray),
    ("reexport_map", .arr (r.reexportMap.map fun kv => Json.mkObj [("key", .str kv.1), ("modules", .arr (kv.2.map encModRef).toArray)]).toArray),
    ("function_ids", .arr (r.functions.map (Json.str ·.id)).toArray),
    ("result_ids", .arr (r.results.map (Json.str ·.id)).toArray),
    ("enum_ids", .arr (r.enums.map (Json.str ·.id)).toArray),
    ("enum_instance_ids", .arr (r.enumInstances.map (Json.str ·.id)).toArray),
    ("attribute_ids", .arr (r.attributes.map (Json.str ·.id)).toArray),
    ("parameter_ids", .arr (r.parameters.map (Json.str ·.id)).toArray)]

def runAnalyze (j : Json) : Json :=
  let o := getJson j "opts"
  let opts : AnalyzeOptions := { plaintext := getBool o "plaintext", style := decStyle (getStr o "style"),
                                 preferDocstring := getBool o "prefer_docstring", warn := getBool o "warn" }
  let env : AEnv := { opts := opts, aliases := decStrTable j "aliases", infoBases := decStrTable j "info_bases" }
  let root : GNode := match getJson j "doc_tree" with
    | .null => { name := "" }
    | t => decGNode t
  match analyze env root ((getArr j "modules").map decSrcModule) with
  | .error e => Json.mkObj [("ok", .bool false), ("err", .str e.name)]
  | .ok (r, ws) => Json.mkObj [("ok", .bool true), ("api", encAnaResult r), ("warnings", .arr (ws.map Json.str).toArray)]

end StubGen.Driver
