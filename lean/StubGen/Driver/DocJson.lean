/- JSON bridge for the docstring-parser model (Model/Doc.lean): the griffe tree extracted by
tie/griffe_extract.py, query sequences, answers. -/
import StubGen.Driver.Json
import StubGen.Model.Doc

open Lean

namespace StubGen.Driver

instance : Inhabited GExpr := ⟨.other⟩

partial def decGExpr (j : Json) : GExpr :=
  match getStr j "k" with
  | "name" => .name (getStr j "path") (getStr j "name")
  | "subscript" => .subscript (getStr j "path") (getStr j "name") (decGExpr (getJson j "slice"))
  | "tuple" => .tuple ((getArr j "elements").map decGExpr)
  | "list" => .list ((getArr j "elements").map decGExpr)
  | "boolop" => .boolOp ((getArr j "values").map decGExpr)
  | "binop" => .binOp ((getArr j "operands").map decGExpr)
  | "str" => .str (getStr j "raw") (getStr j "cut")
      (match getJson j "parsed" with | .null => none | p => some (decGExpr p))
  | _ => .other

def decGExprOpt (j : Json) : Option GExpr :=
  match j with
  | .null => none
  | x => some (decGExpr x)

def decDocParam (j : Json) : DocParam :=
  { name := getStr j "name", annotation := decGExprOpt (getJson j "annotation"),
    description := getStr j "description", default := getStrOpt j "default" }

def decSection (j : Json) : DocSection :=
  match getStr j "kind" with
  | "text" => .text (getStr j "value")
  | "parameters" => .parameters ((getArr j "value").map decDocParam)
  | "attributes" => .attributes ((getArr j "value").map decDocParam)
  | "returns" => .returns ((getArr j "value").map fun r =>
      { name := getStr r "name", annotationIsNone := getBool r "annotation_is_none",
        annotation := decGExprOpt (getJson r "annotation"),
        nameAsAnnotation := decGExprOpt (getJson r "name_as_annotation"),
        description := getStr r "description" })
  | "examples" => .examples (getStrs j "value")
  | _ => .other

def decGDoc (j : Json) : Option GDoc :=
  match j with
  | .null => none
  | d => some { value := getStr d "value", parsed := (getArr d "parsed").map decSection }

instance : Inhabited GNode := ⟨{ name := "" }⟩

partial def decGNode (j : Json) : GNode :=
  { name := getStr j "name", isClass := getBool j "is_class", docstring := decGDoc (getJson j "docstring"),
    modules := (getArr j "modules").map decGNode, classes := (getArr j "classes").map decGNode,
    functions := (getArr j "functions").map decGNode, attributes := (getArr j "attributes").map decGNode }

def encTypeOpt (t : Option AType) : Json :=
  match t with
  | none => .null
  | some t => pyToJson t.toDict

def encDoc (d : Docstring) : Json :=
  Json.mkObj [("description", .str d.description), ("full_docstring", .str d.fullDocstring),
              ("examples", .arr (d.examples.map Json.str).toArray)]

def decStyle (s : String) : DocStyle :=
  match s with
  | "numpy" => .numpy | "google" => .google | _ => .rest

/-- run the queries in order, threading the parser state; stop after the first error -/
partial def runQueries (s : ParserState) : List Json → List Json
  | [] => []
  | q :: qs =>
    let err := fun (e : PyErr) => [Json.mkObj [("err", .str e.name)]]
    match getStr q "q" with
    | "class" =>
      match getClassDocumentation s (getStr q "fullname") with
      | .error e => err e
      | .ok (d, s') => encDoc d :: runQueries s' qs
    | "function" =>
      match getFunctionDocumentation s (getStr q "fullname") with
      | .error e => err e
      | .ok (d, s') => encDoc d :: runQueries s' qs
    | "parameter" =>
      match getParameterDocumentation s (getStr q "function") (getStr q "name") (getStr q "parent") with
      | .error e => err e
      | .ok (d, s') =>
        Json.mkObj [("type", encTypeOpt d.type), ("default_value", .str d.defaultValue),
                    ("description", .str d.description)] :: runQueries s' qs
    | "attribute" =>
      match getAttributeDocumentation s (getStr q "parent") (getStr q "name") with
      | .error e => err e
      | .ok (d, s') =>
        Json.mkObj [("type", encTypeOpt d.type), ("description", .str d.description)] :: runQueries s' qs
    | "result" =>
      match getResultDocumentation s (getStr q "function") with
      | .error e => err e
      | .ok (rs, s') =>
        Json.arr (rs.map fun r => Json.mkObj [("type", encTypeOpt r.type), ("description", .str r.description),
                                              ("name", .str r.name)]).toArray :: runQueries s' qs
    | _ => [Json.mkObj [("err", .str "bad-query")]]

def runDoc (j : Json) : Json :=
  let s : ParserState := { root := decGNode (getJson j "tree"), style := decStyle (getStr j "style") }
  Json.mkObj [("answers", .arr (runQueries s (getArr j "queries")).toArray)]

end StubGen.Driver
