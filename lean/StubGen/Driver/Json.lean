/- JSON <-> model values for the line-protocol driver.  Imports `Lean.Data.Json` only (no Mathlib),
so the driver links as a native executable. -/
import Lean.Data.Json
import StubGen.Py.Basic
import StubGen.Model.Types

open Lean

namespace StubGen.Driver

instance : Inhabited PyVal := ⟨.none⟩

partial def jsonToPy : Json → PyVal
  | .null => .none
  | .bool b => .bool b
  | .num n => .int (if n.exponent == 0 then n.mantissa else n.toFloat.toInt64.toInt)
  | .str s => .str s
  | .arr xs => .list (xs.toList.map jsonToPy)
  | .obj kvs => .dict (kvs.toList.map fun (k, v) => (k, jsonToPy v))

partial def pyToJson : PyVal → Json
  | .none => .null
  | .bool b => .bool b
  | .int i => .num (JsonNumber.fromInt i)
  | .str s => .str s
  | .list xs => .arr (xs.map pyToJson).toArray
  | .dict items => Json.mkObj (items.map fun (k, v) => (k, pyToJson v))

def getStr (j : Json) (k : String) : String := (j.getObjValAs? String k).toOption.getD ""
def getBool (j : Json) (k : String) : Bool := (j.getObjValAs? Bool k).toOption.getD false
def getNat (j : Json) (k : String) : Nat := (j.getObjValAs? Nat k).toOption.getD 0
def getJson (j : Json) (k : String) : Json := (j.getObjVal? k).toOption.getD .null
def getArr (j : Json) (k : String) : List Json :=
  match j.getObjVal? k with
  | .ok (.arr xs) => xs.toList
  | _ => []
def getStrs (j : Json) (k : String) : List String :=
  (getArr j k).filterMap fun x => match x with | .str s => some s | _ => none
def getStrOpt (j : Json) (k : String) : Option String :=
  match j.getObjVal? k with
  | .ok (.str s) => some s
  | _ => none

end StubGen.Driver
