/-
L7a — `_get_aliases` (`_get_api.py`): the package-wide alias table `short name ↦ set of qualified names`
built from mypy's expression-type map `build_result.types`.

The model starts at the facts the function reads of one `(key, value)` entry of that dict
(`tie/extract.py: alias_facts` dumps them reflectively, in dict order).
-/
import StubGen.Py.Str

namespace StubGen

/-- class of the key expression, as far as the `isinstance` tests discriminate -/
inductive KeyKind where
  | nameExpr | memberExpr | typeVarExpr | other
  deriving DecidableEq, Repr

/-- what is read of `key.node` (NameExpr only) -/
inductive KeyNode where
  | aliasToInstance (fullname : String)   -- `TypeAlias` whose `target` is an `Instance`: `target.type.fullname`
  | var (fullname : String)               -- `Var`: `node.fullname`
  | other
  deriving DecidableEq, Repr

/-- what is read of the value `result_types[key]` -/
inductive ValType where
  | instance (name fullname : String)     -- `Instance`: `type.name`, `type.fullname`
  | callable (bound : String)             -- `CallableType`: `_get_bound_type_fullname(value)` ("" if unbound)
  | withType (name fullname : String)     -- any other type object with a non-None `.type` (e.g. `PartialType`)
  | other
  deriving DecidableEq, Repr

structure AliasFact where
  kind : KeyKind
  name : String := ""          -- `key.name`
  fullname : String := ""      -- `key.fullname`
  node : KeyNode := .other
  val : ValType := .other
  deriving DecidableEq, Repr

/-- what one dict entry contributes -/
inductive AliasStep where
  | skip                                   -- `continue` / not in the package / key of another class
  | add (name fullname : String)           -- `aliases[name].add(fullname)`
  deriving DecidableEq, Repr

/-- the final `if in_package:` block (lines 189-201) -/
def aliasTarget (f : AliasFact) : Option String :=
  match f.val with
  | .callable b => if b != "" then some b else
      (if f.kind == .typeVarExpr then some f.fullname
       else match f.kind, f.node with
         | .nameExpr, .var fn => some fn
         | _, _ => none)
  | .instance _ fn => some fn
  | _ =>
    if f.kind == .typeVarExpr then some f.fullname
    else match f.kind, f.node with
      | .nameExpr, .var fn => some fn
      | _, _ => none

/-- one iteration of the loop over `result_types` -/
def aliasStep (pkg : String) (f : AliasFact) : AliasStep :=
  let finish := fun (name : String) =>
    match aliasTarget f with
    | some fn => AliasStep.add name fn
    | none => .skip          -- neither a class, an instance nor a variable (a `TypeError` before the repair c9b80ef)
  match f.kind with
  | .other => .skip
  | .nameExpr =>
    match f.val with
    | .instance n fn => if pyIn pkg fn then finish n else .skip
    | .withType n fn => if pyIn pkg fn then finish n else .skip
    | v =>
      -- `elif hasattr(key, "name")`: the qualified name that decides `in_package`
      let fullname := match f.node with
        | .aliasToInstance fn => fn
        | .var fn => (match v with | .callable b => b | _ => fn)
        | .other => (match v with | .callable b => b | _ => "")
      if fullname == "" then .skip
      else if pyIn pkg fullname then finish f.name else .skip
  | _ => -- MemberExpr, TypeVarExpr
    if pyIn pkg f.fullname then finish f.name else .skip

abbrev AliasTable := List (String × List String)

/-- `aliases[name].add(fullname)` on a `defaultdict(set)`; dict in insertion order, each set in
    first-insertion order (the real iteration order of a set is arbitrary — consumers sort) -/
def aliasAdd (t : AliasTable) (name fullname : String) : AliasTable :=
  if t.any (·.1 == name) then t.map fun kv => if kv.1 == name then (kv.1, insertSet fullname kv.2) else kv
  else t ++ [(name, [fullname])]

def getAliasesFrom (pkg : String) : AliasTable → List AliasFact → AliasTable
  | t, [] => t
  | t, f :: fs =>
    match aliasStep pkg f with
    | .skip => getAliasesFrom pkg t fs
    | .add n fn => getAliasesFrom pkg (aliasAdd t n fn) fs

/-- `_get_aliases(result_types, package_name)` -/
def getAliases (pkg : String) (facts : List AliasFact) : AliasTable := getAliasesFrom pkg [] facts

end StubGen
