/-
L6 — `docstring_parsing/_docstring_parser.py`: node lookup in the griffe tree, the one-entry
docstring cache as an explicit state machine, and the five documentation queries on *parsed*
docstring sections (griffe's three grammars are outside the model: the tree carries what griffe
parsed).  `parse_annotation` (griffe) applied to string annotations is part of the input too.
-/
import StubGen.Py.Str
import StubGen.Model.Api

namespace StubGen

inductive DocStyle where
  | numpy | google | rest
  deriving DecidableEq, Repr

/-- griffe annotation expressions, as far as `_griffe_annotation_to_api_type` discriminates -/
inductive GExpr where
  | name (canonicalPath canonicalName : String)                 -- ExprName | ExprAttribute
  | subscript (canonicalPath canonicalName : String) (slice : GExpr)
  | tuple (elements : List GExpr)
  | list (elements : List GExpr)
  | boolOp (values : List GExpr)
  /-- `a | b | c`: the left spine of the `ExprBinOp` tree flattened by the extractor, in the order the
      code visits the operands: rightmost first, then leftwards (`[c, b, a]`) -/
  | binOp (operands : List GExpr)
  /-- a string annotation: `raw`; `cut` = `_remove_default_from_griffe_annotation(raw)`;
      `parsed` = `parse_annotation(cut, docstring)` when that is an expression, `none` when it
      returned the string unchanged -/
  | str (raw cut : String) (parsed : Option GExpr)
  | other

structure DocParam where
  name : String
  annotation : Option GExpr
  description : String
  default : Option String          -- `str(default)` when truthy

structure DocReturn where
  name : String                    -- "" when absent
  annotationIsNone : Bool          -- `return_value.annotation is None`
  annotation : Option GExpr        -- google: the annotation, or the name parsed as annotation (see below)
  nameAsAnnotation : Option GExpr  -- google quirk: `annotation = return_value.name` when annotation is None
  description : String

inductive DocSection where
  | text (value : String)
  | parameters (ps : List DocParam)
  | attributes (ps : List DocParam)
  | returns (rs : List DocReturn)
  | examples (texts : List String)       -- `example_data[1]` of each entry
  | other

structure GDoc where
  value : String
  parsed : List DocSection

/-- a node of the griffe tree (module, class, function or attribute) -/
structure GNode where
  name : String
  isClass : Bool := false
  docstring : Option GDoc := none
  modules : List GNode := []
  classes : List GNode := []
  functions : List GNode := []
  attributes : List GNode := []

/-! ### `_get_griffe_node` -/

def findChild (name : String) : List GNode → Option GNode
  | [] => none
  | n :: ns => if n.name == name then some n else findChild name ns

/-- one step of the loop body of `_get_griffe_node`; `none` inside `ok` = the early `return None`;
    `first` = this is the first part of the qualified name (only there the package's own name is skipped) -/
def griffeStep (node : GNode) (part : String) (first : Bool := false) : Except PyErr (Option GNode) :=
  if first && node.name == part then .ok (some node)
  else match findChild part node.modules with
    | some c => .ok (some c)
    | none => match findChild part node.classes with
      | some c => .ok (some c)
      | none => match findChild part node.functions with
        | some c => .ok (some c)
        | none => match findChild part node.attributes with
          | some c => .ok (some c)
          | none => if part == "__init__" && node.isClass then .ok none else .error .valueError

def griffeWalk : GNode → List String → Except PyErr (Option GNode)
  | node, [] => .ok (some node)
  | node, p :: ps =>
    match griffeStep node p with
    | .error e => .error e
    | .ok none => .ok none
    | .ok (some n) => griffeWalk n ps

/-- `_get_griffe_node(qname)` -/
def getGriffeNode (root : GNode) (qname : String) : Except PyErr (Option GNode) :=
  match splitDot qname with
  | [] => .ok (some root)
  | p :: ps =>
    match griffeStep root p true with
    | .error e => .error e
    | .ok none => .ok none
    | .ok (some n) => griffeWalk n ps

/-- the cache-less specification of "the docstring of `qname`" -/
def lookupDoc (root : GNode) (qname : String) : Except PyErr (Option GDoc) :=
  match getGriffeNode root qname with
  | .error e => .error e
  | .ok none => .ok none
  | .ok (some n) => .ok n.docstring

/-! ### the one-entry cache (`__get_cached_docstring`) -/

structure Cache where
  node : Option String := none
  doc : Option GDoc := none

/-- `__get_cached_docstring(qname)`: returns the docstring and the new cache state -/
def getCached (root : GNode) (c : Cache) (qname : String) : Except PyErr (Option GDoc × Cache) :=
  if c.node != some qname || pyEndsWith qname "__init__" then
    match lookupDoc root qname with
    | .error e => .error e
    | .ok d => .ok (d, { node := some qname, doc := d })
  else .ok (c.doc, c)

/-! ### annotation → API type (`_griffe_annotation_to_api_type`) -/

def anyType : AType := .named "Any" "typing.Any"
def noneType : AType := .named "None" "builtins.None"

def isOptionalMarker : GExpr → Bool
  | .name p _ => p == "optional"
  | .subscript p _ _ => p == "optional"
  | _ => false

mutual
def annToType : GExpr → Option AType
  | .name p n =>
    if p == "typing.Any" then some anyType
    else if p == "int" then some (.named "int" "builtins.int")
    else if p == "bool" then some (.named "bool" "builtins.bool")
    else if p == "float" then some (.named "float" "builtins.float")
    else if p == "str" then some (.named "str" "builtins.str")
    else if p == "list" then some (.list [])
    else if p == "tuple" then some (.tuple [])
    else if p == "set" then some (.set [])
    else some (.named n p)
  | .subscript p n slice =>
    let types := match slice with
      | .tuple es => annsToTypes es
      | s => match annToType s with
        | some t => [t]
        | none => []
    if p == "list" || p == "collections.abc.Sequence" || p == "collections.abc.Iterator" then some (.list types)
    else if p == "tuple" then some (.tuple types)
    else if p == "set" then some (.set types)
    else if p == "collections.abc.Callable" || p == "typing.Callable" then
      let paramType := types.headD anyType        -- (`[any_type]` when empty: then not an AbstractType → UnknownType)
      if types.isEmpty then some .unknown
      else
        let params := match paramType with
          | .list ts => ts
          | t => [t]
        some (.callable params (types.getD 1 anyType))
    else if p == "dict" || p == "collections.abc.Mapping" || p == "typing.Mapping" then
      some (.dict (types.headD anyType) (types.getD 1 anyType))
    else if p == "typing.Optional" then some (.union (types ++ [noneType]))
    else some (.namedSeq n p types)
  | .list es => some (.list (annsToTypes es))
  | .boolOp vs => some (.union (annsToTypes vs))
  | .tuple es =>
    let elems := annsToTypesSkipOptional es
    if es.any isOptionalMarker then some (.union (elems ++ [noneType])) else some (.tuple elems)
  | .str _ cut parsed =>
    match parsed with
    | none => if cut == "None" then some noneType else none
    | some e => annToType e
  | .binOp operands => some (.union (annsToTypes operands))
  | .other => some .unknown
def annsToTypes : List GExpr → List AType
  | [] => []
  | e :: es => (match annToType e with | some t => [t] | none => []) ++ annsToTypes es
def annsToTypesSkipOptional : List GExpr → List AType
  | [] => []
  | e :: es =>
    if isOptionalMarker e then annsToTypesSkipOptional es
    else (match annToType e with | some t => [t] | none => []) ++ annsToTypesSkipOptional es
end

/-! ### the five queries -/

structure ParserState where
  root : GNode
  style : DocStyle
  cache : Cache := {}

def firstSection? (p : DocSection → Option α) : List DocSection → Option α
  | [] => none
  | s :: ss => match p s with
    | some a => some a
    | none => firstSection? p ss

def lastText (d : GDoc) : String :=
  d.parsed.foldl (fun acc s => match s with | .text v => pyStrip v "\n" | _ => acc) ""

def allExamples (d : GDoc) : List String :=
  d.parsed.flatMap fun s => match s with | .examples ts => ts.map (pyStrip · "\n") | _ => []

def docRecord (d : Option GDoc) : Docstring :=
  match d with
  | none => {}
  | some d => { description := lastText d, fullDocstring := pyStrip d.value "\n", examples := allExamples d }

/-- `get_class_documentation`: bypasses the cache; a missing node is a `TypeError` -/
def getClassDocumentation (s : ParserState) (fullname : String) : Except PyErr (Docstring × ParserState) :=
  match getGriffeNode s.root fullname with
  | .error e => .error e
  | .ok none => .error .typeError
  | .ok (some n) => .ok (docRecord n.docstring, s)

/-- `get_function_documentation` -/
def getFunctionDocumentation (s : ParserState) (fullname : String) : Except PyErr (Docstring × ParserState) :=
  match getCached s.root s.cache fullname with
  | .error e => .error e
  | .ok (d, c) => .ok (docRecord d, { s with cache := c })

/-- `_get_matching_docstrings` -/
def matching (d : GDoc) (name : String) (attrs : Bool) : List DocParam :=
  let sec := firstSection? (fun s => match s, attrs with
    | .attributes ps, true => some ps
    | .parameters ps, false => some ps
    | _, _ => none) d.parsed
  match sec with
  | some ps => if ps.isEmpty then [] else
      let nm := pyLstrip name "*"
      ps.filter fun p => pyLstrip p.name "*" == nm
  | none => []

/-- `get_parameter_documentation` -/
def getParameterDocumentation (s : ParserState) (functionQname parameterName parentClassQname : String) :
    Except PyErr (ParamDoc × ParserState) :=
  let functionName := lastD "" (splitDot functionQname)
  let firstQ := if functionName == "__init__" && parentClassQname != ""
    then replaceChar parentClassQname '/' "." else functionQname
  match getCached s.root s.cache firstQ with
  | .error e => .error e
  | .ok (d, c) =>
    let m := match d with
      | some d => matching d parameterName false
      | none => []
    -- numpy: look at the constructor as well
    let second : Except PyErr (List DocParam × Cache) :=
      if s.style == .numpy && m.isEmpty && functionName == "__init__" then
        match getCached s.root c functionQname with
        | .error e => .error e
        | .ok (some d2, c2) => .ok (matching d2 parameterName false, c2)
        | .ok (none, c2) => .ok (m, c2)
      else .ok (m, c)
    match second with
    | .error e => .error e
    | .ok (m, c) =>
      match m.getLast? with
      | none => .ok ({}, { s with cache := c })
      | some p =>
        let ty := match p.annotation with
          | none => none
          | some a => annToType a
        .ok ({ type := ty, defaultValue := p.default.getD "", description := pyStrip p.description "\n" },
             { s with cache := c })

/-- `get_attribute_documentation` -/
def getAttributeDocumentation (s : ParserState) (parentClassQname attributeName : String) :
    Except PyErr (AttrDoc × ParserState) :=
  let parent := replaceChar parentClassQname '/' "."
  match getCached s.root s.cache parent with
  | .error e => .error e
  | .ok (d, c) =>
    let m := match d with
      | some d => matching d attributeName true
      | none => []
    let second : Except PyErr (List DocParam × Cache) :=
      if s.style == .numpy && m.isEmpty then
        match getCached s.root c (parent ++ ".__init__") with
        | .error e => .error e
        | .ok (some d2, c2) => .ok (matching d2 attributeName true, c2)
        | .ok (none, c2) => .ok (m, c2)
      else .ok (m, c)
    match second with
    | .error e => .error e
    | .ok (m, c) =>
      match m.getLast? with
      | none => .ok ({}, { s with cache := c })
      | some p =>
        let ty := match p.annotation with
          | none => none
          | some a => annToType a
        .ok ({ type := ty, description := pyStrip p.description "\n" }, { s with cache := c })

/-- `get_result_documentation` -/
def getResultDocumentation (s : ParserState) (functionQname : String) : Except PyErr (List ResultDoc × ParserState) :=
  match getCached s.root s.cache functionQname with
  | .error e => .error e
  | .ok (none, c) => .ok ([], { s with cache := c })
  | .ok (some d, c) =>
    let s' := { s with cache := c }
    match firstSection? (fun x => match x with | .returns rs => some rs | _ => none) d.parsed with
    | none => .ok ([], s')
    | some rs =>
      if rs.isEmpty then .ok ([], s')
      else if s.style == .numpy then
        .ok (rs.map fun r =>
          { type := match r.annotation with | some a => annToType a | none => none,
            description := pyStrip r.description "\n", name := r.name }, s')
      else
        match rs with
        | [] => .ok ([], s')
        | r :: _ =>
          let ann := if s.style == .google && r.annotationIsNone then r.nameAsAnnotation else r.annotation
          let ty := match ann with
            | some a => annToType a
            | none => none
          .ok ([{ type := ty, description := pyStrip r.description "\n", name := "" }], s')

end StubGen
