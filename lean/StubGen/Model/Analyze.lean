/-
L5 — the analyser: `_ast_walker.py`, `_ast_visitor.py`, `_mypy_helpers.py` over `Src`.

The visitor's mutable fields (declaration stack, API tables, re-export map, the set of type
variables met in the current function, the docstring parser with its cache, the warning log) are the
state `VSt`, threaded through the monad `V`; every Python exception the code can raise is an error.
-/
import StubGen.Py.Str
import StubGen.Model.Naming
import StubGen.Model.Api
import StubGen.Model.Src
import StubGen.Model.Doc

namespace StubGen

/-! ### options and tables -/

structure AnalyzeOptions where
  plaintext : Bool := true                -- PLAINTEXT style: `PlaintextDocstringParser`
  style : DocStyle := .numpy              -- otherwise the griffe parser flavour
  preferDocstring : Bool := false         -- TypeSourcePreference.DOCSTRING
  warn : Bool := true                     -- TypeSourceWarning.WARN

/-- `has_correct_type_of_any`: TypeOfAny.explicit = 2, from_unimported_type = 3, from_another_any = 7 (tied by T2) -/
def correctTypeOfAny (t : Nat) : Bool := t == 2 || t == 7 || t == 3
def fromUnimportedType : Nat := 3

/-! ### the result model: API with its flat tables -/

structure AnaResult where
  modules : List Module := []                          -- `api.modules` (dict: later entries overwrite)
  classes : List Class := []
  functions : List Function := []
  results : List Result := []
  enums : List Enum := []
  enumInstances : List EnumInstance := []
  attributes : List Attribute := []
  parameters : List Parameter := []
  reexportMap : List (String × List ModRef) := []

/-- `dict[id] = value`: overwrite in place, else append -/
def dictSet {α : Type} (key : α → String) (tbl : List α) (v : α) : List α :=
  if tbl.any (fun x => key x == key v) then tbl.map (fun x => if key x == key v then v else x) else tbl ++ [v]

inductive AssignItem where
  | attr (a : Attribute)
  | inst (e : EnumInstance)

/-- one entry of `__declaration_stack` -/
inductive Frame where
  | module (m : Module)
  | cls (c : Class)
  | fn (f : Function)
  | enum (e : Enum)
  | assigns (items : List AssignItem)

structure VSt where
  api : AnaResult := {}
  stack : List Frame := []                  -- top of the stack is the HEAD
  typeVars : List (String × Option AType) := []   -- `self.type_var_types` (a set)
  doc : ParserState
  warnings : List String := []
  /-- the `MypyFile` being analysed: (fullname, name) -/
  fileFullname : String := ""
  fileName : String := ""
  seenNone : Bool := false                  -- the walker's `visited_nodes` already contains `None`

structure AEnv where
  opts : AnalyzeOptions
  aliases : List (String × List String)     -- `_get_aliases` result; each set in iteration order
  infoBases : List (String × List String)   -- TypeInfo fullname ↦ fullnames of `bases`

abbrev V := StateT VSt (Except PyErr)

def throwV {α : Type} (e : PyErr) : V α := fun _ => .error e
def warnV (msg : String) : V Unit := modify fun s => { s with warnings := s.warnings ++ [msg] }

/-! ### small helpers -/

def frameSegment : Frame → Option String
  | .module m => some m.id
  | .cls c => some c.name
  | .fn f => some f.name
  | .enum e => some e.name
  | .assigns _ => none

/-- `_create_id_from_stack` -/
def createId (s : VSt) (name : String) : String :=
  joinWith "/" ((s.stack.reverse.filterMap frameSegment) ++ [name])

def bottomModule (s : VSt) : Option Module :=
  match s.stack.reverse with
  | .module m :: _ => some m
  | _ => none

/-- `_search_alias_in_qualified_imports` -/
def searchAliasInImports (qis : List QImport) (aliasName : String) : String × String :=
  match qis.find? (fun q => q.alias == some aliasName || lastD "" (splitDot q.qualifiedName) == aliasName) with
  | some q => (lastD "" (splitDot q.qualifiedName), q.qualifiedName)
  | none => ("", "")

/-- `_find_alias` -/
def findAlias (env : AEnv) (s : VSt) (typeName : String) (knownQname : String := "") : Except PyErr (String × String) :=
  match bottomModule s with
  | none => .error .typeError
  | some m =>
    let (name, qname) := searchAliasInImports m.qualifiedImports typeName
    if name != "" && qname != "" then .ok (name, qname)
    -- the caller already knows the qualified name of the definition: the name is not an alias
    else if knownQname != "" then .ok (lastD "" (splitDot knownQname), knownQname)
    else
      match assocGet? env.aliases typeName with
      | none => .ok (name, qname)
      | some [q] => .ok (lastD "" (splitDot q), q)
      | some qs =>
        -- several definitions of that name: the first one, in sorted order, whose path contains the current module's name
        let step := fun (acc : String × String × Bool) (aq : String) =>
          if acc.2.2 then acc
          else
            let parts := splitDot aq
            let typePath := joinWith "." (dropLast' parts)
            let nm := lastD "" parts
            if pyIn s.fileFullname typePath then (nm, aq, true) else (nm, acc.2.1, false)
        let r := (sortStrings qs).foldl step (name, qname, false)        -- `for alias_qname in sorted(qnames)`
        .ok (r.1, r.2.1)

/-- `_inherits_from_exception` (fuel: the TypeInfo graph is finite and acyclic) -/
def inheritsFromException (env : AEnv) : Nat → String → Bool
  | 0, _ => false
  | fuel + 1, fullname =>
    fullname == "builtins.Exception"
    || (match assocGet? env.infoBases fullname with
        | some bs => bs.any (inheritsFromException env fuel)
        | none => false)

/-! ### re-exports and publicity (973-1003, 1194-1325) -/

def reexportLookup (m : List (String × List ModRef)) (k : String) : Option (List ModRef) := assocGet? m k

def addToSetById (l : List ModRef) (m : ModRef) : List ModRef := if l.any (·.id == m.id) then l else l ++ [m]

/-- `_get_reexported_by` (the result is sorted by id by the callers) -/
def getReexportedBy (s : VSt) (qname : String) : List ModRef :=
  let path := splitDot qname
  let n := path.length
  let step := fun (acc : List ModRef) (i : Nat) =>
    let fwd := joinWith "." (path.take (i + 1))
    let bwd := joinWith "." (path.drop (n - (i + 1)))
    -- `path[-2 - i:-1]`
    let wl := joinWith "." ((path.take (n - 1)).drop (n - 1 - min (n - 1) (i + 1)) ) ++ ".*"
    let add := fun (acc : List ModRef) (k : String) =>
      match reexportLookup s.api.reexportMap k with
      | some ms => ms.foldl addToSetById acc
      | none => acc
    add (add (add acc fwd) bwd) wl
  (List.range n).foldl step []

def sortModRefs (l : List ModRef) : List ModRef := sortBy (fun a b => strLe a.id b.id) l

/-- `_add_reexports` -/
def addReexports (api : AnaResult) (m : Module) : AnaResult :=
  let add := fun (rm : List (String × List ModRef)) (k : String) =>
    if rm.any (·.1 == k) then rm.map (fun kv => if kv.1 == k then (kv.1, addToSetById kv.2 m.ref) else kv)
    else rm ++ [(k, [m.ref])]
  let rm := m.qualifiedImports.foldl (fun rm q => add rm q.qualifiedName) api.reexportMap
  let rm := m.wildcardImports.foldl (fun rm w => add rm (w ++ ".*")) rm
  { api with reexportMap := rm }

inductive ParentKind where
  | module | publicClass | privateClass
  /-- a constructor; `owner` = publicity of the class above it on the stack, if there is a class -/
  | initFunction (owner : Option Bool)
  | other

def parentKind (s : VSt) : ParentKind :=
  match s.stack with
  | .module _ :: _ => .module
  | .cls c :: _ => if c.isPublic then .publicClass else .privateClass
  | .fn f :: rest =>
    if f.name == "__init__" then .initFunction (match rest with | .cls c :: _ => some c.isPublic | _ => none) else .other
  | _ => .other

/-- `_check_publicity_in_reexports`; `parentOk` = `isinstance(parent, Module) or parent.is_public` -/
def checkPublicityInReexports (s : VSt) (name qname : String) (parentOk : Bool) : Option Bool :=
  let notInternal := !isInternal name
  let moduleQname := s.fileFullname
  let moduleName := s.fileName
  let packageId := joinWith "/" (dropLast' (splitDot moduleQname))
  let hit := s.api.reexportMap.any fun kv =>
    let key := kv.1
    let moduleIsReexported := key == moduleName || key == moduleQname || key == moduleName ++ ".*" || key == moduleQname ++ ".*"
    (pyEndsWith key name || moduleIsReexported) && kv.2.any fun src =>
      let samePkg := src.id == packageId
      let stripped := pyRstrip key ".*"
      let otherPkg := stripped == qname || stripped == moduleQname
      (samePkg || otherPkg) &&
      ((moduleIsReexported &&
          (src.wildcardImports.any (fun w =>
              ((samePkg && w == moduleName) || (otherPkg && w == moduleQname)) && notInternal && parentOk)
           || src.qualifiedImports.any (fun q =>
              (q.qualifiedName == moduleName || q.qualifiedName == moduleQname)
              && ((q.alias.isNone && notInternal) || (match q.alias with | some a => !isInternal a | none => false))
              && notInternal && parentOk)))
       || (pyEndsWith key name &&
           src.qualifiedImports.any (fun q =>
              pyEndsWith qname q.qualifiedName
              && ((match q.alias with | some a => !isInternal a | none => false) || (q.alias.isNone && notInternal)))))
  if hit then some true else none

/-- `_is_public` -/
def isPublicV (s : VSt) (name qname : String) : Except PyErr Bool :=
  match parentKind s with
  | .other => .error .typeError
  | pk =>
    let viaReexport := match pk with
      | .initFunction _ => none
      | .module => checkPublicityInReexports s name qname true
      | .publicClass => checkPublicityInReexports s name qname true
      | _ => checkPublicityInReexports s name qname false
    match viaReexport with
    | some b => .ok b
    | none =>
      if isInternal name && !pyEndsWith name "__" then .ok false
      else
        -- attributes assigned in a constructor belong to the class of that constructor
        let ownerPublic : Option Bool := match pk with
          | .publicClass => some true
          | .privateClass => some false
          | .initFunction o => o
          | _ => none
        match ownerPublic with
        | some b => if name == "__init__" || !isInternal name then .ok b
                    else .ok ((dropLast' (splitDot qname)).all (fun it => !isInternal it))
        | none => .ok ((dropLast' (splitDot qname)).all (fun it => !isInternal it))

/-! ### docstring parser access -/

def lastDocExpr : List Def → String
  | [] => ""
  | d :: ds =>
    let rest := lastDocExpr ds
    match d with
    | .docExpr _ cleaned => if ds.any (fun x => match x with | .docExpr .. => true | _ => false) then rest else cleaned
    | _ => rest

def lastDocStmt : List Stmt → String
  | [] => ""
  | d :: ds =>
    let rest := lastDocStmt ds
    match d with
    | .docExpr _ cleaned => if ds.any (fun x => match x with | .docExpr .. => true | _ => false) then rest else cleaned
    | _ => rest

def withDoc {α : Type} (f : ParserState → Except PyErr (α × ParserState)) : V α := fun s =>
  match f s.doc with
  | .error e => .error e
  | .ok (a, d) => .ok (a, { s with doc := d })

def classDocumentation (env : AEnv) (fullname : String) (defs : List Def) : V Docstring :=
  if env.opts.plaintext then
    let d := lastDocExpr defs
    pure { description := d, fullDocstring := d }
  else withDoc (fun p => getClassDocumentation p fullname)

def functionDocumentation (env : AEnv) (f : FuncDef) : V Docstring :=
  if env.opts.plaintext then
    let d := lastDocStmt f.body
    pure { description := d, fullDocstring := d }
  else withDoc (fun p => getFunctionDocumentation p f.fullname)

def parameterDocumentation (env : AEnv) (fq pname parent : String) : V ParamDoc :=
  if env.opts.plaintext then pure {} else withDoc (fun p => getParameterDocumentation p fq pname parent)

def attributeDocumentation (env : AEnv) (parent name : String) : V AttrDoc :=
  if env.opts.plaintext then pure {} else withDoc (fun p => getAttributeDocumentation p parent name)

def resultDocumentation (env : AEnv) (fq : String) : V (List ResultDoc) :=
  if env.opts.plaintext then pure [] else withDoc (fun p => getResultDocumentation p fq)

/-! ### mypy type → API type (1006-1146) -/

def hasName : MType → Option String
  | .unbound n _ => some n
  | .typeVar n _ _ => some n
  | .other _ n => n
  | _ => none

def argsOf : MType → List MType
  | .inst _ _ a => a
  | .unbound _ a => a
  | _ => []

def addTypeVar (tv : String × Option AType) (l : List (String × Option AType)) : List (String × Option AType) :=
  if l.any (fun x => x.1 == tv.1 && (match x.2, tv.2 with
      | none, none => true
      | some a, some b => a.pyEq b
      | _, _ => false)) then l else l ++ [tv]

def isIncorrectAny : MType → Bool
  | .any t _ => !correctTypeOfAny t
  | _ => false

mutual
/-- `mypy_type_to_abstract_type(mypy_type, unanalyzed_type)`; `un` is consulted only at the top -/
def toAbstract (env : AEnv) (t : MType) (un : Option MType) : V AType := do
  -- special cases decided by the un-analysed annotation
  let special : Option (V AType) :=
    match un with
    | none => none
    | some u =>
      match hasName u with
      | some "Final" => some (do
          let ts ← toAbstracts env (argsOf u)
          match ts with
          | [] => throwV .valueError
          | [x] => pure (.final x)
          | xs => pure (.final (.union xs)))
      | some n =>
        if n == "list" || n == "set" then
          match argsOf t with
          | [a] => if isIncorrectAny a then some (toAbstractNoUn env u) else none
          | _ => none
        else none
      | none =>
        match u with
        | .tuple items => some (do let ts ← toAbstracts env items; pure (.tuple ts))
        | _ => none
  match special with
  | some v => v
  | none => toAbstractNoUn env t
/-- the dispatch on the mypy type itself -/
def toAbstractNoUn (env : AEnv) : MType → V AType
  | .tuple items => do let ts ← toAbstracts env items; pure (.tuple ts)
  | .union items => do let ts ← toAbstracts env items; pure (.union ts)
  | .typeVar name ub ubStr => do
    if ubStr != "builtins.object" then
      let b ← toAbstractNoUn env ub
      if name == "Self" then pure b
      else do
        modify fun s => { s with typeVars := addTypeVar (name, some b) s.typeVars }
        pure (.typeVarB name b)
    else do
      modify fun s => { s with typeVars := addTypeVar (name, none) s.typeVars }
      pure (.typeVar name)
  | .callable args ret => do
    let ps ← toAbstracts env args
    let r ← toAbstractNoUn env ret
    pure (.callable ps r)
  | .any t missing =>
    if t == fromUnimportedType then do
      let s ← get
      match findAlias env s (lastD "" (splitDot missing)) with
      | .error e => throwV e
      | .ok (n, q) => if q == "" then do warnV "Could not parse a type, added unknown type instead."; pure .unknown
                      else pure (.named n q)
    else pure (.named "Any" "typing.Any")
  | .none => pure (.named "None" "builtins.None")
  | .literal v => pure (.literal [v])
  | .unbound name args =>
    if name == "list" then do let ts ← toAbstracts env args; pure (.list ts)
    else if name == "set" then do let ts ← toAbstracts env args; pure (.set ts)
    else if name == "Any" || name == "str" || name == "int" || name == "bool" || name == "float" || name == "None" then
      pure (.named name ("builtins." ++ name))
    else do
      let s ← get
      match bottomModule s with
      | none => throwV .typeError
      | some m =>
        match m.classes.find? (fun c => c.name == name) with
        | some c => pure (.named c.name (replaceChar c.id '/' "."))
        | none =>
          match findAlias env s name with
          | .error e => throwV e
          | .ok (n, q) => if q == "" then do warnV "Could not parse a type, added unknown type instead."; pure .unknown
                          else pure (.named n q)
  | .inst name fullname args =>
    if name == "int" || name == "str" || name == "bool" || name == "float" then pure (.named name fullname)
    else if name == "tuple" then do let ts ← toAbstracts env args; pure (.tuple ts)
    else if name == "list" || name == "Sequence" || name == "Collection" then do
      let ts ← toAbstracts env args; pure (.list ts)
    else if name == "set" then do let ts ← toAbstracts env args; pure (.set ts)
    else if name == "dict" || name == "Mapping" then
      match args with
      | k :: v :: _ => do
        let k' ← toAbstractNoUn env k
        let v' ← toAbstractNoUn env v
        pure (.dict k' v')
      | _ => throwV .indexError
    else if args.isEmpty then pure (.named name fullname)
    else do let ts ← toAbstracts env args; pure (.namedSeq name fullname ts)
  | .other _ _ => do
    warnV "Could not parse a type, added unknown type instead."
    pure .unknown
def toAbstracts (env : AEnv) : List MType → V (List AType)
  | [] => pure []
  | t :: ts => do
    let a ← toAbstractNoUn env t
    let as ← toAbstracts env ts
    pure (a :: as)
end

/-! ### expressions (`_mypy_helpers.py:89-123`) -/

mutual
/-- `mypy_expression_to_sds_type` -/
def exprToType : Expr → Except PyErr AType
  | .name n fq _ _ _ => if n == "False" || n == "True" then .ok (.named "bool" "builtins.bool") else .ok (.named n fq)
  | .int _ => .ok (.named "int" "builtins.int")
  | .float _ => .ok (.named "float" "builtins.float")
  | .str _ => .ok (.named "str" "builtins.str")
  | .tuple items => match exprsToTypes items with
    | .ok ts => .ok (.tuple ts)
    | .error e => .error e
  | .unary _ e => exprToType e
  | _ => .ok .unknown          -- other expressions (lists, operators, calls, …) cannot be inferred
def exprsToTypes : List Expr → Except PyErr (List AType)
  | [] => .ok []
  | e :: es => match exprToType e with
    | .error err => .error err
    | .ok t => match exprsToTypes es with
      | .error err => .error err
      | .ok ts => .ok (t :: ts)
end

/-- `_get_parameter_type_and_default_value` → `(default_value, default_is_none)`; warnings are returned -/
def defaultOf (functionId : String) : Expr → (DefaultVal × Bool × List String)
  | .name n _ _ _ _ =>
    if n == "None" then (.none, true, [])
    else if n == "True" then (.bool true, false, [])
    else if n == "False" then (.bool false, false, [])
    else (.none, false, [])
  | .call =>
    (.none, false, ["Could not parse parameter type for function " ++ functionId
      ++ ": Safe-DS does not support call expressions as types."])
  | .unary op e =>
    let (v, isNone, ws) := defaultOf functionId e
    let plain := fun (txt : String) => !(pyStartsWith txt "-") && !(pyStartsWith txt "+")
    match v with
    | .int i =>
      if op == "-" && i ≥ 0 then (.int (-i), isNone, ws)
      else if op == "+" && i ≥ 0 then (.int i, isNone, ws)
      else (.unknown, isNone, ws ++ ["unexpected operator"])
    | .float r =>
      if op == "-" && plain r then (.float ("-" ++ r), isNone, ws)
      else if op == "+" && plain r then (.float r, isNone, ws)
      else (.unknown, isNone, ws ++ ["unexpected operator"])
    | _ => (.unknown, isNone, ws ++ ["unexpected operator"])
  | .int v => (.int v, false, [])
  | .float r => (.float r, false, [])
  | .str v => (.str (escapeStringLiteral v), false, [])
  | _ => (.none, false, [])

/-- `get_argument_kind` (tied by T2) -/
def argumentKind (a : Arg) : Except PyErr Assign :=
  if a.isSelf || a.isCls then .ok .implicit
  else if (a.kind == 0 || a.kind == 1) && a.posOnly then .ok .positionOnly
  else if (a.kind == 0 || a.kind == 1) && !a.posOnly then .ok .positionOrName
  else if a.kind == 2 then .ok .positionalVararg
  else if a.kind == 3 || a.kind == 5 then .ok .nameOnly
  else if a.kind == 4 then .ok .namedVararg
  else .error .valueError

/-! ### parameters (856-969) -/

def parseParameter (env : AEnv) (f : FuncDef) (functionId : String) (a : Arg) : V Parameter := do
  let argType ← (match a.varType with
    | none => throwV .valueError
    | some mt =>
      if isIncorrectAny mt then pure none
      else
        match a.annotation with
        | some (.unbound n args) =>
          if (n == "list" || n == "set") && args.length ≥ 2 then do
            let t ← toAbstract env (.unbound n args) none; pure (some t)
          else do let t ← toAbstract env mt none; pure (some t)
        | some _ => do let t ← toAbstract env mt none; pure (some t)
        | none => pure none : V (Option AType))
  let (default, isNone, argType) ← (match a.init with
    | none => pure (DefaultVal.none, false, argType)
    | some e => do
      let (d, n, ws) := defaultOf functionId e
      for w in ws do warnV w
      if argType.isNone && (n || d != .none) then
        match exprToType e with
        | .ok t => pure (d, n, some t)
        | .error err => throwV err
      else pure (d, n, argType) : V (DefaultVal × Bool × Option AType))
  let kind ← (match argumentKind a with
    | .ok k => pure k
    | .error e => throwV e : V Assign)
  let s ← get
  let parent := match s.stack with
    | .cls c :: _ => c.id
    | _ => ""
  let doc ← parameterDocumentation env f.fullname a.name parent
  pure { id := functionId ++ "/" ++ a.name, name := a.name, isOptional := default != .none || isNone,
         default := default, assignedBy := kind, doc := doc, type := argType }

def parseParameters (env : AEnv) (f : FuncDef) (functionId : String) : List Arg → V (List Parameter)
  | [] => pure []
  | a :: as => do
    let p ← parseParameter env f functionId a
    let ps ← parseParameters env f functionId as
    pure (p :: ps)

/-! ### results (480-720) -/

mutual
/-- `find_return_stmts_recursive` -/
def findReturns : List Stmt → List (Option Expr)
  | [] => []
  | s :: ss => findReturnsIn s ++ findReturns ss
def findReturnsIn : Stmt → List (Option Expr)
  | .ret e => [e]
  | .if_ body elseBody =>
    findReturns body ++ (match elseBody with | some b => findReturns b | none => [])
  | .block body => findReturns body
  | .try_ body handlers => findReturns body ++ findReturns handlers
  | .match_ bodies => findReturns bodies
  | .loop body => findReturns body
  | _ => []
end

def typeInSet (t : AType) (l : List AType) : Bool := l.any (fun x => x.pyEq t)

/-- membership by the dictionary representation (`str(type.to_dict())`): structural equality -/
def typeInSetExact (t : AType) (l : List AType) : Bool := l.any (fun x => AType.beq x t)

def isNamedOrTuple : AType → Bool
  | .named .. => true
  | .tuple _ => true
  | _ => false

/-- key of the sort in `_infer_type_from_return_stmts` -/
def inferSortKey : AType → String
  | .named n _ => n
  | .tuple ts => toString ts.length
  | _ => ""

def isCallOrMember : Expr → Bool
  | .call => true
  | .member => true
  | _ => false

/-- `_infer_type_from_return_stmts`: `none` when the function has no return statement -/
def inferFromReturns (body : List Stmt) : Except PyErr (Option AType) :=
  let rets := findReturns body
  if rets.isEmpty then .ok none
  else
    let add := fun (acc : Except PyErr (List AType)) (e : Expr) =>
      match acc with
      | .error err => .error err
      | .ok l =>
        match exprToType e with
        | .error err => .error err
        | .ok t => if isNamedOrTuple t && !typeInSetExact t l then .ok (l ++ [t]) else .ok l
    let step := fun (acc : Except PyErr (List AType)) (r : Option Expr) =>
      match r with
      | none => acc
      | some e =>
        if isCallOrMember e then acc
        else match e with
          | .cond a b =>
            let acc := if isCallOrMember a then acc else add acc a
            if isCallOrMember b then acc else add acc b
          | .name _ _ true tn tq =>
            (match acc with
             | .error err => .error err
             | .ok l => let t := AType.named tn tq; if typeInSetExact t l then .ok l else .ok (l ++ [t]))
          | e => add acc e
    match rets.foldl step (.ok []) with
    | .error err => .error err
    | .ok types => .ok (some (.tuple (sortBy (fun a b => strLe (inferSortKey a) (inferSortKey b)) types)))

def resultNameGen (k : Nat) : String := "result_" ++ toString k

def typeHashEq (a : Option AType) (b : AType) : Bool :=
  match a with
  | some x => x.hashKey == b.hashKey
  | none => false

/-- `_create_inferred_results` -/
def createInferredResults (types : List AType) (docs : List ResultDoc) (functionId : String) : Except PyErr (List Result) :=
  -- the two-dimensional result array
  let place := fun (acc : Except PyErr (List (List AType) × Nat)) (t : AType) =>
    match acc with
    | .error e => .error e
    | .ok (arr, longest) =>
      match t with
      | .named .. =>
        (match arr with
         | [] => .ok ([[t]], longest)
         | first :: rest => .ok ((first ++ [t]) :: rest, longest))
      | .tuple ts =>
        let stepI := fun (st : List (List AType) × Nat × Nat) (ti : AType) =>
          let (arr, longest, i) := st
          if arr.length > i then
            let col := arr.getD i []
            if !typeInSet ti col then
              let col' := col ++ [ti]
              (arr.set i col', if col'.length > longest then col'.length else longest, i + 1)
            else (arr, longest, i + 1)
          else (arr ++ [[ti]], longest, i + 1)
        let (arr', longest', _) := ts.foldl stepI (arr, longest, 0)
        .ok (arr', longest')
      | _ => .error .typeError
  match types.foldl place (.ok ([], 1)) with
  | .error e => .error e
  | .ok (arr, longest) =>
    let noneT := AType.named "None" "builtins.None"
    let arr := arr.map fun col => if col.length < longest && !typeInSet noneT col then col ++ [noneT] else col
    match arr, docs with
    | [[single]], [d] =>
      let name := if d.name != "" then d.name else resultNameGen 1
      .ok [{ id := functionId ++ "/" ++ name, name := name, type := some single }]
    | _, _ =>
      let build := fun (acc : List Result × Nat) (col : List AType) =>
        let (out, k) := acc
        let rtype := match col with
          | [x] => x
          | xs => AType.union xs
        let doc : Option ResultDoc :=
          if docs.isEmpty then none
          else match rtype with
            | .union _ =>
              let possible : Option AType :=
                if docs.length > 1 then some (.union (docs.filterMap (·.type))) else (docs.headD {}).type
              (match possible with
               | some p => if p.pyEq rtype then docs.head? else none
               | none => none)
            | _ => docs.find? (fun d => typeHashEq d.type rtype)
        let (name, k') := match doc with
          | some d => if d.name != "" then (d.name, k) else (resultNameGen k, k + 1)
          | none => (resultNameGen k, k + 1)
        (out ++ [{ id := functionId ++ "/" ++ name, name := name, type := some rtype }], k')
      .ok (arr.foldl build ([], 1)).1

/-- `_parse_results` -/
def parseResults (env : AEnv) (f : FuncDef) (functionId : String) (docs : List ResultDoc) : V (List Result) := do
  if f.name == "__init__" then return []
  let infer : V (Option AType × Bool) := match inferFromReturns f.body with
    | .error e => throwV e
    | .ok t => pure (t, t.isSome)
  let (retType, inferred) ← (if f.hasCallableType then
      match f.retType with
      | some .none => pure (some (AType.named "None" "builtins.None"), false)
      | some rt =>
        let unAny := match f.unanalyzedRet with
          | none => true
          | some (.any _ _) => true
          | some _ => f.unanalyzedRetLiteralIsNone
        if unAny && isIncorrectAny rt then infer
        else do let t ← toAbstract env rt f.unanalyzedRet; pure (some t, false)
      | none => infer
    else infer : V (Option AType × Bool))
  match retType with
  | none => pure []
  | some rt =>
    match inferred, rt with
    | true, .tuple ts =>
      (match createInferredResults ts docs functionId with
       | .ok rs => pure rs
       | .error e => throwV e)
    | _, _ =>
      let returnResults := match rt with
        | .tuple ts => ts
        | t => [t]
      let mk : String → AType → Result := fun name t => { id := functionId ++ "/" ++ name, name := name, type := some t }
      if returnResults.length == docs.length then
        -- names from the docstrings, position by position
        let step := fun (acc : List Result × Nat) (p : AType × ResultDoc) =>
          let (out, k) := acc
          if p.2.name != "" then (out ++ [mk p.2.name p.1], k) else (out ++ [mk (resultNameGen k) p.1], k + 1)
        pure ((returnResults.zip docs).foldl step ([], 1)).1
      else
        let step := fun (acc : List Result × Nat) (t : AType) =>
          let (out, k) := acc
          let d := docs.find? (fun d => typeHashEq d.type t)
          match d with
          | some d => if d.name != "" then (out ++ [mk d.name t], k) else (out ++ [mk (resultNameGen k) t], k + 1)
          | none => (out ++ [mk (resultNameGen k) t], k + 1)
        pure (returnResults.foldl step ([], 1)).1

/-! ### functions (255-380) -/

def optTypeNe (a b : Option AType) : Bool :=
  match a, b with
  | some x, some y => !(x.pyEq y)
  | _, _ => false

/-- lines 278-300: reconcile hint and docstring type of one parameter -/
def reconcileParameter (env : AEnv) (functionId : String) (p : Parameter) : V Parameter := do
  if p.type.isSome && p.doc.type.isSome && optTypeNe p.type p.doc.type && env.opts.warn then
    warnV ("Different type hint and docstring types for '" ++ functionId ++ "'.")
  if p.doc.type.isSome && (p.type.isNone || env.opts.preferDocstring) then
    pure { p with isOptional := p.doc.defaultValue != "",
                  default := if p.doc.defaultValue != "" then .str p.doc.defaultValue else .str "",
                  type := p.doc.type }
  else pure p

def reconcileParameters (env : AEnv) (functionId : String) : List Parameter → V (List Parameter)
  | [] => pure []
  | p :: ps => do
    let a ← reconcileParameter env functionId p
    let as ← reconcileParameters env functionId ps
    pure (a :: as)

/-- lines 306-334; `i` is the loop counter -/
def reconcileResults (env : AEnv) (functionId : String) : Nat → List Result → List Result → List ResultDoc → V (List Result)
  | _, all, _, [] => pure all
  | i, all, rs, d :: ds => do
    let cur := rs.head?
    let rest := rs.drop 1
    match d.type with
    | none => reconcileResults env functionId (i + 1) all rest ds
    | some dt =>
      match cur with
      | none =>
        let name := if d.name != "" then d.name else "result_" ++ toString (i + 1)
        reconcileResults env functionId (i + 1) (all ++ [{ id := functionId ++ "/" ++ name, name := name, type := some dt }]) rest ds
      | some r => do
        if env.opts.warn && resultDiffers r dt then
          warnV ("Different type hint and docstring types for the result of '" ++ functionId ++ "'.")
        if env.opts.preferDocstring then
          reconcileResults env functionId (i + 1) (all.mapIdx (fun k x => if k == i then { x with type := some dt } else x)) rest ds
        else reconcileResults env functionId (i + 1) all rest ds
where
  /-- `result_type.type != result_doc_type` -/
  resultDiffers (r : Result) (dt : AType) : Bool := optTypeNe r.type (some dt)

def sortTypeVars (l : List (String × Option AType)) : List TypeVar :=
  (sortBy (fun (a b : String × Option AType) => strLe a.1 b.1) l).map fun x => { name := x.1, upperBound := x.2 }

/-- `enter_funcdef` -/
def enterFuncdef (env : AEnv) (f : FuncDef) : V Unit := do
  let s ← get
  let functionId := createId s f.name
  let isPublic ← (match isPublicV s f.name f.fullname with
    | .ok b => pure b
    | .error e => throwV e : V Bool)
  let doc ← functionDocumentation env f
  modify fun s => { s with typeVars := [] }
  let params ← parseParameters env f functionId f.args
  let s1 ← get
  let typeVars := sortTypeVars s1.typeVars
  let params ← reconcileParameters env functionId params
  let resultDocs ← resultDocumentation env f.fullname
  let results ← parseResults env f functionId resultDocs
  let results ← reconcileResults env functionId 0 results results resultDocs
  let s2 ← get
  let reexportedBy := sortModRefs (getReexportedBy s2 f.fullname)
  let fn : Function := { id := functionId, name := f.name, doc := doc, isPublic := isPublic, isStatic := f.isStatic,
                         isClassMethod := f.isClass, isProperty := f.isProperty, resultDocs := resultDocs,
                         typeVars := typeVars, results := results, reexportedBy := reexportedBy, params := params }
  modify fun s => { s with stack := .fn fn :: s.stack }

/-- `leave_funcdef` -/
def leaveFuncdef : V Unit := do
  let s ← get
  match s.stack with
  | .fn f :: rest =>
    match rest with
    | [] => set { s with stack := rest }
    | parent :: up =>
      let api := s.api
      let api := { api with functions := dictSet (·.id) api.functions f }
      let api := { api with results := f.results.foldl (dictSet (·.id)) api.results }
      let api := { api with parameters := f.params.foldl (dictSet (·.id)) api.parameters }
      let parent' := match parent with
        | .module m => Frame.module { m with functions := m.functions ++ [f] }
        | .cls c => if f.name == "__init__" then Frame.cls { c with ctor := some f } else Frame.cls { c with methods := c.methods ++ [f] }
        | other => other
      set { s with api := api, stack := parent' :: up }
  | _ => throwV .assertionError

/-! ### attributes (724-852) -/

def attributeAlreadyDefined (s : VSt) (name : String) : Except PyErr Bool :=
  let cls := match s.stack with
    | .fn _ :: .cls c :: _ => some c
    | .cls c :: _ => some c
    | _ => none
  match cls with
  | some c => .ok (c.attributes.any (·.name == name))
  | none => .error .typeError

/-- `_create_attribute` -/
def createAttributeV (env : AEnv) (isMember : Bool) (name fullname : String) (isVar : Bool) (var : Option VarInfo)
    (un : Option MType) (isStatic : Bool) : V Attribute := do
  if !isVar && name == "" then throwV .attributeError
  let qname := match var with
    | some v => if fullname == name || fullname == "" then v.fullname else fullname
    | none => fullname
  let attrType : Option MType := match var with
    | none => none
    | some v =>
      if isMember then (match v.type with | some t => if isIncorrectAny t then none else some t | none => none)
      else if !v.explicitSelfType then
        -- list-typed class attributes take their arguments from the un-analysed annotation
        (match v.type with
         | some (.inst n fq _) =>
           if fq == "builtins.list" && !v.isInferred then
             (match un with
              | some u => some (.inst n fq (argsOf u))
              | none => some (.other "AttributeError" none))
           else v.type
         | t => t)
      else none
  let ty ← (if !isVar then pure (some (AType.typeVar name))
    else match attrType with
      | none => pure none
      | some (.other "AttributeError" _) => throwV .attributeError
      | some t =>
        if isIncorrectAny t then pure none
        else match t with
          | .callable .. => pure none
          | t => do let a ← toAbstract env t un; pure (some a) : V (Option AType))
  let s ← get
  let parentId ← (match s.stack with
    | .fn f :: .cls c :: _ => if f.name == "__init__" then pure c.id else throwV .assertionError
    | .cls c :: _ => pure c.id
    | _ => throwV .assertionError : V String)
  let doc ← attributeDocumentation env parentId name
  let s ← get
  let id := parentId ++ "/" ++ name
  let pub ← (match isPublicV s name qname with
    | .ok b => pure b
    | .error e => throwV e : V Bool)
  pure { id := id, name := name, isPublic := pub, isStatic := isStatic, type := ty, doc := doc }

/-- `_parse_attributes` -/
def parseAttributes (env : AEnv) (lv : LValue) (un : Option MType) (isStatic : Bool) : V (List Attribute) := do
  let one := fun (isMember : Bool) (name fullname : String) (isVar : Bool) (var : Option VarInfo) => (do
    let s ← get
    match attributeAlreadyDefined s name with
    | .error e => throwV e
    | .ok true => pure []
    | .ok false =>
      -- `self.x = …` for an `x` defined elsewhere (e.g. inherited): mypy attaches no node to the target
      if isMember && !isVar then pure []
      else do
        let a ← createAttributeV env isMember name fullname isVar var un isStatic
        pure [a] : V (List Attribute))
  match lv with
  | .name n fq isVar var => one false n fq isVar var
  | .member n fq isVar var => one true n fq isVar var
  | .tuple items =>
    let rec go : List LValue → V (List Attribute)
      | [] => pure []
      | .name n fq isVar var :: rest => do let a ← one false n fq isVar var; let r ← go rest; pure (a ++ r)
      | .member n fq isVar var :: rest => do let a ← one true n fq isVar var; let r ← go rest; pure (a ++ r)
      | _ :: rest => go rest
    go items
  | .other => pure []

def lvalueNames : LValue → Except PyErr (List String)
  | .tuple items => .ok (items.filterMap fun i => match i with
      | .name n .. => some n
      | .member n .. => some n
      | _ => none)
  | .name n .. => .ok [n]
  | .member n .. => .ok [n]
  | .other => .error .attributeError

def isNameLValue : LValue → Bool
  | .name .. => true
  | _ => false

/-- `enter_assignmentstmt` -/
def enterAssignment (env : AEnv) (a : Assignment) : V Unit := do
  let rec go : List LValue → V (List AssignItem)
    | [] => pure []
    | lv :: rest => do
      let s ← get
      let here ← (match s.stack with
        | .cls _ :: _ => do let as ← parseAttributes env lv a.unanalyzedType true; pure (as.map AssignItem.attr)
        | .fn f :: .cls _ :: _ =>
          if f.name == "__init__" && !isNameLValue lv then do
            let as ← parseAttributes env lv a.unanalyzedType false; pure (as.map AssignItem.attr)
          else pure []
        | .enum e :: _ =>
          (match lvalueNames lv with
           | .error err => throwV err
           | .ok ns => pure (ns.map fun n => AssignItem.inst { id := e.id ++ "/" ++ n, name := n }))
        | _ => pure [] : V (List AssignItem))
      let more ← go rest
      pure (here ++ more)
  let items ← go a.lvalues
  modify fun s => { s with stack := .assigns items :: s.stack }

/-- `leave_assignmentstmt` -/
def leaveAssignment : V Unit := do
  let s ← get
  match s.stack with
  | .assigns items :: rest =>
    match rest with
    | [] => set { s with stack := rest }
    | parent :: up =>
      let addAttr := fun (st : AnaResult × List Frame) (a : Attribute) =>
        let (api, frames) := st
        match frames with
        | .fn f :: .cls c :: up' =>
          ({ api with attributes := dictSet (·.id) api.attributes a }, .fn f :: .cls { c with attributes := c.attributes ++ [a] } :: up')
        | .cls c :: up' =>
          ({ api with attributes := dictSet (·.id) api.attributes a }, .cls { c with attributes := c.attributes ++ [a] } :: up')
        | fr => (api, fr)
      let addInst := fun (st : AnaResult × List Frame) (e : EnumInstance) =>
        let (api, frames) := st
        match frames with
        | .enum en :: up' =>
          ({ api with enumInstances := dictSet (·.id) api.enumInstances e }, .enum { en with instances := en.instances ++ [e] } :: up')
        | fr => (api, fr)
      match parent with
      | .module _ => throwV .assertionError
      | .assigns _ => throwV .assertionError
      | .fn _ =>
        -- attributes of a constructor need a class above it
        (match up with
         | .cls _ :: _ => pure ()
         | _ => if items.any (fun i => match i with | .attr _ => true | _ => false) then throwV .typeError else pure ())
      | _ => pure ()
      let (api, frames) := items.foldl (fun st i => match i with
        | .attr a => addAttr st a
        | .inst e => addInst st e) (s.api, parent :: up)
      set { s with api := api, stack := frames }
  | _ => throwV .assertionError

/-! ### classes, enums, modules (72-253, 382-403) -/

/-- `mypy_variance_parser` -/
def varianceOf (n : Nat) : Except PyErr Variance :=
  if n == 0 then .ok .invariant else if n == 1 then .ok .covariant else if n == 2 then .ok .contravariant else .error .valueError

def typeParameter (env : AEnv) (tv : TypeVarInfo) : V TypeParam := do
  let v ← (match varianceOf tv.variance with
    | .ok v => pure v
    | .error e => throwV e : V Variance)
  let ty ← (if v == .invariant then do
      let vals ← toAbstracts env tv.values
      if vals.isEmpty then pure none
      else do let vals2 ← toAbstracts env tv.values; pure (some (AType.union vals2))
    else if tv.upperBoundStr != "builtins.object" then do
      let t ← toAbstract env tv.upperBound none; pure (some t)
    else pure none : V (Option AType))
  pure { name := tv.name, type := ty, variance := v }

def typeParameters (env : AEnv) : List (Option TypeVarInfo) → V (List TypeParam)
  | [] => pure []
  | none :: _ => throwV .attributeError        -- `generic_type.variance` on something that is no type variable
  | some tv :: rest => do
    let p ← typeParameter env tv
    let ps ← typeParameters env rest
    pure (p :: ps)

def isGenericBase (b : BaseExpr) : Bool :=
  b.baseName == some "Collection" || b.baseName == some "Generic" || b.baseName == some "Sequence"

def ctorFullDoc (env : AEnv) : List Def → V Unit
  | [] => pure ()
  | .func f :: rest => do
    if f.name == "__init__" then do let _ ← functionDocumentation env f; pure () else pure ()
    ctorFullDoc env rest
  | _ :: rest => ctorFullDoc env rest

/-- `enter_classdef` -/
def enterClassdef (env : AEnv) (name fullname : String) (bases removed : List BaseExpr) (defs : List Def) : V Unit := do
  let s ← get
  let id := createId s name
  let doc ← classDocumentation env fullname defs
  let typeParams ← (match (removed ++ bases).filter isGenericBase with
    | [] => pure []
    | g :: _ =>
      -- only type variables are type parameters (not the `int` of `Sequence[int]`)
      match g.index with
      | .tuple items => typeParameters env ((items.filterMap fun x => x).map some)
      | .name (some tv) => typeParameters env [some tv]
      | _ => pure [] : V (List TypeParam))
  let inheritsExc := bases.any fun b => match b.typeInfo with
    | some ti => inheritsFromException env (env.infoBases.length + 2) ti
    | none => false
  let s ← get
  let supers ← (bases.filter (·.hasFullname)).mapM fun b => (do
    let n := lastD "" (splitDot b.fullname)
    if (assocGet? env.aliases n).isSome then
      -- a superclass that mypy resolved to a class definition keeps its qualified name (after the module's imports)
      match findAlias env s n (if b.typeInfo.isSome then b.fullname else "") with
      | .error e => throwV e
      | .ok (_, q) => pure (if q != "" then q else b.fullname)
    else pure b.fullname : V String)
  let reexportedBy := sortModRefs (getReexportedBy s fullname)
  ctorFullDoc env defs
  let s ← get
  let pub ← (match isPublicV s name fullname with
    | .ok b => pure b
    | .error e => throwV e : V Bool)
  let c : Class := { id := id, name := name, superclasses := supers, isPublic := pub, doc := doc,
                     inheritsFromException := inheritsExc, reexportedBy := reexportedBy, typeParams := typeParams }
  modify fun s => { s with stack := .cls c :: s.stack }

/-- `leave_classdef` -/
def leaveClassdef : V Unit := do
  let s ← get
  match s.stack with
  | .cls c :: rest =>
    match rest with
    | .module m :: up =>
      set { s with api := { s.api with classes := dictSet (·.id) s.api.classes c },
                   stack := .module { m with classes := m.classes ++ [c] } :: up }
    | .cls p :: up =>
      set { s with api := { s.api with classes := dictSet (·.id) s.api.classes c },
                   stack := .cls { p with classes := p.classes ++ [c] } :: up }
    | _ => set { s with stack := rest }
  | _ => throwV .assertionError

def isEnumClass (bases : List BaseExpr) : Bool :=
  bases.any fun b => b.hasFullname && (b.fullname == "enum.Enum" || b.fullname == "enum.IntEnum")

def enterEnumdef (env : AEnv) (name fullname : String) (defs : List Def) : V Unit := do
  let s ← get
  let id := createId s name
  let doc ← classDocumentation env fullname defs
  modify fun s => { s with stack := .enum { id := id, name := name, doc := doc } :: s.stack }

def leaveEnumdef : V Unit := do
  let s ← get
  match s.stack with
  | .enum e :: rest =>
    match rest with
    | .module m :: up =>
      set { s with api := { s.api with enums := dictSet (·.id) s.api.enums e },
                   stack := .module { m with enums := m.enums ++ [e] } :: up }
    | _ => set { s with stack := rest }
  | _ => throwV .assertionError

def firstModuleDoc : List Def → String
  | [] => ""
  | .docExpr raw _ :: _ => raw
  | _ :: rest => firstModuleDoc rest

/-- `enter_moduledef` -/
def enterModuledef (m : SrcModule) : V Unit := do
  let isPackage := pyEndsWith m.path "__init__.py"
  let qis := m.imports.flatMap fun i => match i with
    | .import_ ids => ids.map fun (n, a) => ({ qualifiedName := n, alias := a } : QImport)
    | .from_ id names => names.map fun (n, a) => { qualifiedName := (if id != "" then id ++ "." else "") ++ n, alias := a }
    | .all _ => []
  let wis := m.imports.filterMap fun i => match i with
    | .all id => some id
    | _ => none
  let mod : Module := { id := replaceChar m.fullname '.' "/", name := if isPackage then "__init__" else m.name,
                        docstring := firstModuleDoc m.defs, qualifiedImports := qis, wildcardImports := wis }
  modify fun s => { s with fileFullname := m.fullname, fileName := m.name,
                           api := if isPackage then addReexports s.api mod else s.api,
                           stack := .module mod :: s.stack }

def leaveModuledef : V Unit := do
  let s ← get
  match s.stack with
  | .module m :: rest => set { s with api := { s.api with modules := dictSet (·.id) s.api.modules m }, stack := rest }
  | _ => throwV .assertionError

/-! ### the walker (`_ast_walker.py`) -/

def initAssignments : List Stmt → List Assignment
  | [] => []
  | .assign a :: rest => a :: initAssignments rest
  | _ :: rest => initAssignments rest

def walkAssignment (env : AEnv) (a : Assignment) : V Unit := do
  enterAssignment env a
  leaveAssignment

def walkFunc (env : AEnv) (f : FuncDef) : V Unit := do
  enterFuncdef env f
  if f.name == "__init__" then
    for a in initAssignments f.body do walkAssignment env a
  leaveFuncdef

/-- an `OverloadedFuncDef` without implementation is the node `None`: fine once, "Node visited twice" after -/
def walkNone : V Unit := do
  let s ← get
  if s.seenNone then throwV .assertionError else set { s with seenNone := true }

/-- which children the walker selects: module level, class body, enum body -/
inductive WalkMode where
  | module | cls | enum
  deriving DecidableEq

mutual
def walkDef (env : AEnv) (mode : WalkMode) : Def → V Unit
  | .func f => if mode == .enum then pure () else walkFunc env f
  | .decorator f => if mode == .enum then pure () else walkFunc env f
  | .overloaded impl =>
    if mode == .enum then pure () else (match impl with | some f => walkFunc env f | none => walkNone)
  | .cls name fullname bases removed defs =>
    if mode == .enum then pure ()
    else if isEnumClass bases then do
      enterEnumdef env name fullname defs
      -- enums consist of their instances only
      walkDefs env .enum defs
      leaveEnumdef
    else do
      enterClassdef env name fullname bases removed defs
      walkDefs env .cls defs
      leaveClassdef
  | .assign a => if mode == .module then pure () else walkAssignment env a
  | _ => pure ()
def walkDefs (env : AEnv) (mode : WalkMode) : List Def → V Unit
  | [] => pure ()
  | d :: ds => do
    walkDef env mode d
    walkDefs env mode ds
end

/-- `ASTWalker.walk(tree)` for one file (a fresh `visited_nodes` set per file) -/
def walkModule (env : AEnv) (m : SrcModule) : V Unit := do
  modify fun s => { s with seenNone := false }
  enterModuledef m
  walkDefs env .module m.defs
  leaveModuledef

def walkModules (env : AEnv) : List SrcModule → V Unit
  | [] => pure ()
  | m :: ms => do
    walkModule env m
    walkModules env ms

/-- the analysis of the selected ASTs (packages first), `get_api` lines 71-86 -/
def analyze (env : AEnv) (docRoot : GNode) (modules : List SrcModule) : Except PyErr (AnaResult × List String) :=
  let st : VSt := { doc := { root := docRoot, style := env.opts.style } }
  match (walkModules env modules).run st with
  | .error e => .error e
  | .ok (_, s) => .ok (s.api, s.warnings)

end StubGen
