/-
L7 — the whole tool: `_run_stub_generator` (`cli/_cli.py:98-134`) = `get_api` (`_get_api.py:24-86`: root
adjustment, discovery, selection of the ASTs, alias table, walk) → `API.to_json_file` →
`StubsStringGenerator` + `generate_stub_data` + `create_stub_files`.

Cut: mypy (`build.graph` → `SrcModule`s, `build.types` → `AliasFact`s) and griffe (`GNode` tree) are inputs.
-/
import StubGen.Model.Discovery
import StubGen.Model.Aliases
import StubGen.Model.Analyze
import StubGen.Model.ApiDict
import StubGen.Model.Files

namespace StubGen

/-- `PurePath.stem`: the final component without its last suffix -/
def rfindDot : List Char → Nat → Option Nat → Option Nat
  | [], _, best => best
  | c :: rest, idx, best => rfindDot rest (idx + 1) (if c = '.' then some idx else best)

def pyStemOfName (name : String) : String :=
  let cs := name.toList
  -- i = name.rfind('.'); 0 < i < len(name) - 1
  match rfindDot cs 0 none with
  | some i => if 0 < i && i + 1 < cs.length then String.ofList (cs.take i) else name
  | none => name

def pathStem (p : PathParts) : String := pyStemOfName (lastD "" p)

structure ToolInput where
  /-- `args.src.resolve()` -/
  srcDir : PathParts
  /-- every `*.py` file below `srcDir`, in the enumeration order of `Path.glob` -/
  files : List PathParts
  isTestRun : Bool := false
  /-- the modules of mypy's build graph for the discovered files, in graph order -/
  graph : List SrcModule
  /-- the entries of `build_result.types` that `_get_aliases` looks at, in dict order -/
  aliasFacts : List AliasFact
  infoBases : List (String × List String) := []
  docRoot : GNode
  opts : AnalyzeOptions := {}
  /-- `-nc` -/
  safe : Bool := false
  /-- files already present in the output directory -/
  preexisting : List String := []

structure ToolOutput where
  packageName : String
  analysed : List String                 -- paths of the walked modules, in walk order
  aliases : AliasTable
  api : AnaResult
  warnings : List String
  apiFileName : String
  apiFileText : String
  gen : GenResult

def AnaResult.toApi (pkg : String) (r : AnaResult) : API :=
  { package := pkg, modules := r.modules, classes := r.classes, reexportMap := r.reexportMap }

/-- the selected ASTs as modules: `_get_mypy_asts` (packages first, each part in graph order) -/
def selectModules (graph : List SrcModule) (d : Discovered) : List SrcModule :=
  let files := d.walkable.map pathStr
  let pkgs := d.packages.map pathStr
  let isInit := fun (p : String) => pyEndsWith p "__init__.py"
  let pkgDir := fun (p : String) =>
    let head := (pySplitStr p "__init__.py").headD ""
    String.ofList head.toList.dropLast
  (graph.filter fun m => isInit m.path && pkgs.contains (pkgDir m.path))
  ++ (graph.filter fun m => !isInit m.path && files.contains m.path)

/-- what `get_api` has computed when the walk is over -/
structure ApiRun where
  packageName : String
  walked : List SrcModule
  aliases : AliasTable
  api : AnaResult
  warnings : List String

/-- `get_api`, up to and including the walk -/
def getApi (i : ToolInput) : Except PyErr ApiRun :=
  match discoverSorted i.srcDir i.files i.isTestRun with
  | .error e => .error e
  | .ok (root, d) =>
    let pkg := pathStem root
    let mods := selectModules i.graph d
    let aliases := getAliases pkg i.aliasFacts
    match analyze { opts := i.opts, aliases := aliases, infoBases := i.infoBases } i.docRoot mods with
    | .error e => .error e
    | .ok (r, ws) => .ok { packageName := pkg, walked := mods, aliases := aliases, api := r, warnings := ws }

/-- `_run_stub_generator` -/
def runTool (i : ToolInput) : Except PyErr ToolOutput :=
  match getApi i with
  | .error e => .error e
  | .ok a =>
    match apiJsonText a.packageName a.api with
    | .error e => .error e
    | .ok text =>
      match runGenerator (a.api.toApi a.packageName) i.safe i.preexisting with
      | .error e => .error e
      | .ok gen =>
        .ok { packageName := a.packageName, analysed := a.walked.map (·.path), aliases := a.aliases, api := a.api,
              warnings := a.warnings, apiFileName := pathStem i.srcDir ++ "__api.json", apiFileText := text, gen := gen }

end StubGen
