/-
L0 — the API type algebra of `src/safeds_stubgen/api_analyzer/_types.py`:
14 constructors, `to_dict`, `from_dict`, `==`, `hash`.

Python facts modelled here (Appendix B of DESIGN.md):
* `Counter(a) == Counter(b)` is multiset equality modulo `==` (elements that are `==`
  hash equally — theorem `C19.eq_hash` — so hash buckets never split an `==` class);
* `hash(frozenset(xs))` is a function of the set of element hashes; the model's hash
  key of a frozenset is the sorted, duplicate-free list of the element keys;
* `True == 1`, `hash(True) == hash(1)`.
Float literals / float bounds are outside the term language.
-/
import StubGen.Py.Basic

namespace StubGen

inductive Lit where
  | str (s : String) | int (i : Int) | bool (b : Bool) | none
  deriving DecidableEq, Repr

/-- `True == 1`, `False == 0` -/
def Lit.norm : Lit → Lit
  | .bool true => .int 1
  | .bool false => .int 0
  | l => l

def Lit.pyEq (a b : Lit) : Bool := a.norm == b.norm

/-- `min` / `max` of a `BoundaryType`: a number or one of the infinity strings. -/
inductive Bnd where
  | int (i : Int) | str (s : String)
  deriving DecidableEq, Repr

inductive AType where
  | unknown
  | named (name qname : String)
  | namedSeq (name qname : String) (types : List AType)
  | enum (values : List String)                       -- frozenset[str]
  | boundary (base : String) (min max : Bnd) (minInc maxInc : Bool)
  | union (types : List AType)
  | list (types : List AType)
  | dict (key value : AType)
  | callable (params : List AType) (ret : AType)
  | set (types : List AType)
  | literal (lits : List Lit)
  | final (t : AType)
  | tuple (types : List AType)
  | typeVar (name : String)                            -- upper_bound = None
  | typeVarB (name : String) (upper : AType)
  deriving Repr

/-! ### Structural (syntactic) equality, hand-written because `deriving` fails on nested types -/

mutual
def AType.beq : AType → AType → Bool
  | .unknown, .unknown => true
  | .named n q, .named n' q' => n == n' && q == q'
  | .namedSeq n q ts, .namedSeq n' q' ts' => n == n' && q == q' && AType.beqL ts ts'
  | .enum vs, .enum vs' => vs == vs'
  | .boundary b mn mx mi xi, .boundary b' mn' mx' mi' xi' =>
      b == b' && mn == mn' && mx == mx' && mi == mi' && xi == xi'
  | .union ts, .union ts' => AType.beqL ts ts'
  | .list ts, .list ts' => AType.beqL ts ts'
  | .dict k v, .dict k' v' => AType.beq k k' && AType.beq v v'
  | .callable ps r, .callable ps' r' => AType.beqL ps ps' && AType.beq r r'
  | .set ts, .set ts' => AType.beqL ts ts'
  | .literal ls, .literal ls' => ls == ls'
  | .final t, .final t' => AType.beq t t'
  | .tuple ts, .tuple ts' => AType.beqL ts ts'
  | .typeVar n, .typeVar n' => n == n'
  | .typeVarB n u, .typeVarB n' u' => n == n' && AType.beq u u'
  | _, _ => false
def AType.beqL : List AType → List AType → Bool
  | [], [] => true
  | a :: as, b :: bs => AType.beq a b && AType.beqL as bs
  | _, _ => false
end

/-! ### `to_dict` -/

def Lit.toPy : Lit → PyVal
  | .str s => .str s | .int i => .int i | .bool b => .bool b | .none => .none

def Bnd.toPy : Bnd → PyVal
  | .int i => .int i | .str s => .str s

mutual
def AType.toDict : AType → PyVal
  | .unknown => .dict [("kind", .str "UnknownType")]
  | .named n q => .dict [("kind", .str "NamedType"), ("name", .str n), ("qname", .str q)]
  | .namedSeq n q ts =>
      .dict [("kind", .str "NamedSequenceType"), ("name", .str n), ("qname", .str q),
             ("types", .list (AType.toDictL ts))]
  | .enum vs => .dict [("kind", .str "EnumType"), ("values", .list (vs.map PyVal.str))]
  | .boundary b mn mx mi xi =>
      .dict [("kind", .str "BoundaryType"), ("base_type", .str b), ("min", mn.toPy), ("max", mx.toPy),
             ("min_inclusive", .bool mi), ("max_inclusive", .bool xi)]
  | .union ts => .dict [("kind", .str "UnionType"), ("types", .list (AType.toDictL ts))]
  | .list ts => .dict [("kind", .str "ListType"), ("types", .list (AType.toDictL ts))]
  | .dict k v => .dict [("kind", .str "DictType"), ("key_type", k.toDict), ("value_type", v.toDict)]
  | .callable ps r =>
      .dict [("kind", .str "CallableType"), ("parameter_types", .list (AType.toDictL ps)),
             ("return_type", r.toDict)]
  | .set ts => .dict [("kind", .str "SetType"), ("types", .list (AType.toDictL ts))]
  | .literal ls => .dict [("kind", .str "LiteralType"), ("literals", .list (ls.map Lit.toPy))]
  | .final t => .dict [("kind", .str "FinalType"), ("type", t.toDict)]
  | .tuple ts => .dict [("kind", .str "TupleType"), ("types", .list (AType.toDictL ts))]
  | .typeVar n => .dict [("kind", .str "TypeVarType"), ("name", .str n), ("upper_bound", .none)]
  | .typeVarB n u => .dict [("kind", .str "TypeVarType"), ("name", .str n), ("upper_bound", u.toDict)]
def AType.toDictL : List AType → List PyVal
  | [] => []
  | t :: ts => t.toDict :: AType.toDictL ts
end

/-! ### `from_dict`

Python reads the fields it needs by key and recurses into them.  To keep the recursion
structural, every value is first interpreted bottom-up (`parse`): a dict becomes the result of
`AbstractType.from_dict` on it, a list the list of its interpretations, a scalar stays raw.
`build` is the `match d["kind"]` dispatch plus the per-class `from_dict`; it only looks at the
fields the Python code reads, in the order the Python code reads them, so an error in an
unread field is never reported. -/

inductive Parsed where
  | ty (r : Except PyErr AType)
  | list (rs : List Parsed)
  | raw (v : PyVal)

namespace FromDict

def getStr (f : List (String × Parsed)) (k : String) : Except PyErr String :=
  match assocGet? f k with
  | none => .error .keyError
  | some (.raw (.str s)) => .ok s
  | some _ => .error .unsupported      -- Python stores any object here; outside the model

def getBool (f : List (String × Parsed)) (k : String) : Except PyErr Bool :=
  match assocGet? f k with
  | none => .error .keyError
  | some (.raw (.bool b)) => .ok b
  | some _ => .error .unsupported

def getBnd (f : List (String × Parsed)) (k : String) : Except PyErr Bnd :=
  match assocGet? f k with
  | none => .error .keyError
  | some (.raw (.int i)) => .ok (.int i)
  | some (.raw (.str s)) => .ok (.str s)
  | some _ => .error .unsupported

/-- `AbstractType.from_dict(x)` for an already interpreted `x`. -/
def asType : Parsed → Except PyErr AType
  | .ty r => r
  | .list _ => .error .typeError        -- list indices must be integers
  | .raw _ => .error .typeError         -- 'str'/'int'/None is not subscriptable by "kind"

def collect : List Parsed → Except PyErr (List AType)
  | [] => .ok []
  | p :: ps =>
    match asType p with
    | .error e => .error e
    | .ok t => match collect ps with
      | .error e => .error e
      | .ok ts => .ok (t :: ts)

/-- `for element in d[k]: AbstractType.from_dict(element)` -/
def getTypes (f : List (String × Parsed)) (k : String) : Except PyErr (List AType) :=
  match assocGet? f k with
  | none => .error .keyError
  | some (.list rs) => collect rs
  | some (.raw (.str s)) => if s.isEmpty then .ok [] else .error .typeError
  | some (.raw _) => .error .typeError   -- not iterable
  | some (.ty _) => .error .unsupported  -- iterating a dict: depends on its keys

def getType (f : List (String × Parsed)) (k : String) : Except PyErr AType :=
  match assocGet? f k with
  | none => .error .keyError
  | some p => asType p

def asLit : Parsed → Except PyErr Lit
  | .raw (.str s) => .ok (.str s)
  | .raw (.int i) => .ok (.int i)
  | .raw (.bool b) => .ok (.bool b)
  | .raw .none => .ok .none
  | _ => .error .unsupported

def collectLits : List Parsed → Except PyErr (List Lit)
  | [] => .ok []
  | p :: ps =>
    match asLit p with
    | .error e => .error e
    | .ok t => match collectLits ps with
      | .error e => .error e
      | .ok ts => .ok (t :: ts)

def asStrLit : Parsed → Except PyErr String
  | .raw (.str s) => .ok s
  | _ => .error .unsupported

def collectStrs : List Parsed → Except PyErr (List String)
  | [] => .ok []
  | p :: ps =>
    match asStrLit p with
    | .error e => .error e
    | .ok t => match collectStrs ps with
      | .error e => .error e
      | .ok ts => .ok (t :: ts)

/-- The kind strings `AbstractType.from_dict` dispatches on, in source order (tied to the source by T1). -/
def kinds : List String :=
  ["UnknownType", "NamedType", "NamedSequenceType", "EnumType", "BoundaryType", "ListType", "DictType",
   "SetType", "LiteralType", "FinalType", "TupleType", "UnionType", "CallableType", "TypeVarType"]

def build (f : List (String × Parsed)) : Except PyErr AType :=
  match assocGet? f "kind" with
  | none => .error .keyError
  | some (.raw (.str kind)) =>
    if kind = "UnknownType" then .ok .unknown
    else if kind = "NamedType" then
      match getStr f "name" with
      | .error e => .error e
      | .ok n => match getStr f "qname" with
        | .error e => .error e
        | .ok q => .ok (.named n q)
    else if kind = "NamedSequenceType" then
      match getTypes f "types" with
      | .error e => .error e
      | .ok ts => match getStr f "name" with
        | .error e => .error e
        | .ok n => match getStr f "qname" with
          | .error e => .error e
          | .ok q => .ok (.namedSeq n q ts)
    else if kind = "EnumType" then
      match assocGet? f "values" with
      | none => .error .keyError
      | some (.list rs) => match collectStrs rs with
        | .error e => .error e
        | .ok vs => .ok (.enum vs)
      | some _ => .error .unsupported
    else if kind = "BoundaryType" then
      match getStr f "base_type" with
      | .error e => .error e
      | .ok b => match getBnd f "min" with
        | .error e => .error e
        | .ok mn => match getBnd f "max" with
          | .error e => .error e
          | .ok mx => match getBool f "min_inclusive" with
            | .error e => .error e
            | .ok mi => match getBool f "max_inclusive" with
              | .error e => .error e
              | .ok xi => .ok (.boundary b mn mx mi xi)
    else if kind = "ListType" then
      match getTypes f "types" with
      | .error e => .error e
      | .ok ts => .ok (.list ts)
    else if kind = "DictType" then
      match getType f "key_type" with
      | .error e => .error e
      | .ok k => match getType f "value_type" with
        | .error e => .error e
        | .ok v => .ok (.dict k v)
    else if kind = "SetType" then
      match getTypes f "types" with
      | .error e => .error e
      | .ok ts => .ok (.set ts)
    else if kind = "LiteralType" then
      match assocGet? f "literals" with
      | none => .error .keyError
      | some (.list rs) => match collectLits rs with
        | .error e => .error e
        | .ok ls => .ok (.literal ls)
      | some _ => .error .unsupported
    else if kind = "FinalType" then
      match getType f "type" with
      | .error e => .error e
      | .ok t => .ok (.final t)
    else if kind = "TupleType" then
      match getTypes f "types" with
      | .error e => .error e
      | .ok ts => .ok (.tuple ts)
    else if kind = "UnionType" then
      match getTypes f "types" with
      | .error e => .error e
      | .ok ts => .ok (.union ts)
    else if kind = "CallableType" then
      match getTypes f "parameter_types" with
      | .error e => .error e
      | .ok ps => match getType f "return_type" with
        | .error e => .error e
        | .ok r => .ok (.callable ps r)
    else if kind = "TypeVarType" then
      -- `upper_bound = d["upper_bound"]` is read before `d["name"]`
      match assocGet? f "upper_bound" with
      | none => .error .keyError
      | some (.raw .none) => match getStr f "name" with
        | .error e => .error e
        | .ok n => .ok (.typeVar n)
      | some p => match asType p with
        | .error e => .error e
        | .ok u => match getStr f "name" with
          | .error e => .error e
          | .ok n => .ok (.typeVarB n u)
    else .error .valueError
  | some _ => .error .valueError

end FromDict

mutual
def parse : PyVal → Parsed
  | .dict items => .ty (FromDict.build (parseItems items))
  | .list xs => .list (parseList xs)
  | .str s => .raw (.str s)
  | .int i => .raw (.int i)
  | .bool b => .raw (.bool b)
  | .none => .raw .none
def parseList : List PyVal → List Parsed
  | [] => []
  | x :: xs => parse x :: parseList xs
def parseItems : List (String × PyVal) → List (String × Parsed)
  | [] => []
  | (k, v) :: xs => (k, parse v) :: parseItems xs
end

/-- `AbstractType.from_dict(d)` -/
def AType.fromDict (d : PyVal) : Except PyErr AType := FromDict.asType (parse d)

/-! ### `==`

`permMatch ps ys`: every predicate in `ps` (one per element of the left list: `fun y => x == y`)
consumes the first not yet consumed element of `ys` it accepts, and nothing is left over.
For an equivalence relation this is multiset equality, i.e. `Counter(xs) == Counter(ys)`. -/

def removeFirst {α : Type} (p : α → Bool) : List α → Option (List α)
  | [] => none
  | y :: ys => if p y then some ys else (removeFirst p ys).map (y :: ·)

def permMatch {α : Type} : List (α → Bool) → List α → Bool
  | [], ys => ys.isEmpty
  | p :: ps, ys =>
    match removeFirst p ys with
    | none => false
    | some rest => permMatch ps rest

def strSetEq (a b : List String) : Bool := a.all (b.contains ·) && b.all (a.contains ·)

mutual
def AType.pyEq : AType → AType → Bool
  | .unknown, .unknown => true
  | .named n q, .named n' q' => n == n' && q == q'
  | .namedSeq n q ts, .namedSeq n' q' ts' => permMatch (AType.eqFns ts) ts' && n == n' && q == q'
  | .enum vs, .enum vs' => strSetEq vs vs'
  | .boundary b mn mx mi xi, .boundary b' mn' mx' mi' xi' =>
      if b == b' && mn == mn' && mi == mi' && mx == mx' then
        (if mx == .str "Infinity" then true else xi == xi')
      else false
  | .union ts, .union ts' => permMatch (AType.eqFns ts) ts'
  | .list ts, .list ts' => permMatch (AType.eqFns ts) ts'
  | .dict k v, .dict k' v' => AType.pyEq k k' && AType.pyEq v v'
  | .callable ps r, .callable ps' r' => permMatch (AType.eqFns ps) ps' && AType.pyEq r r'
  | .set ts, .set ts' => permMatch (AType.eqFns ts) ts'
  | .literal ls, .literal ls' => permMatch (ls.map Lit.pyEq) ls'
  | .final t, .final t' => AType.pyEq t t'
  | .tuple ts, .tuple ts' => permMatch (AType.eqFns ts) ts'
  | .typeVar n, .typeVar n' => n == n'
  | .typeVarB n u, .typeVarB n' u' => n == n' && AType.pyEq u u'
  | _, _ => false
def AType.eqFns : List AType → List (AType → Bool)
  | [] => []
  | t :: ts => AType.pyEq t :: AType.eqFns ts
end

/-! ### `hash` — as a canonical key; `hash(x)` is assumed to be a function of `hashKey x` -/

def quoteStr (s : String) : String := "\"" ++ (s.replace "\\" "\\\\").replace "\"" "\\\"" ++ "\""

def Lit.hashKey : Lit → String
  | .str s => "s" ++ quoteStr s
  | .int i => "i" ++ toString i
  | .bool true => "i1"
  | .bool false => "i0"
  | .none => "n"

def Bnd.hashKey : Bnd → String
  | .int i => "i" ++ toString i
  | .str s => "s" ++ quoteStr s

def fsetKey (keys : List String) : String := "F{" ++ joinWith "," (sortDedup keys) ++ "}"
def tupKey (keys : List String) : String := "T(" ++ joinWith "," keys ++ ")"

mutual
def AType.hashKey : AType → String
  | .unknown => tupKey []
  | .named n q => tupKey ["s" ++ quoteStr n, "s" ++ quoteStr q]
  | .namedSeq n q ts => fsetKey (("s" ++ quoteStr n) :: ("s" ++ quoteStr q) :: AType.hashKeyL ts)
  | .enum vs => tupKey [fsetKey (vs.map fun v => "s" ++ quoteStr v)]
  | .boundary b mn mx mi xi =>
      tupKey ["s" ++ quoteStr b, mn.hashKey, mx.hashKey, (Lit.bool mi).hashKey,
              if mx == .str "Infinity" then Lit.none.hashKey else (Lit.bool xi).hashKey]
  | .union ts => fsetKey (AType.hashKeyL ts)
  | .list ts => fsetKey (AType.hashKeyL ts)
  | .dict k v => fsetKey [k.hashKey, v.hashKey]
  | .callable ps r => fsetKey (r.hashKey :: AType.hashKeyL ps)
  | .set ts => fsetKey (AType.hashKeyL ts)
  | .literal ls => fsetKey (ls.map Lit.hashKey)
  | .final t => fsetKey [t.hashKey]
  | .tuple ts => fsetKey (AType.hashKeyL ts)
  | .typeVar n => fsetKey ["s" ++ quoteStr n, Lit.none.hashKey]
  | .typeVarB n u => fsetKey ["s" ++ quoteStr n, u.hashKey]
def AType.hashKeyL : List AType → List String
  | [] => []
  | t :: ts => t.hashKey :: AType.hashKeyL ts
end

end StubGen
