/-
L1 — name helpers of `stubs_generator/_helper.py:17-42,98-139` and `_helpers.py`.

`convertChars` follows `_convert_name_to_convention` statement by statement over `List Char`
(so that proofs are list inductions and everything reduces under `decide`).
`str.upper()` on the first character of a part is modelled by `Char.toUpper` (ASCII only);
identifiers are assumed ASCII (Appendix B).
-/
import StubGen.Py.Basic
import StubGen.Generated.Tables

namespace StubGen

/-- number of leading underscores: `len(name) - len(name.lstrip("_"))` -/
def leadingUnderscores : List Char → Nat
  | [] => 0
  | c :: cs => if c = '_' then leadingUnderscores cs + 1 else 0

def capitalize : List Char → List Char
  | [] => []
  | c :: cs => c.toUpper :: cs

/-- `"".join(part[0].upper() + part[1:] for part in parts if part)` -/
def capJoin : List (List Char) → List Char
  | [] => []
  | p :: ps => (if p.isEmpty then [] else capitalize p) ++ capJoin ps

/-- body of `_convert_name_to_convention` for the SAFE_DS convention -/
def convertChars (name : List Char) (isClass : Bool) : List Char :=
  if name = ['_'] then name else
  let start := leadingUnderscores name
  let end_ := leadingUnderscores name.reverse
  -- name[start:] if end == 0 else name[start:-end]
  let cleaned := (name.take (name.length - end_)).drop start
  let parts := splitOnChar '_' cleaned
  if isClass then capJoin parts
  else match parts with
    | [] => []                    -- unreachable: split never returns []
    | p :: ps => p ++ capJoin ps

/-- `_convert_name_to_convention(name, naming_convention, is_class_name)`;
    `safeDs = (naming_convention == NamingConvention.SAFE_DS)` -/
def convertName (name : String) (safeDs : Bool) (isClass : Bool := false) : String :=
  if name = "_" || !safeDs then name else String.ofList (convertChars name.toList isClass)

/-- `_convert_name_to_convention` on a dotted path (repair: every segment is converted on its own) -/
def convertPath (path : String) (safeDs : Bool) : String :=
  joinWith "." ((pySplit path '.').map fun seg => convertName seg safeDs)

/-- the whole of `_convert_name_to_convention` as it is called with any string: `if "." in name` the segments are
    converted one by one (with the same `is_class_name`), otherwise the name itself -/
def convertAny (name : String) (safeDs : Bool) (isClass : Bool := false) : String :=
  if name.toList.contains '.' then joinWith "." ((pySplit name '.').map fun seg => convertName seg safeDs isClass)
  else convertName name safeDs isClass

/-- `_replace_if_safeds_keyword` -/
def escapeKeyword (k : String) : String :=
  if Generated.keywords.contains k then Generated.keywordWrap.1 ++ k ++ Generated.keywordWrap.2 else k

/-- `_replace_if_safeds_keyword_in_path`: every segment of a dotted path -/
def escapePath (path : String) : String := joinWith "." ((pySplit path '.').map escapeKeyword)

/-- `_create_name_annotation` -/
def nameAnnotation (name : String) : String :=
  Generated.nameAnnotation.1 ++ name ++ Generated.nameAnnotation.2

/-- `is_internal` -/
def isInternal (name : String) : Bool := pyStartsWith name Generated.internalPrefix

end StubGen
