/-
L7 (part) — file discovery of `get_api` (`_get_api.py:37-57`) and AST selection of
`_get_mypy_asts` (`_get_api.py:122-143`).

A path is the list of its components (`Path.parts` of the *resolved absolute* path the CLI passes);
`files` is what `root.glob("./**/*.py")` enumerates, in enumeration order (an input: C08).
-/
import StubGen.Py.Str
import StubGen.Generated.Tables

namespace StubGen

abbrev PathParts := List String

/-- `"test" in file_path.parts or "tests" in file_path.parts or "docs" in file_path.parts` -/
def inExcludedDir (parts : PathParts) : Bool := Generated.excludedDirs.any (parts.contains ·)

def isInitFile (parts : PathParts) : Bool := parts.getLast? == some "__init__.py"

structure Discovered where
  walkable : List PathParts      -- files handed to mypy, in enumeration order
  packages : List PathParts      -- directories that contain an `__init__.py`
  deriving Repr, DecidableEq

def discoverLoop (isTestRun : Bool) : List PathParts → Discovered
  | [] => { walkable := [], packages := [] }
  | f :: fs =>
    let rest := discoverLoop isTestRun fs
    if !isTestRun && inExcludedDir f then rest
    else if isInitFile f then { rest with packages := f.dropLast :: rest.packages }
    else { rest with walkable := f :: rest.walkable }

/-- lines 37-57: the kept files, or the documented `ValueError("No files found to analyse.")` -/
def discover (files : List PathParts) (isTestRun : Bool) : Except PyErr Discovered :=
  let d := discoverLoop isTestRun files
  if d.walkable.isEmpty then .error .valueError else .ok d

def pathStr (p : PathParts) : String :=
  match p with
  | "/" :: rest => "/" ++ joinWith "/" rest
  | _ => joinWith "/" p

/-- `_get_mypy_asts`: of the modules in mypy's build graph (paths, in graph order) keep the package
    `__init__` files whose directory was discovered and the discovered module files; packages first. -/
def selectAsts (graphPaths : List String) (d : Discovered) : List String :=
  let files := d.walkable.map pathStr
  let pkgs := d.packages.map pathStr
  let isInit := fun (p : String) => pyEndsWith p "__init__.py"
  -- `ast.path.split("__init__.py")[0][:-1]`
  let pkgDir := fun (p : String) =>
    let head := (pySplitStr p "__init__.py").headD ""
    String.ofList head.toList.dropLast
  (graphPaths.filter fun p => isInit p && pkgs.contains (pkgDir p))
  ++ (graphPaths.filter fun p => !isInit p && files.contains p)

end StubGen

namespace StubGen

/-- `_get_nearest_init_dirs`: the directories of the `__init__.py` files with the fewest path
    components (`inits` in glob order) -/
def nearestInitDirs (files : List PathParts) : List PathParts :=
  let inits := files.filter isInitFile
  match inits.map List.length with
  | [] => []
  | l :: ls =>
    let m := ls.foldl min l
    (inits.filter (·.length == m)).map List.dropLast

/-- `get_api` lines 31-33: a unique topmost package directory replaces the given root -/
def adjustRoot (root : PathParts) (files : List PathParts) : PathParts :=
  match nearestInitDirs files with
  | [d] => d
  | _ => root

def isPrefixParts : PathParts → PathParts → Bool
  | [], _ => true
  | _ :: _, [] => false
  | a :: as, b :: bs => a == b && isPrefixParts as bs

/-- what `root.glob("./**/*.py")` enumerates of `files` (all `.py` files below the original root) -/
def filesUnder (root : PathParts) (files : List PathParts) : List PathParts := files.filter (isPrefixParts root)

/-- lines 31-57 together; also returns the package name `root.stem` -/
def discoverFrom (root : PathParts) (files : List PathParts) (isTestRun : Bool) :
    Except PyErr (PathParts × Discovered) :=
  let root' := adjustRoot root files
  match discover (filesUnder root' files) isTestRun with
  | .error e => .error e
  | .ok d => .ok (root', d)

/-- `PurePath.__lt__`/`<=`: the parts compared lexicographically, each part as a string -/
def partsLe : PathParts → PathParts → Bool
  | [], _ => true
  | _ :: _, [] => false
  | a :: as, b :: bs => if a < b then true else if a = b then partsLe as bs else false

/-- `sorted(root.glob("./**/*.py"))` (repair 67957ce: the files are handed to mypy in sorted order) -/
def sortPaths (files : List PathParts) : List PathParts := sortBy partsLe files

/-- lines 31-57 as the code runs them now: the enumeration is sorted before the filter loop -/
def discoverSorted (root : PathParts) (files : List PathParts) (isTestRun : Bool) :
    Except PyErr (PathParts × Discovered) :=
  discoverFrom root (sortPaths files) isTestRun

end StubGen
