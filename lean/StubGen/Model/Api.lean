/-
L2 — the API model of `api_analyzer/_api.py` and `docstring_parsing/_docstring.py`,
as the stub generator reads it.
-/
import StubGen.Model.Types

namespace StubGen

/-- `ClassDocstring` / `FunctionDocstring` -/
structure Docstring where
  description : String := ""
  fullDocstring : String := ""
  examples : List String := []
  deriving Repr

structure ParamDoc where
  type : Option AType := none
  defaultValue : String := ""
  description : String := ""

structure AttrDoc where
  type : Option AType := none
  description : String := ""

structure ResultDoc where
  type : Option AType := none
  description : String := ""
  name : String := ""

/-- `Parameter.default_value : str | bool | int | float | None | UnknownValue`;
    floats are opaque tokens carrying their `str()` -/
inductive DefaultVal where
  | none | str (s : String) | bool (b : Bool) | int (i : Int) | float (repr : String) | unknown
  deriving DecidableEq, Repr

inductive Assign where
  | implicit | positionOnly | positionOrName | positionalVararg | nameOnly | namedVararg
  deriving DecidableEq, Repr

def Assign.name : Assign → String
  | .implicit => "IMPLICIT" | .positionOnly => "POSITION_ONLY" | .positionOrName => "POSITION_OR_NAME"
  | .positionalVararg => "POSITIONAL_VARARG" | .nameOnly => "NAME_ONLY" | .namedVararg => "NAMED_VARARG"

structure Parameter where
  id : String
  name : String
  isOptional : Bool
  default : DefaultVal
  assignedBy : Assign
  doc : ParamDoc := {}
  type : Option AType

structure Result where
  id : String
  name : String
  type : Option AType

structure Attribute where
  id : String
  name : String
  isPublic : Bool
  isStatic : Bool
  type : Option AType
  doc : AttrDoc := {}

structure QImport where
  qualifiedName : String
  alias : Option String
  deriving DecidableEq, Repr

/-- a `Module` as seen through `reexported_by` / `reexport_map` (only its id and imports are read) -/
structure ModRef where
  id : String
  qualifiedImports : List QImport := []
  wildcardImports : List String := []
  deriving DecidableEq, Repr

structure TypeVar where
  name : String
  upperBound : Option AType

structure Function where
  id : String
  name : String
  doc : Docstring := {}
  isPublic : Bool
  isStatic : Bool := false
  isClassMethod : Bool := false
  isProperty : Bool := false
  resultDocs : List ResultDoc := []
  typeVars : List TypeVar := []
  results : List Result := []
  reexportedBy : List ModRef := []
  params : List Parameter := []

inductive Variance where
  | invariant | covariant | contravariant
  deriving DecidableEq, Repr

def Variance.name : Variance → String
  | .invariant => "INVARIANT" | .covariant => "COVARIANT" | .contravariant => "CONTRAVARIANT"

structure TypeParam where
  name : String
  type : Option AType
  variance : Variance

structure Class where
  id : String
  name : String
  superclasses : List String := []
  isPublic : Bool
  doc : Docstring := {}
  ctor : Option Function := none
  inheritsFromException : Bool := false
  reexportedBy : List ModRef := []
  attributes : List Attribute := []
  methods : List Function := []
  classes : List Class := []
  typeParams : List TypeParam := []

/-- `"abc.ABC" in self.superclasses` -/
def Class.isAbstract (c : Class) : Bool := c.superclasses.contains "abc.ABC"

/-- the superclasses `_create_class_string` looks at: `object`, the implicit base of every class, is neither named after
    `sub` nor counted (repair: `class A(object)` gave `class A() sub object`, a name no stub declares) -/
def Class.renderedSupers (c : Class) : List String := c.superclasses.filter (· != "builtins.object")

structure EnumInstance where
  id : String
  name : String

structure Enum where
  id : String
  name : String
  doc : Docstring := {}
  instances : List EnumInstance := []

structure Module where
  id : String
  name : String
  docstring : String := ""
  qualifiedImports : List QImport := []
  wildcardImports : List String := []
  classes : List Class := []
  functions : List Function := []
  enums : List Enum := []

def Module.ref (m : Module) : ModRef :=
  { id := m.id, qualifiedImports := m.qualifiedImports, wildcardImports := m.wildcardImports }

/-- The `API` container.  `modules` and `classes` are the dicts in insertion order (`classes` is the
    flat table `id ↦ Class`, nested classes included); `reexportMap` is `dict[str, set[Module]]` with
    each set in the iteration order supplied by the caller (`Orders.setIter`, Appendix B). -/
structure API where
  package : String := ""
  modules : List Module := []
  classes : List Class := []
  reexportMap : List (String × List ModRef) := []

end StubGen
