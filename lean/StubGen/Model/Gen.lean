/-
L3 — the stub generator, `stubs_generator/_stub_string_generator.py` and `_helper.py:45-95`.

A function-by-function transliteration.  The generator object's mutable fields become the state
`St`, threaded through the monad `G`; every Python exception the tool's own code can raise is an
`Except PyErr` error.  Sets (`_current_todo_msgs`, `module_imports`, `classes_outside_package`)
are duplicate-free lists; every one of them is sorted before it is printed, so their internal
order is irrelevant (C08).  Recursion over the class hierarchy (inner classes, inlined private
superclasses found *by name*) is by fuel.

Not modelled: the in-place rename `node.name = alias` of `_has_node_shorter_reexport` acts on the
API object (C16 scope); here the queued node is a renamed copy.
-/
import StubGen.Py.Str
import StubGen.Model.Naming
import StubGen.Model.Api

namespace StubGen

inductive Node where
  | cls (c : Class)
  | fn (f : Function)

def Node.name : Node → String
  | .cls c => c.name
  | .fn f => f.name

def Node.id : Node → String
  | .cls c => c.id
  | .fn f => f.id

/-- order of the re-exported elements: `elements.sort(key=lambda x: (x.name, x.id))` -/
def nodeLe (a b : Node) : Bool :=
  if a.name == b.name then strLe a.id b.id else strLe a.name b.name

def Node.rename (n : Node) (name : String) : Node :=
  match n with
  | .cls c => .cls { c with name := name }
  | .fn f => .fn { f with name := name }

/-- ghost record of what the generator emits, in emission order: `(kind, API id)` with kind one of
    `module`, `restub`, `class`, `endclass`, `fun`, `prop`, `attr`, `enum`, `moved`.  It does not
    influence any text; theorems about "which declarations appear where, how often" are stated on it,
    and the harness checks it against the declarations parsed out of the implementation's files. -/
abbrev LogEntry := String × String

structure St where
  log : List LogEntry := []
  todos : List String := []
  imports : List String := []
  outside : List String := []
  reexports : List (String × List Node) := []
  classGenerics : List String := []
  moduleId : String := ""
  reexportModuleId : String := ""
  creatingReexport : Bool := false

structure Env where
  api : API
  safe : Bool

abbrev G := StateT St (Except PyErr)

def throwG {α : Type} (e : PyErr) : G α := fun _ => .error e

def addTodo (k : String) : G Unit := modify fun s => { s with todos := insertSet k s.todos }

def logEmit (kind id : String) : G Unit := modify fun s => { s with log := s.log ++ [(kind, id)] }

def indentation : String := Generated.indentation

def getModuleId (s : St) (actual : Bool := false) : String :=
  if actual || !s.creatingReexport then s.moduleId else s.reexportModuleId

def setModuleId (id : String) : G Unit :=
  modify fun s => if s.creatingReexport then { s with reexportModuleId := id } else { s with moduleId := id }

/-! ### `_get_shortest_public_reexport` (`_helper.py:45-95`) -/

def moduleNameCheck (isModule : Bool) (name parentName : String) (text : String) (isWildcard : Bool := false) : Bool :=
  if isModule then pyEndsWith text ("." ++ name) || text == name
  else if isWildcard then pyEndsWith text ("." ++ parentName) || text == parentName
  else
    text == name
    || (pyIn ("." ++ name) text && (pyEndsWith text ("." ++ name) || pyIn (name ++ ".") text))
    || (pyIn (name ++ ".") text && (pyStartsWith text (name ++ ".") || pyIn ("." ++ name) text))
    || (parentName != "" && pyEndsWith text (parentName ++ ".*"))

def firstSome {α β : Type} (f : α → Option β) : List α → Option β
  | [] => none
  | a :: as => match f a with
    | some b => some b
    | none => firstSome f as

/-- the `(module.id, alias)` tuples one reexporting module contributes -/
def reexportTuples (check : String → Bool → Bool) (m : ModRef) : List (String × Option String) :=
  (match firstSome (fun (q : QImport) => if check q.qualifiedName false then some (m.id, q.alias) else none)
      m.qualifiedImports with
   | some t => [t] | none => [])
  ++ (match firstSome (fun (w : String) => if check w true then some (m.id, (none : Option String)) else none)
      m.wildcardImports with
   | some t => [t] | none => [])

def tupleLe (a b : String × Option String) : Bool :=
  if a.1 == b.1 then strLe (a.2.getD "") (b.2.getD "") else strLe a.1 b.1

def pickShortest : Option (List String × Option String) → List (String × Option String) →
    Option (List String × Option String)
  | acc, [] => acc
  | acc, t :: ts =>
    let parts := splitSlash t.1
    match acc with
    | none => pickShortest (some (parts, t.2)) ts
    | some (sp, al) =>
      if parts.length < sp.length then pickShortest (some (parts, t.2)) ts else pickShortest (some (sp, al)) ts

def shortestPublicReexport (reexportMap : List (String × List ModRef)) (name qname : String) (isModule : Bool) :
    String × String :=
  let parentName :=
    if !isModule && qname != "" then
      let parts := splitDot qname
      if parts.length > 2 then (secondLast? parts).getD "" else ""
    else ""
  let check := fun (text : String) (wild : Bool) => moduleNameCheck isModule name parentName text wild
  let keys := reexportMap.filter (fun kv => check kv.1 false)
  let tuples := keys.flatMap (fun kv => kv.2.flatMap (reexportTuples check))
  -- `module_ids` is a set, iterated in sorted order
  let sorted := sortBy tupleLe (tuples.foldl (fun acc t => if acc.contains t then acc else acc ++ [t]) [])
  match pickShortest none sorted with
  | none => ("", "")
  | some (parts, alias) => (joinWith "." parts, alias.getD "")

/-! ### utilities (`_stub_string_generator.py:988-1127`) -/

def lookupReexport (m : List (String × List ModRef)) (k : String) : List ModRef :=
  match m.find? (fun kv => kv.1 == k) with
  | some kv => kv.2
  | none => []

def appendReexport (rs : List (String × List Node)) (k : String) (n : Node) : List (String × List Node) :=
  if rs.any (fun kv => kv.1 == k) then rs.map (fun kv => if kv.1 == k then (kv.1, kv.2 ++ [n]) else kv)
  else rs ++ [(k, [n])]

/-- `_has_node_shorter_reexport` -/
def hasNodeShorterReexport (nodeName : String) (reexportedBy : List ModRef) (node : Node) : G Bool := do
  let s ← get
  let cur := getModuleId s
  let (shortId, shortMod) := reexportedBy.foldl
    (fun (acc : String × Option ModRef) m =>
      if (splitSlash m.id).length < (splitSlash acc.1).length then (m.id, some m) else acc)
    (cur, none)
  match shortMod with
  | some m =>
    if shortId != cur then
      -- the last matching qualified import determines the alias
      let alias := m.qualifiedImports.foldl
        (fun (a : Option String) q => if pyEndsWith q.qualifiedName nodeName then q.alias else a) none
      let node' := match alias with
        | some a => if a != "" then node.rename a else node
        | none => node
      set { s with reexports := appendReexport s.reexports shortId node' }
      return true
    else return false
  | none => return false

/-- `_is_path_connected_to_class` -/
def isPathConnectedToClass (reexportMap : List (String × List ModRef)) (path classPath : String) : Bool :=
  if pyEndsWith classPath path then true
  else
    let name := lastD "" (splitSlash path)
    let className := lastD "" (splitSlash classPath)
    reexportMap.any fun kv =>
      pyEndsWith kv.1 name && kv.2.any fun m =>
        pyStartsWith path m.id && pyStartsWith classPath m.id
          && pyLstrip (pyLstrip path m.id) "/" == name && name == className

/-- `_add_to_imports` -/
def addToImports (env : Env) (importQname : String) : G Unit := do
  if importQname == "" then throwG .valueError
  let parts := splitDot importQname
  if (parts.head? == some "builtins" && parts.length == 2) || importQname == "typing.Any" then return
  -- names without a module path cannot be imported
  if parts.length == 1 then return
  let s ← get
  let moduleId := replaceChar (getModuleId s true) '/' "."
  if !pyIn moduleId importQname then
    let path := replaceChar importQname '.' "/"
    let found := env.api.classes.find? fun c => isPathConnectedToClass env.api.reexportMap path c.id
    let (qname, inPackage) :=
      match found with
      | some c =>
        let q := replaceChar c.id '/' "."
        let name := lastD "" (splitDot q)
        let (shortest, _) := shortestPublicReexport env.api.reexportMap name q false
        (if shortest != "" then shortest ++ "." ++ name else q, true)
      | none => ("", false)
    let qname := if qname != "" then qname else importQname
    let s := if !inPackage then { s with outside := insertSet qname s.outside } else s
    let s := if replaceChar qname '.' "/" != getModuleId s then { s with imports := insertSet qname s.imports } else s
    set s

/-- `_create_todo_msg` -/
def createTodoMsg (indent : String) : G String := do
  let s ← get
  if s.todos.isEmpty then return ""
  let msgs ← s.todos.mapM fun k =>
    match assocGet? Generated.todoMessages k with
    | some m => pure (Generated.todoPrefix ++ m)
    | none => throwG .keyError
  set { s with todos := [] }
  return indent ++ joinWith ("\n" ++ indent) (sortStrings msgs) ++ "\n"

/-- `_get_class_in_package` -/
def getClassInPackage (env : Env) (classQname : String) : Except PyErr Class :=
  let q := replaceChar classQname '.' "/"
  let parts := splitSlash q
  let classPath := joinWith "/" (dropLast' parts)
  let className := lastD "" parts
  match env.api.classes.find? (fun c => c.id == q) with
  | some c => .ok c
  | none =>
    match env.api.classes.find? (fun c => pyEndsWith c.id q
        || (pyStartsWith c.id (classPath ++ "/") && pyEndsWith c.id ("/" ++ className))) with
    | some c => .ok c
    | none => .error .lookupError

/-! ### types (`_create_type_string`, 684-853) -/

def Lit.render : Lit → String
  | .str s => escapeStringLiteral s
  | .bool true => "true"
  | .bool false => "false"
  | .none => "null"
  | .int i => toString i

def isNoneNamed : AType → Bool
  | .named _ q => q == "builtins.None"
  | _ => false

/-- members that make a two-element union with `Nothing?` eligible for the `T?` shorthand -/
def countsAsNamed : AType → Bool
  | .named _ q => q != "builtins.None"
  | .tuple _ => true
  | .list _ => true
  | .set _ => true
  | .dict _ _ => true
  | _ => false

/-- `kind == "NamedType" and name == "None"` (the callable return test looks at the name) -/
def namedNone : AType → Bool
  | .named n _ => n == "None"
  | _ => false

def isLiteral : AType → Bool
  | .literal _ => true
  | _ => false

def literalsOf : AType → List Lit
  | .literal ls => ls
  | _ => []

/-- literal members are unique; `True` and `1` are different literals (structural equality of `Lit`) -/
def dedupLits (l : List Lit) : List Lit := l.foldl (fun acc a => if acc.contains a then acc else acc ++ [a]) []

def noneTypeName : String := Generated.noneTypeName

def builtinName (n : String) : Option String := assocGet? Generated.builtinTypeNames n

def dedupStrings (l : List String) : List String := l.foldl (fun acc a => insertSet a acc) []

/-- string-level tail of the union rendering (800-824) -/
def finishUnion (rendered : List String) (hasNamedType : Bool) : String :=
  let types := sortStrings (dedupStrings rendered)
  match types with
  | [] => ""
  | [t] => t
  | [a, b] =>
    if (a == noneTypeName || b == noneTypeName) && hasNamedType then
      if a == noneTypeName then b ++ "?" else a ++ "?"
    else
      let types' := if types.contains noneTypeName && lastD "" types != noneTypeName
        then types.filter (· != noneTypeName) ++ [noneTypeName] else types
      "union<" ++ joinWith ", " types' ++ ">"
  | _ =>
    let types' := if types.contains noneTypeName && lastD "" types != noneTypeName
      then types.filter (· != noneTypeName) ++ [noneTypeName] else types
    "union<" ++ joinWith ", " types' ++ ">"

mutual
/-- `_create_type_string(type.to_dict())` -/
def typeStr (env : Env) : AType → G String
  | .named name qname =>
    match builtinName name with
    | some b => pure b
    | none => do
      addToImports env qname
      match name.toList with
      | [] => throwG .indexError
      | c :: _ =>
        let s ← get
        if c == '_' && !s.imports.contains qname then addTodo "internal class as type"
        pure (escapeKeyword name)
  | .final t => typeStr env t
  | .callable params ret => do
    let ps ← typeStrsNamed env "param_" 1 params
    match ret with
    | .tuple ts =>
      let rs ← typeStrsNamed env "result_" 1 ts
      pure ("(" ++ joinWith ", " ps ++ ") -> (" ++ joinWith ", " rs ++ ")")
    | other =>
      if namedNone other then pure ("(" ++ joinWith ", " ps ++ ") -> ()")
      else do
        let r ← typeStr env other
        pure ("(" ++ joinWith ", " ps ++ ") -> " ++ convertName "result_1" env.safe ++ ": " ++ r)
  | .set ts => do
    let types ← typeStrs env ts
    addTodo "no set support"
    if types.isEmpty then pure "Set<Any>"
    else do
      if types.length ≥ 2 then addTodo "Set"
      pure ("Set<" ++ joinWith ", " types ++ ">")
  | .list ts => do
    let types ← typeStrs env ts
    if types.isEmpty then pure "List<Any>"
    else do
      if types.length ≥ 2 then addTodo "List"
      pure ("List<" ++ joinWith ", " types ++ ">")
  | .namedSeq name qname ts => do
    let types ← typeStrs env ts
    addToImports env qname
    if types.isEmpty then pure (escapeKeyword name ++ "<Any>")
    else do
      if types.length ≥ 2 && (name == "Set" || name == "List") then addTodo name
      pure (escapeKeyword name ++ "<" ++ joinWith ", " types ++ ">")
  | .unknown => do
    addTodo "unknown"
    pure "unknown"
  | .union ts => do
    let literalData := ts.filter isLiteral
    let otherData := ts.filter (fun t => !isLiteral t)
    let hasNamedType := ts.any countsAsNamed
    -- 776-786: several literal members are merged into one, placed last
    if literalData.length ≥ 2 then
      let merged := dedupLits (literalData.flatMap literalsOf)
      -- 788-798: a literal and None become `literal<…, null>`
      if otherData.length == 1 && otherData.any isNoneNamed then
        pure ("literal<" ++ joinWith ", " ((merged ++ [Lit.none]).map Lit.render) ++ ">")
      else do
        let rs ← typeStrsSkipLit env ts
        pure (finishUnion (rs ++ ["literal<" ++ joinWith ", " (merged.map Lit.render) ++ ">"]) hasNamedType)
    else if ts.length == 2 && literalData.length == 1 && ts.any isNoneNamed then
      pure ("literal<" ++ joinWith ", " ((literalData.flatMap literalsOf ++ [Lit.none]).map Lit.render) ++ ">")
    else do
      let rs ← typeStrs env ts
      pure (finishUnion rs hasNamedType)
  | .tuple ts => do
    addTodo "no tuple support"
    let types ← typeStrs env ts
    pure ("Tuple<" ++ joinWith ", " types ++ ">")
  | .dict k v => do
    let ks ← typeStr env k
    let vs ← typeStr env v
    pure ("Map<" ++ ks ++ ", " ++ vs ++ ">")
  | .literal ls => pure ("literal<" ++ joinWith ", " (ls.map Lit.render) ++ ">")
  | .typeVar name => pure (escapeKeyword (convertName name env.safe))
  | .typeVarB name _ => pure (escapeKeyword (convertName name env.safe))
  | .enum _ => throwG .valueError
  | .boundary .. => throwG .valueError
def typeStrs (env : Env) : List AType → G (List String)
  | [] => pure []
  | t :: ts => do
    let a ← typeStr env t
    let as ← typeStrs env ts
    pure (a :: as)
/-- the non-literal members only (rendering a literal has no effect on the state) -/
def typeStrsSkipLit (env : Env) : List AType → G (List String)
  | [] => pure []
  | t :: ts =>
    if isLiteral t then typeStrsSkipLit env ts
    else do
      let a ← typeStr env t
      let as ← typeStrsSkipLit env ts
      pure (a :: as)
/-- `f"{convert(prefix + str(i))}: {type}"` for `i = start, start+1, …` -/
def typeStrsNamed (env : Env) (pre : String) (i : Nat) : List AType → G (List String)
  | [] => pure []
  | t :: ts => do
    let a ← typeStr env t
    let as ← typeStrsNamed env pre (i + 1) ts
    pure ((convertName (pre ++ toString i) env.safe ++ ": " ++ a) :: as)
end

/-- `_create_type_string(None)` is `""` -/
def typeStrOpt (env : Env) : Option AType → G String
  | none => pure ""
  | some t => typeStr env t

/-! ### documentation comments (894-984, 1130-1144) -/

/-- `_create_docstring_description_part` -/
def descriptionPart (description indent : String) : String :=
  let d := pyLstrip (pyRstrip description "\n") "\n"
  match splitLines d with
  | [] => "\n"
  | first :: rest =>
    first ++ String.join (rest.map fun part =>
      if part != "" then "\n" ++ indent ++ " * " ++ part else "\n" ++ indent ++ " *") ++ "\n"

/-- `_create_sds_docstring_description` -/
def sdsDocstringDescription (description indent : String) : String :=
  if description == "" then ""
  else indent ++ "/**\n" ++ indent ++ " * " ++ descriptionPart description indent ++ indent ++ " */\n"

def resultName (i : Nat) : String := "result_" ++ toString i

/-- the `@result` lines; `k` is the state of `result_name_generator()` (next number to hand out) -/
def resultDocLines (safe : Bool) (indent : String) : Nat → List ResultDoc → String
  | _, [] => ""
  | k, rd :: rest =>
    if rd.description != "" then
      let desc := joinWith ("\n" ++ indent ++ " * ") (splitLines rd.description)
      let (name, k') := if rd.name != "" then (rd.name, k) else (resultName k, k + 1)
      indent ++ " * @result " ++ convertName name safe ++ " " ++ desc ++ "\n" ++ resultDocLines safe indent k' rest
    else resultDocLines safe indent k rest

def exampleText (indent ex : String) : String :=
  indent ++ " * @example\n" ++ indent ++ " * pipeline example {\n"
  ++ String.join ((splitLines ex).map fun part =>
      if pyStartsWith part ">>>" then indent ++ " *     " ++ pyReplace part ">>>" "//" ++ "\n"
      else if pyStartsWith part "..." then indent ++ " *     " ++ pyReplace part "..." "//" ++ "\n"
      else "")
  ++ indent ++ " * }\n"

/-- `_create_sds_docstring`: `params` are the parameters of the node (function: its own, class: the
    constructor's), `resultDocs` only for functions, `examples` not for attributes. -/
def sdsDocstring (safe : Bool) (description : String) (indent : String) (params : List Parameter)
    (resultDocs : List ResultDoc) (examples : List String) : String :=
  let full := if description != "" then indent ++ " * " ++ descriptionPart description indent else ""
  let paramDocs := String.join (params.filterMap fun p =>
    if p.doc.description == "" then none
    else some (indent ++ " * @param " ++ convertName p.name safe ++ " " ++ descriptionPart p.doc.description indent))
  let paramDocs := if paramDocs != "" && full != "" then indent ++ " *\n" ++ paramDocs else paramDocs
  let full := full ++ paramDocs
  let resDocs := resultDocLines safe indent 1 resultDocs
  let resDocs := if resDocs != "" && full != "" then indent ++ " *\n" ++ resDocs else resDocs
  let full := full ++ resDocs
  let exs := examples.map (exampleText indent)
  let full := if full != "" && !exs.isEmpty then full ++ indent ++ " *\n" else full
  let full := full ++ joinWith (indent ++ " *\n") exs
  if full != "" then indent ++ "/**\n" ++ full ++ indent ++ " */\n" else ""

/-! ### parameters and results (533-652) -/

/-- the pieces of one rendered parameter -/
structure ParamOut where
  annotation : String      -- `@PythonName("x") ` or empty
  name : String            -- converted, keyword-escaped
  typeString : String      -- `: T` or empty
  value : String           -- ` = v` or empty

def ParamOut.render (p : ParamOut) : String := p.annotation ++ p.name ++ p.typeString ++ p.value

def defaultString (assignedBy : Assign) : DefaultVal → G String
  | .str s =>
    if assignedBy == .positionalVararg && s == "()" then pure "[]"
    else if assignedBy == .namedVararg && s == "{}" then pure "{}"
    else pure s
  | .bool b => pure (if b then "true" else "false")
  | .none => pure "null"
  | .unknown => do addTodo "unknown value"; pure "unknown"
  | .int i => pure (toString i)
  | .float r => pure r

def createParameter (env : Env) (p : Parameter) : G ParamOut := do
  let (typeString, value) ← (match p.type with
    | some t => do
      let value ← if p.isOptional then (do let d ← defaultString p.assignedBy p.default; pure (" = " ++ d)) else pure ""
      let t' := match p.assignedBy, t with
        | .positionalVararg, .tuple ts => AType.list ts
        | _, t => t
      let ts ← typeStr env t'
      pure (if ts != "" then ": " ++ ts else "", value)
    | none => do
      addTodo "param without type"
      pure (match p.assignedBy with
        | .positionalVararg => ": List<Any>"
        | .namedVararg => ": Map<String, Any>"
        | _ => "", "") : G (String × String))
  if p.assignedBy == .positionOnly && p.isOptional then addTodo "OPT_POS_ONLY"
  else if p.assignedBy == .nameOnly && !p.isOptional then addTodo "REQ_NAME_ONLY"
  if p.assignedBy == .positionalVararg || p.assignedBy == .namedVararg then addTodo "variadic"
  let camel := convertName p.name env.safe
  let ann := if camel != p.name then nameAnnotation p.name ++ " " else ""
  pure { annotation := ann, name := escapeKeyword camel, typeString := typeString, value := value }

def createParameters (env : Env) : List Parameter → G (List ParamOut)
  | [] => pure []
  | p :: ps => do
    let a ← createParameter env p
    let as ← createParameters env ps
    pure (a :: as)

/-- `_create_parameter_string` -/
def createParameterString (env : Env) (params : List Parameter) (indent : String) (isInstanceMethod : Bool) :
    G String := do
  let ps := if isInstanceMethod then params.drop 1 else params
  let outs ← createParameters env ps
  let inner := indent ++ indentation
  if outs.isEmpty then pure ""
  else pure ("\n" ++ inner ++ joinWith (",\n" ++ inner) (outs.map ParamOut.render) ++ "\n" ++ indent)

/-- the rendered results `name: type` of `_create_result_string`, in order (untyped results and results
    whose type renders empty are left out) -/
def createResults (env : Env) : List Result → G (List String)
  | [] => pure []
  | r :: rs =>
    match r.type with
    | none => createResults env rs
    | some t => do
      let ts ← typeStr env t
      let name := escapeKeyword (convertName r.name env.safe)
      let rest ← createResults env rs
      pure (if ts != "" then (name ++ ": " ++ ts) :: rest else rest)

/-- `_create_result_string`: a function whose only result is `None` has no results -/
def createResultString (env : Env) (results : List Result) : G String := do
  let onlyNone := match results with
    | [r] => (match r.type with | some t => isNoneNamed t | none => false)
    | _ => false
  if onlyNone then pure ""
  else
    match ← createResults env results with
    | [] => do addTodo "result without type"; pure ""
    | [r] => pure (" -> " ++ r)
    | rs => pure (" -> (" ++ joinWith ", " rs ++ ")")

/-! ### functions, properties, attributes, enums (375-531, 654-682) -/

def typeVarStrings (env : Env) (isMethod : Bool) : List TypeVar → G (List String)
  | [] => pure []
  | tv :: tvs => do
    let name := escapeKeyword (convertName tv.name env.safe)
    let s ← get
    let here ← (if !isMethod || !s.classGenerics.contains name then
        match tv.upperBound with
        | some u => do let us ← typeStr env u; pure [name ++ " sub " ++ us]
        | none => pure [name]
      else pure [] : G (List String))
    let rest ← typeVarStrings env isMethod tvs
    pure (here ++ rest)

/-- `_create_function_string` -/
def createFunctionString (env : Env) (f : Function) (indent : String := "") (isMethod : Bool := false)
    (inReexportModule : Bool := false) : G String := do
  if !isMethod && !inReexportModule then
    if ← hasNodeShorterReexport f.name f.reexportedBy (.fn f) then
      logEmit "moved" f.id
      return ""
  logEmit "fun" f.id
  let static := if f.isClassMethod || f.isStatic then "static " else ""
  if f.isClassMethod then addTodo "class_method"
  let funcParams ← createParameterString env f.params indent (!f.isStatic && isMethod)
  let tvs ← typeVarStrings env isMethod f.typeVars
  let typeVarInfo := if tvs.isEmpty then "" else "<" ++ joinWith ", " tvs ++ ">"
  let docstring := sdsDocstring env.safe f.doc.description indent f.params f.resultDocs f.doc.examples
  let camel := convertName f.name env.safe
  let ann := if camel != f.name then indent ++ nameAnnotation f.name ++ "\n" else ""
  let resultString ← createResultString env f.results
  let todo ← createTodoMsg indent
  pure (todo ++ docstring ++ indent ++ "@Pure\n" ++ ann ++ indent ++ static ++ "fun " ++ escapeKeyword camel
        ++ typeVarInfo ++ "(" ++ funcParams ++ ")" ++ resultString)

/-- `_create_property_function_string` -/
def createPropertyFunctionString (env : Env) (f : Function) (indent : String) : G String := do
  logEmit "prop" f.id
  let camel := convertName f.name env.safe
  let ann := if camel != f.name then nameAnnotation f.name ++ " " else ""
  let docstring := sdsDocstringDescription f.doc.description indent
  let resultTypes := f.results.filterMap (·.type)
  let propertyType ← typeStr env (.union resultTypes)
  let typeString := if propertyType != "" then ": " ++ propertyType else ""
  let todo ← createTodoMsg indent
  pure (todo ++ docstring ++ indent ++ ann ++ "attr " ++ escapeKeyword camel ++ typeString)

def isTypeVarType : Option AType → Bool
  | some (.typeVar _) => true
  | some (.typeVarB _ _) => true
  | _ => false

/-- one attribute of `_create_class_attribute_string`; `none` = skipped -/
def createAttribute (env : Env) (a : Attribute) (inner : String) : G (Option String) := do
  if !a.isPublic then return none
  if isTypeVarType a.type then return none
  logEmit "attr" a.id
  let static := if a.isStatic then "static " else ""
  let camel := convertName a.name env.safe
  let ann := if camel != a.name then nameAnnotation a.name ++ "\n" ++ inner else ""
  let attrType ← typeStrOpt env a.type
  let typeString := if attrType != "" then ": " ++ attrType else ""
  if typeString == "" then addTodo "attr without type"
  let docstring := sdsDocstring env.safe a.doc.description inner [] [] []
  let todo ← createTodoMsg inner
  pure (some (todo ++ docstring ++ inner ++ ann ++ static ++ "attr " ++ escapeKeyword camel ++ typeString))

def createAttributes (env : Env) (inner : String) : List Attribute → G (List String × List String)
  | [] => pure ([], [])
  | a :: as => do
    let r ← createAttribute env a inner
    let (texts, names) ← createAttributes env inner as
    match r with
    | some t => pure (t :: texts, insertSet a.name names)
    | none => pure (texts, names)

/-- `_create_class_attribute_string` -/
def createClassAttributeString (env : Env) (attrs : List Attribute) (inner : String) : G (String × List String) := do
  let (texts, names) ← createAttributes env inner attrs
  pure (if texts.isEmpty then "" else "\n" ++ joinWith "\n" texts ++ "\n", names)

/-- `_create_enum_string` -/
def createEnumString (env : Env) (e : Enum) : String :=
  let docstring := sdsDocstring env.safe e.doc.description "" [] [] e.doc.examples
  let signature := docstring ++ "enum " ++ escapeKeyword e.name
  if e.instances.isEmpty then signature
  else
    signature ++ " {" ++ "\n" ++ String.join (e.instances.map fun i =>
      let camel := convertName i.name env.safe
      let ann := if camel != i.name then nameAnnotation i.name ++ " " else ""
      indentation ++ ann ++ escapeKeyword camel ++ "\n") ++ "}"

/-! ### classes (192-373, 855-892) — recursion by fuel -/

/-- `_create_class_method_string`: which methods are kept (347-351) -/
def methodSkipped (m : Function) (isInternalClass : Bool) (alreadyDefined : List String) : Bool :=
  (!m.isPublic && (!isInternalClass || (isInternalClass && isInternal m.name))) || alreadyDefined.contains m.name

def createMethods (env : Env) (inner : String) (isInternalClass : Bool) (alreadyDefined : List String) :
    List Function → G (List String × List String × List String)
  | [] => pure ([], [], [])
  | m :: ms => do
    if methodSkipped m isInternalClass alreadyDefined then createMethods env inner isInternalClass alreadyDefined ms
    else if m.isProperty then do
      let t ← createPropertyFunctionString env m inner
      let (props, meths, names) ← createMethods env inner isInternalClass alreadyDefined ms
      pure (t :: props, meths, insertSet m.name names)
    else do
      let t ← createFunctionString env m inner true
      let (props, meths, names) ← createMethods env inner isInternalClass alreadyDefined ms
      pure (props, t :: meths, insertSet m.name names)

/-- `_create_class_method_string` -/
def createClassMethodString (env : Env) (methods : List Function) (inner : String) (isInternalClass : Bool := false)
    (alreadyDefined : List String := []) : G (String × List String) := do
  let (props, meths, names) ← createMethods env inner isInternalClass alreadyDefined methods
  let t1 := if props.isEmpty then "" else "\n" ++ joinWith "\n" props ++ "\n"
  let t2 := if meths.isEmpty then "" else "\n" ++ joinWith "\n\n" meths ++ "\n"
  pure (t1 ++ t2, names)

def varianceKeyword (v : Variance) : G String :=
  match assocGet? Generated.varianceKeywords v.name with
  | some k => pure k
  | none => throwG .keyError

def typeParamStrings (env : Env) : List TypeParam → G (List String)
  | [] => pure []
  | tp :: tps => do
    let dir ← varianceKeyword tp.variance
    let name := escapeKeyword (convertName tp.name env.safe)
    let item ← (match tp.type with
      | some t => do let ts ← typeStr env t; pure (dir ++ name ++ " sub " ++ ts)
      | none => pure (dir ++ name) : G String)
    let rest ← typeParamStrings env tps
    pure (item :: rest)

/-- the inner classes, each as `"\n" ++ class ++ "\n"` (`render` is the recursive call) -/
def innerClassesG (render : Class → G String) : List Class → G String
  | [] => pure ""
  | c :: cs => do
    let s ← render c
    let rest ← innerClassesG render cs
    pure ("\n" ++ s ++ "\n" ++ rest)

/-- the superclass loop (286-299): names of the public ones, inlined text of the private ones
    (`inline` is the recursive call `_create_internal_class_string`) -/
def superclassesG (env : Env) (inline : String → G String) : List String → G (List String × String)
  | [] => pure ([], "")
  | sc :: scs => do
    let name := lastD "" (splitDot sc)
    if !isInternal name then do
      addToImports env sc
      let (names, text) ← superclassesG env inline scs
      pure (escapeKeyword name :: names, text)
    else do
      let t ← inline sc
      let (names, text) ← superclassesG env inline scs
      pure (names, t ++ text)

/-- the loop over the superclasses of an inlined private class (883-890) -/
def internalSupersG (inline : String → G String) : List String → G String
  | [] => pure ""
  | ss :: sss => do
    let name := lastD "" (splitDot ss)
    let t ← (if isInternal name then inline ss else pure "" : G String)
    let rest ← internalSupersG inline sss
    pure (t ++ rest)

mutual
/-- `_create_class_string` -/
def createClassString (env : Env) : Nat → Class → String → Bool → G String
  | 0, _, _, _ => throwG .unsupported          -- out of fuel (never with fuel ≥ #classes + depth)
  | fuel + 1, c, indent, inReexportModule => do
    if !inReexportModule then
      if ← hasNodeShorterReexport c.name c.reexportedBy (.cls c) then
        logEmit "moved" c.id
        return ""
    logEmit "class" c.id
    let inner := indent ++ indentation
    let constructorInfo ← (if c.isAbstract then pure "" else do
      let p ← (match c.ctor with
        | some ctor => createParameterString env ctor.params indent true
        | none => pure "" : G String)
      pure ("(" ++ p ++ ")") : G String)
    let ctorTypeVars := match c.ctor with
      | some ctor => ctor.typeVars
      | none => []
    -- the generics of a class are valid for its own methods only; those of the surrounding class come back afterwards
    let outerGenerics := (← get).classGenerics
    modify fun s => { s with classGenerics := [] }
    let varianceInfo ← (if !c.typeParams.isEmpty || !ctorTypeVars.isEmpty then do
        let items ← typeParamStrings env c.typeParams
        let generics := ctorTypeVars.foldl (fun acc tv =>
          let n := escapeKeyword (convertName tv.name env.safe)
          if acc.contains n then acc else acc ++ [n]) items
        modify fun s => { s with classGenerics := generics }
        pure (if generics.isEmpty then "" else "<" ++ joinWith ", " generics ++ ">")
      else pure "" : G String)
    let camel := convertName c.name env.safe true
    let pythonNameInfo := if camel != c.name then indent ++ nameAnnotation c.name ++ "\n" else ""
    let classSignatureTodo ← createTodoMsg indent
    let (attrText, attrNames) ← createClassAttributeString env c.attributes inner
    let innerText ← innerClassesG (fun ic => createClassString env fuel ic inner true) (c.classes.filter (·.isPublic))
    let (methodText, methodNames) ← createClassMethodString env c.methods inner
    -- own attributes, methods and (public) inner classes hide inherited members of the same name
    let alreadyDefined := unionSet (unionSet attrNames methodNames) ((c.classes.filter (·.isPublic)).map (·.name))
    let (superInfo, superMethodsText, nNames) ← (if !c.renderedSupers.isEmpty && !c.isAbstract then do
        let (names, text) ← superclassesG env
          (fun sc => createInternalClassString env fuel sc inner alreadyDefined) c.renderedSupers
        pure (if names.isEmpty then "" else " sub " ++ joinWith ", " names, text, names.length)
      else pure ("", "", 0) : G (String × String × Nat))
    if nNames > 1 then addTodo "multiple_inheritance"
    let classInheritanceTodo ← createTodoMsg indent
    modify fun s => { s with classGenerics := outerGenerics }
    let signature := pythonNameInfo ++ indent ++ classSignatureTodo ++ classInheritanceTodo ++ "class "
      ++ escapeKeyword camel ++ varianceInfo ++ constructorInfo ++ superInfo
    let classText := attrText ++ innerText ++ superMethodsText ++ methodText
    let ctorParams := match c.ctor with
      | some ctor => ctor.params
      | none => []
    let docstring := sdsDocstring env.safe c.doc.description indent ctorParams [] c.doc.examples
    logEmit "endclass" c.id
    if classText == "" then pure (docstring ++ signature)
    else pure (docstring ++ signature ++ " {" ++ classText ++ indent ++ "}")
/-- `_create_internal_class_string` -/
def createInternalClassString (env : Env) : Nat → String → String → List String → G String
  | 0, _, _, _ => throwG .unsupported
  | fuel + 1, superclass, inner, alreadyDefined => do
    let sc ← (match getClassInPackage env superclass with
      | .ok c => pure c
      | .error e => throwG e : G Class)
    let (methodsText, existing) ← createClassMethodString env sc.methods inner true alreadyDefined
    let innerText ← innerClassesG (fun ic => createClassString env fuel ic inner true)
      (sc.classes.filter (fun ic => !isInternal ic.name && !alreadyDefined.contains ic.name))
    let alreadyDefined' := unionSet alreadyDefined existing
    let rest ← internalSupersG (fun ss => createInternalClassString env fuel ss inner alreadyDefined') sc.superclasses
    pure (methodsText ++ innerText ++ rest)
end

/-! ### modules (58-190) -/

/-- `_create_imports_string` -/
def createImportsString (env : Env) : G String := do
  let s ← get
  if s.imports.isEmpty then return ""
  let lines := s.imports.map fun imp =>
    let parts := splitDot imp
    let from_ := escapePath (convertPath (joinWith "." (dropLast' parts)) env.safe)
    let name := escapeKeyword (convertName (lastD "" parts) env.safe)
    "from " ++ from_ ++ " import " ++ name
  pure ("\n" ++ joinWith "\n" (sortStrings lines) ++ "\n")

def packageHeader (env : Env) (packageInfo : String) : String :=
  let camel := convertPath packageInfo env.safe
  (if packageInfo != camel then "@PythonModule(\"" ++ packageInfo ++ "\")\n" else "")
    ++ "package " ++ escapePath camel ++ "\n"

def classFuel (env : Env) : Nat := env.api.classes.length + 64

def createFunctions (env : Env) (inReexport : Bool) : List Function → G String
  | [] => pure ""
  | f :: fs => do
    let s ← (if f.isPublic then createFunctionString env f "" false inReexport else pure "" : G String)
    let rest ← createFunctions env inReexport fs
    pure ((if s != "" then "\n" ++ s ++ "\n" else "") ++ rest)

def createClasses (env : Env) (inReexport : Bool) : List Class → G String
  | [] => pure ""
  | c :: cs => do
    let s ← (if c.isPublic && !c.inheritsFromException then createClassString env (classFuel env) c "" inReexport
             else pure "" : G String)
    let rest ← createClasses env inReexport cs
    pure ((if s != "" then "\n" ++ s ++ "\n" else "") ++ rest)

/-- `_create_module_string` -/
def createModuleString (env : Env) (m : Module) : G (String × String) := do
  let (pkg, _) := shortestPublicReexport env.api.reexportMap m.name "" true
  let inReexport := pkg != ""
  let packageInfo := if pkg != "" then pkg else joinWith "." (splitSlash m.id)
  let header := packageHeader env packageInfo
  let doc := sdsDocstringDescription m.docstring ""
  let doc := if doc != "" then doc ++ "\n" else doc
  let t1 ← createFunctions env inReexport m.functions
  let t2 ← createClasses env inReexport m.classes
  let t3 := String.join (m.enums.map fun e => "\n" ++ createEnumString env e ++ "\n")
  modify fun s => { s with log := s.log ++ m.enums.map fun e => ("enum", e.id) }
  let imports ← createImportsString env
  pure (doc ++ header ++ imports ++ t1 ++ t2 ++ t3, packageInfo)

/-- `StubsStringGenerator.__call__` -/
def callGenerator (env : Env) (m : Module) : G (String × String) := do
  logEmit "module" m.id
  setModuleId m.id
  modify fun s => { s with reexportModuleId := "", classGenerics := [], imports := [], todos := [] }
  createModuleString env m

/-- one generated stub: directory (relative to the output directory, `/`-separated), file base name,
    text, and whether it is a "package module" created through `__init__` reexports -/
structure StubData where
  dir : String
  name : String
  text : String
  isPackageModule : Bool
  deriving Repr

def createReexportElements (env : Env) (moduleId : String) : List Node → G (List StubData)
  | [] => pure []
  | el :: els => do
    modify fun s => { s with imports := [], classGenerics := [] }
    let moduleName := el.name
    setModuleId (moduleId ++ "/" ++ moduleName)
    logEmit "restub" (moduleId ++ "/" ++ moduleName)
    let s ← get
    let packageInfo := joinWith "." (dropLast' (splitSlash (getModuleId s)))
    let header := packageHeader env packageInfo
    let body ← (match el with
      | .cls c => createClassString env (classFuel env) c "" true
      | .fn f => createFunctionString env f "" false true : G String)
    let imports ← createImportsString env
    let s ← get
    let d : StubData := { dir := getModuleId s, name := moduleName, text := header ++ imports ++ "\n" ++ body ++ "\n",
                          isPackageModule := true }
    let rest ← createReexportElements env moduleId els
    pure (d :: rest)

def createReexportModules (env : Env) : List (String × List Node) → G (List StubData)
  | [] => pure []
  | (moduleId, elements) :: rest => do
    modify fun s => { s with creatingReexport := false }
    setModuleId moduleId
    modify fun s => { s with creatingReexport := true }
    let sorted := sortBy nodeLe elements
    let ds ← createReexportElements env moduleId sorted
    let more ← createReexportModules env rest
    pure (ds ++ more)

/-- `create_reexport_module_strings` -/
def createReexportModuleStrings (env : Env) : G (List StubData) := do
  let s ← get
  createReexportModules env s.reexports

end StubGen
