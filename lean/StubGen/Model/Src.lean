/-
`Src` — where the analyser model begins: exactly the facts the tool reads from mypy's nodes
(`tie/extract.py` dumps them reflectively; DESIGN Appendix C lists the attributes).
"The Python package" in every analyser theorem is a value of these types.
-/
import StubGen.Model.Types

namespace StubGen

/-- mypy types, as far as `mypy_type_to_abstract_type` and its callers discriminate -/
inductive MType where
  | inst (name fullname : String) (args : List MType)                -- Instance: `type.name`, `type.fullname`, `args`
  | union (items : List MType)
  | tuple (items : List MType)
  | callable (argTypes : List MType) (ret : MType)
  | any (typeOfAny : Nat) (missingImportName : String)
  | none
  | literal (value : Lit)
  | typeVar (name : String) (upperBound : MType) (upperBoundStr : String)
  | unbound (name : String) (args : List MType)
  | other (cls : String) (name : Option String)                       -- any other mypy type class; `name` if it has one

/-- expressions in initialisers and return statements -/
inductive Expr where
  | name (name fullname : String) (isSelf : Bool) (selfTypeName selfTypeFullname : String)
  | int (v : Int)
  | float (repr : String)
  | str (v : String)
  | tuple (items : List Expr)
  | unary (op : String) (e : Expr)
  | call
  | member
  | cond (ifE elseE : Expr)
  | other (kind : String)

/-- what `_create_attribute` reads of an lvalue's `node` -/
structure VarInfo where
  fullname : String
  type : Option MType
  isInferred : Bool
  explicitSelfType : Bool

inductive LValue where
  | name (name fullname : String) (isVar : Bool) (var : Option VarInfo)      -- NameExpr
  | member (name fullname : String) (isVar : Bool) (var : Option VarInfo)    -- MemberExpr
  | tuple (items : List LValue)
  | other                                                                      -- IndexExpr, StarExpr, …

structure Assignment where
  lvalues : List LValue
  unanalyzedType : Option MType

/-- statements of a function body, as far as `find_return_stmts_recursive` and the walker look -/
inductive Stmt where
  | ret (e : Option Expr)
  | if_ (body : List Stmt) (elseBody : Option (List Stmt))      -- `body` is the list of Blocks
  | block (body : List Stmt)
  | try_ (body : List Stmt) (handlers : List Stmt)              -- body Block's statements; handlers are Blocks
  | match_ (bodies : List Stmt)                                 -- Blocks
  | loop (body : List Stmt)                                     -- While / With / For: `stmt.body.body`
  | assign (a : Assignment)
  | docExpr (raw cleaned : String)                              -- ExpressionStmt(StrExpr): value, inspect.cleandoc(value)
  | other

structure Arg where
  name : String
  isSelf : Bool
  isCls : Bool
  kind : Nat                      -- ArgKind value: 0 POS, 1 OPT, 2 STAR, 3 NAMED, 4 STAR2, 5 NAMED_OPT
  posOnly : Bool
  varType : Option MType          -- `argument.variable.type`
  annotation : Option MType       -- `argument.type_annotation`
  init : Option Expr

structure FuncDef where
  name : String
  fullname : String
  isStatic : Bool
  isClass : Bool
  isProperty : Bool
  args : List Arg
  /-- `node.type` is not None and has `ret_type` -/
  hasCallableType : Bool
  retType : Option MType          -- `node.type.ret_type`
  unanalyzedRet : Option MType    -- `getattr(node.unanalyzed_type, "ret_type", None)`
  unanalyzedRetLiteralIsNone : Bool   -- `getattr(unanalyzed_ret_type, "literal_value", "") is None`
  body : List Stmt

/-- a type variable as `enter_classdef` reads it from `Generic[...]` -/
structure TypeVarInfo where
  name : String
  variance : Nat
  values : List MType
  upperBound : MType
  upperBoundStr : String

inductive GenericIndex where
  | none
  | tuple (items : List (Option TypeVarInfo))    -- items that have a `node`
  | name (tv : Option TypeVarInfo)
  | other

structure BaseExpr where
  hasFullname : Bool
  fullname : String
  /-- `isinstance(superclass.node, TypeInfo)` and that info's fullname -/
  typeInfo : Option String
  baseName : Option String        -- `getattr(getattr(expr, "base", None), "name", None)`
  index : GenericIndex

inductive Def where
  | func (f : FuncDef)
  | decorator (f : FuncDef)
  | overloaded (impl : Option FuncDef)
  | cls (name fullname : String) (bases removedBases : List BaseExpr) (defs : List Def)
  | assign (a : Assignment)
  | docExpr (raw cleaned : String)
  | other (kind : String)

inductive ImportStmt where
  | import_ (ids : List (String × Option String))
  | from_ (id : String) (names : List (String × Option String))
  | all (id : String)

structure SrcModule where
  path : String
  fullname : String
  name : String
  imports : List ImportStmt
  defs : List Def

end StubGen
