/-
L4 — `stubs_generator/_generate_stubs.py`: `generate_stub_data`, `create_stub_files`,
`_create_outside_package_class`, as a log of write operations over a finite map
`relative path ↦ text` (paths are relative to the output directory, `/`-separated).
-/
import StubGen.Model.Gen

namespace StubGen

/-- lines 56-62 of `generate_stub_data`: is there anything besides the package header? -/
def moduleIsEmpty (text : String) : Bool :=
  let t := if pyStartsWith text "/**" then joinWith "*/\n" ((pySplitStr text "*/\n\n").drop 1) else text
  let parts := splitLines t
  parts.length ≤ 2 || (parts.length == 3 && pyStartsWith (parts.getD 1 "") "package ")

def generateModules (env : Env) : List Module → G (List StubData)
  | [] => pure []
  | m :: ms => do
    if m.name == "__init__" then generateModules env ms
    else do
      let (text, packageInfo) ← callGenerator env m
      if moduleIsEmpty text then generateModules env ms
      else do
        let (shortestPath, alias) := shortestPublicReexport env.api.reexportMap m.name "" true
        let moduleId := if shortestPath != "" then replaceChar shortestPath '.' "/" else replaceChar packageInfo '.' "/"
        let moduleName := if alias != "" then alias else m.name
        let rest ← generateModules env ms
        pure ({ dir := moduleId, name := moduleName, text := text, isPackageModule := false } :: rest)

/-- `generate_stub_data` -/
def generateStubData (env : Env) : G (List StubData) := do
  let a ← generateModules env env.api.modules
  let b ← createReexportModuleStrings env
  pure (a ++ b)

inductive WriteMode where
  | write | append
  deriving DecidableEq, Repr

structure WriteOp where
  path : String
  mode : WriteMode
  text : String
  deriving Repr

/-- `pathlib` normalisation of a relative path: empty and `.` components vanish -/
def pathParts (p : String) : List String := (splitSlash p).filter (fun s => s != "" && s != ".")

def stubPath (d : StubData) : String :=
  let parts := pathParts d.dir
  let dirParts := if d.isPackageModule then dropLast' parts else parts
  joinWith "/" (dirParts ++ [pyLstrip d.name "_" ++ ".sdsstub"])

/-- `_create_outside_package_class_text` -/
def outsideClassText (className : String) (safe : Bool) : String :=
  let camel := convertName className safe true
  let ann := if className != camel then "\n" ++ nameAnnotation className else ""
  ann ++ "\nclass " ++ escapeKeyword camel ++ "\n"

/-- `_create_outside_package_class`; `existing` = paths that exist when the call is made -/
def createOutsidePackageClass (safe : Bool) (classPath : String) (created : List String) (existing : List String) :
    Except PyErr (WriteOp × List String) :=
  let parts := splitDot classPath
  let className := lastD "" parts
  let pathPartsL := dropLast' parts
  match pathPartsL.getLast? with
  | none => .error .indexError
  | some moduleName =>
    let modulePath := joinWith "/" pathPartsL
    let first := !created.contains modulePath
    let created' := if first then created ++ [modulePath] else created
    -- like module stubs, the file name has no leading underscores
    let file := joinWith "/" (pathParts modulePath ++ [pyLstrip moduleName "_" ++ ".sdsstub"])
    if existing.contains file && !first then
      .ok ({ path := file, mode := .append, text := outsideClassText className safe }, created')
    else
      let pyPath := joinWith "." pathPartsL
      let camel := convertPath pyPath safe
      let header := (if pyPath != camel then "@PythonModule(\"" ++ pyPath ++ "\")\n" else "")
        ++ "package " ++ escapePath camel ++ "\n"
      .ok ({ path := file, mode := .write, text := header ++ outsideClassText className safe }, created')

def outsideWrites (safe : Bool) : List String → List String → List String → Except PyErr (List WriteOp)
  | [], _, _ => .ok []
  | c :: cs, created, existing =>
    match createOutsidePackageClass safe c created existing with
    | .error e => .error e
    | .ok (op, created') =>
      match outsideWrites safe cs created' (insertSet op.path existing) with
      | .error e => .error e
      | .ok ops => .ok (op :: ops)

/-- `create_stub_files`: the module stubs in order, then the placeholder stubs in sorted order.
    `preexisting` = files present in the output directory before the run. -/
def createStubFiles (safe : Bool) (stubs : List StubData) (outside : List String) (preexisting : List String) :
    Except PyErr (List WriteOp) :=
  let moduleOps := stubs.map fun d => ({ path := stubPath d, mode := .write, text := d.text } : WriteOp)
  let existing := moduleOps.foldl (fun acc op => insertSet op.path acc) preexisting
  match outsideWrites safe (sortStrings outside) [] existing with
  | .error e => .error e
  | .ok ops => .ok (moduleOps ++ ops)

def applyWrite (fs : List (String × String)) (op : WriteOp) : List (String × String) :=
  match op.mode with
  | .write =>
    if fs.any (fun kv => kv.1 == op.path) then fs.map (fun kv => if kv.1 == op.path then (kv.1, op.text) else kv)
    else fs ++ [(op.path, op.text)]
  | .append =>
    if fs.any (fun kv => kv.1 == op.path) then fs.map (fun kv => if kv.1 == op.path then (kv.1, kv.2 ++ op.text) else kv)
    else fs ++ [(op.path, op.text)]

def applyWrites (fs : List (String × String)) (ops : List WriteOp) : List (String × String) := ops.foldl applyWrite fs

structure GenResult where
  log : List LogEntry
  stubs : List StubData
  outside : List String
  ops : List WriteOp

/-- stub generation as the CLI runs it: a fresh generator, `generate_stub_data`, `create_stub_files` -/
def runGenerator (api : API) (safe : Bool) (preexisting : List String := []) : Except PyErr GenResult :=
  let env : Env := { api := api, safe := safe }
  match (generateStubData env).run {} with
  | .error e => .error e
  | .ok (stubs, st) =>
    match createStubFiles safe stubs st.outside preexisting with
    | .error e => .error e
    | .ok ops => .ok { log := st.log, stubs := stubs, outside := st.outside, ops := ops }

end StubGen
