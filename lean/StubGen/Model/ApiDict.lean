/-
J — `API.to_dict` / `API.to_json_file` (`_api.py:75-103`, the `to_dict` of every record, and
`dataclasses.asdict` for the docstring records of `_docstring.py`) together with `json.dump(…, indent=2)`.

`JVal` is the JSON value; floats are opaque tokens carrying their `repr` (Appendix B).
-/
import StubGen.Model.Analyze

namespace StubGen

inductive JVal where
  | str (s : String)
  | int (i : Int)
  | floatTok (repr : String)
  | bool (b : Bool)
  | null
  | list (xs : List JVal)
  | dict (items : List (String × JVal))

mutual
def JVal.ofPy : PyVal → JVal
  | .str s => .str s
  | .int i => .int i
  | .bool b => .bool b
  | .none => .null
  | .list xs => .list (JVal.ofPyL xs)
  | .dict items => .dict (JVal.ofPyD items)
def JVal.ofPyL : List PyVal → List JVal
  | [] => []
  | x :: xs => JVal.ofPy x :: JVal.ofPyL xs
def JVal.ofPyD : List (String × PyVal) → List (String × JVal)
  | [] => []
  | (k, v) :: xs => (k, JVal.ofPy v) :: JVal.ofPyD xs
end

def Lit.toJ : Lit → JVal
  | .str s => .str s | .int i => .int i | .bool b => .bool b | .none => .null

def Bnd.toJ : Bnd → JVal
  | .int i => .int i | .str s => .str s

/-! ### `dataclasses.asdict` of an API type inside a docstring record

The docstring records are serialised with `dataclasses.asdict`, which recurses into the (dataclass)
type objects field by field — no `"kind"` entry — and copies any other object as it is; the `frozenset`
of an `EnumType` then makes `json.dump` raise `TypeError`. -/
mutual
def AType.asdict : AType → Except PyErr JVal
  | .unknown => .ok (.dict [])
  | .named n q => .ok (.dict [("name", .str n), ("qname", .str q)])
  | .namedSeq n q ts => do
      let xs ← AType.asdictL ts
      pure (.dict [("name", .str n), ("qname", .str q), ("types", .list xs)])
  | .enum _ => .error .typeError
  | .boundary b mn mx mi xi =>
      .ok (.dict [("base_type", .str b), ("min", mn.toJ), ("max", mx.toJ), ("min_inclusive", .bool mi),
                  ("max_inclusive", .bool xi), ("full_match", .str "")])
  | .union ts => do pure (.dict [("types", .list (← AType.asdictL ts))])
  | .list ts => do pure (.dict [("types", .list (← AType.asdictL ts))])
  | .dict k v => do pure (.dict [("key_type", ← k.asdict), ("value_type", ← v.asdict)])
  | .callable ps r => do pure (.dict [("parameter_types", .list (← AType.asdictL ps)), ("return_type", ← r.asdict)])
  | .set ts => do pure (.dict [("types", .list (← AType.asdictL ts))])
  | .literal ls => .ok (.dict [("literals", .list (ls.map Lit.toJ))])
  | .final t => do pure (.dict [("type_", ← t.asdict)])
  | .tuple ts => do pure (.dict [("types", .list (← AType.asdictL ts))])
  | .typeVar n => .ok (.dict [("name", .str n), ("upper_bound", .null)])
  | .typeVarB n u => do pure (.dict [("name", .str n), ("upper_bound", ← u.asdict)])
def AType.asdictL : List AType → Except PyErr (List JVal)
  | [] => .ok []
  | t :: ts => do
    let x ← t.asdict
    let xs ← AType.asdictL ts
    pure (x :: xs)
end

def asdictOpt : Option AType → Except PyErr JVal
  | none => .ok .null
  | some t => t.asdict

def typeJ : Option AType → JVal
  | none => .null
  | some t => JVal.ofPy t.toDict

def strsJ (l : List String) : JVal := .list (l.map JVal.str)

def Docstring.toJ (d : Docstring) : JVal :=
  .dict [("description", .str d.description), ("full_docstring", .str d.fullDocstring), ("examples", strsJ d.examples)]

def DefaultVal.toJ : DefaultVal → JVal
  | .none => .null
  | .str s => .str s
  | .bool b => .bool b
  | .int i => .int i
  | .float r => .floatTok r
  | .unknown => .str "UnknownValue"

def Parameter.toJ (p : Parameter) : Except PyErr JVal := do
  let t ← asdictOpt p.doc.type
  pure (.dict [("id", .str p.id), ("name", .str p.name),
    ("docstring", .dict [("type", t), ("default_value", .str p.doc.defaultValue), ("description", .str p.doc.description)]),
    ("is_optional", .bool p.isOptional), ("default_value", p.default.toJ), ("assigned_by", .str p.assignedBy.name),
    ("type", typeJ p.type)])

def Result.toJ (r : Result) : JVal :=
  .dict [("id", .str r.id), ("name", .str r.name), ("type", typeJ r.type)]

def Attribute.toJ (a : Attribute) : Except PyErr JVal := do
  let t ← asdictOpt a.doc.type
  pure (.dict [("id", .str a.id), ("name", .str a.name),
    ("docstring", .dict [("type", t), ("description", .str a.doc.description)]),
    ("is_public", .bool a.isPublic), ("is_static", .bool a.isStatic), ("type", typeJ a.type)])

def Function.toJ (f : Function) : JVal :=
  .dict [("id", .str f.id), ("name", .str f.name), ("docstring", f.doc.toJ), ("is_public", .bool f.isPublic),
    ("is_static", .bool f.isStatic), ("is_class_method", .bool f.isClassMethod), ("is_property", .bool f.isProperty),
    ("results", strsJ (f.results.map (·.id))), ("reexported_by", strsJ (f.reexportedBy.map (·.id))),
    ("parameters", strsJ (f.params.map (·.id)))]

def TypeParam.toJ (t : TypeParam) : JVal :=
  .dict [("name", .str t.name), ("type", typeJ t.type), ("variance_type", .str t.variance.name)]

def Class.toJ (c : Class) : JVal :=
  .dict [("id", .str c.id), ("name", .str c.name), ("docstring", c.doc.toJ), ("is_public", .bool c.isPublic),
    ("superclasses", strsJ c.superclasses),
    ("constructor", match c.ctor with | some f => f.toJ | none => .null),
    ("inherits_from_exception", .bool c.inheritsFromException),
    ("reexported_by", strsJ (c.reexportedBy.map (·.id))),
    ("attributes", strsJ (c.attributes.map (·.id))),
    ("methods", strsJ (c.methods.map (·.id))),
    ("classes", strsJ (c.classes.map (·.id))),
    ("type_parameters", .list (c.typeParams.map TypeParam.toJ))]

def Enum.toJ (e : Enum) : JVal :=
  .dict [("id", .str e.id), ("name", .str e.name), ("docstring", e.doc.toJ), ("instances", strsJ (e.instances.map (·.id)))]

def EnumInstance.toJ (e : EnumInstance) : JVal := .dict [("id", .str e.id), ("name", .str e.name)]

def Module.toJ (m : Module) : JVal :=
  .dict [("id", .str m.id), ("name", .str m.name), ("docstring", .str m.docstring),
    ("qualified_imports", .list (m.qualifiedImports.map fun q =>
        .dict [("qualified_name", .str q.qualifiedName), ("alias", match q.alias with | some a => .str a | none => .null)])),
    ("wildcard_imports", .list (m.wildcardImports.map fun w => .dict [("module_name", .str w)])),
    ("classes", strsJ (m.classes.map (·.id))),
    ("functions", strsJ (m.functions.map (·.id))),
    ("enums", strsJ (m.enums.map (·.id)))]

/-- `sorted(tbl.values(), key=lambda it: it.id)` — Python's sort is stable -/
def sortedById {α : Type} (key : α → String) (tbl : List α) : List α := sortBy (fun a b => strLe (key a) (key b)) tbl

def mapExcept {α β : Type} (f : α → Except PyErr β) : List α → Except PyErr (List β)
  | [] => .ok []
  | a :: as => do
    let b ← f a
    let bs ← mapExcept f as
    pure (b :: bs)

/-- `API.to_dict()` (distribution and version are "" for a package that is not installed) -/
def AnaResult.toJ (pkg : String) (r : AnaResult) (dist : String := "") (version : String := "") : Except PyErr JVal := do
  let attrs ← mapExcept Attribute.toJ (sortedById (·.id) r.attributes)
  let params ← mapExcept Parameter.toJ (sortedById (·.id) r.parameters)
  pure (.dict [("schemaVersion", .int 1), ("distribution", .str dist), ("package", .str pkg), ("version", .str version),
    ("modules", .list ((sortedById (·.id) r.modules).map Module.toJ)),
    ("classes", .list ((sortedById (·.id) r.classes).map Class.toJ)),
    ("functions", .list ((sortedById (·.id) r.functions).map Function.toJ)),
    ("results", .list ((sortedById (·.id) r.results).map Result.toJ)),
    ("enums", .list ((sortedById (·.id) r.enums).map Enum.toJ)),
    ("enum_instances", .list ((sortedById (·.id) r.enumInstances).map EnumInstance.toJ)),
    ("attributes", .list attrs),
    ("parameters", .list params)])

/-! ### `json.dumps(value, indent=2)` (ensure_ascii, separators `,` and `: `) -/

def hexDigit (n : Nat) : Char := if n < 10 then Char.ofNat (48 + n) else Char.ofNat (87 + n)

def hex4 (n : Nat) : List Char :=
  [hexDigit (n / 4096 % 16), hexDigit (n / 256 % 16), hexDigit (n / 16 % 16), hexDigit (n % 16)]

/-- `ESCAPE_ASCII`: `\\`, `"`, the named control characters, `\uXXXX` for everything outside `' '..'~'`
    (a surrogate pair above the BMP) -/
def jsonEscapeChar (c : Char) : List Char :=
  if c = '\\' then ['\\', '\\']
  else if c = '"' then ['\\', '"']
  else if c = '\n' then ['\\', 'n']
  else if c = '\r' then ['\\', 'r']
  else if c = '\t' then ['\\', 't']
  else if c.toNat = 8 then ['\\', 'b']
  else if c.toNat = 12 then ['\\', 'f']
  else if 32 ≤ c.toNat ∧ c.toNat ≤ 126 then [c]
  else if c.toNat < 65536 then '\\' :: 'u' :: hex4 c.toNat
  else
    let n := c.toNat - 65536
    ('\\' :: 'u' :: hex4 (55296 ||| ((n >>> 10) &&& 1023))) ++ ('\\' :: 'u' :: hex4 (56320 ||| (n &&& 1023)))

def jsonStr (s : String) : String := "\"" ++ String.ofList (s.toList.flatMap jsonEscapeChar) ++ "\""

def intStr (i : Int) : String := toString i

def indentStr : Nat → String
  | 0 => ""
  | n + 1 => "  " ++ indentStr n

/-- `float.__repr__` as `json` writes it: the non-finite values have their own spellings (`allow_nan=True`) -/
def jsonFloat (repr : String) : String :=
  if repr == "inf" then "Infinity" else if repr == "-inf" then "-Infinity" else if repr == "nan" then "NaN" else repr

mutual
def JVal.dumps (level : Nat) : JVal → String
  | .str s => jsonStr s
  | .int i => intStr i
  | .floatTok r => jsonFloat r
  | .bool true => "true"
  | .bool false => "false"
  | .null => "null"
  | .list [] => "[]"
  | .list (x :: xs) =>
    "[\n" ++ indentStr (level + 1) ++ x.dumps (level + 1) ++ JVal.dumpsL (level + 1) xs ++ "\n" ++ indentStr level ++ "]"
  | .dict [] => "{}"
  | .dict ((k, v) :: kvs) =>
    "{\n" ++ indentStr (level + 1) ++ jsonStr k ++ ": " ++ v.dumps (level + 1) ++ JVal.dumpsD (level + 1) kvs
      ++ "\n" ++ indentStr level ++ "}"
def JVal.dumpsL (level : Nat) : List JVal → String
  | [] => ""
  | x :: xs => ",\n" ++ indentStr level ++ x.dumps level ++ JVal.dumpsL level xs
def JVal.dumpsD (level : Nat) : List (String × JVal) → String
  | [] => ""
  | (k, v) :: kvs => ",\n" ++ indentStr level ++ jsonStr k ++ ": " ++ v.dumps level ++ JVal.dumpsD level kvs
end

/-- the text `API.to_json_file` writes -/
def apiJsonText (pkg : String) (r : AnaResult) : Except PyErr String := do
  let j ← r.toJ pkg
  pure (j.dumps 0)

end StubGen
