/-
C06 / C07 — what the parameter list and the result list of a stub must look like, written from the
property statements, independently of the generator:

C06 "the stub parameter list equals the Python parameter list with the implicit receiver (self/cls)
removed: same length, same order, same Python names.  Literal defaults (int, float, str, bool, None,
signed numbers) are reproduced with the same value and a parameter is optional exactly when Python
gives it such a default."

C07 "a function annotated `-> None` has no results, an annotated tuple return yields one result per
element in order, and any other annotation yields exactly one result carrying the translated type [per
result of the API: one rendered result each, in order]; a function with neither annotation nor
inferable return is emitted without results."  (`-> None` is `Spec.onlyNoneResult` of `Spec/Markers`:
the result list is a single `None` result.  A `None` result among several is a result like any other.)

Nothing here mentions the generator or its state: the renderer of types is a parameter
(`ResultsRendered`), the naming helpers are those of L1 (`Model/Naming`, property C09).
-/
import StubGen.Model.Naming
import StubGen.Model.Api
import StubGen.Spec.Markers

namespace StubGen.Spec

/-! ### the receiver -/

/-- the Python parameter list without the implicit receiver -/
def receiverRemoved (ps : List Parameter) : List Parameter := ps.filter (·.assignedBy != .implicit)

/-- API invariant the analyser establishes: an instance/class method has exactly one implicit
    parameter and it comes first; everything else (functions, static methods) has none. -/
def WFReceiver (ps : List Parameter) (isInstanceMethod : Bool) : Prop :=
  if isInstanceMethod then
    ∃ p rest, ps = p :: rest ∧ p.assignedBy = .implicit ∧ ∀ q ∈ rest, q.assignedBy ≠ .implicit
  else ∀ q ∈ ps, q.assignedBy ≠ .implicit

/-- `WFReceiver` as a computable test (`Proofs/Params.wfReceiver_iff`) -/
def wfReceiver (ps : List Parameter) (isInstanceMethod : Bool) : Bool :=
  match isInstanceMethod, ps with
  | true, [] => false
  | true, p :: rest => p.assignedBy == .implicit && rest.all (·.assignedBy != .implicit)
  | false, ps => ps.all (·.assignedBy != .implicit)

/-! ### one parameter -/

/-- the Safe-DS literal for a Python default value.  The API stores string defaults already quoted and
    floats as their token, so both are copied; the empty-collection defaults of `*args` / `**kwargs`
    are shown as the Safe-DS empty list / map. -/
def defaultText (assignedBy : Assign) : DefaultVal → String
  | .none => "null"
  | .bool true => "true"
  | .bool false => "false"
  | .int i => toString i
  | .float token => token
  | .str s =>
    if assignedBy = .positionalVararg ∧ s = "()" then "[]"
    else if assignedBy = .namedVararg ∧ s = "{}" then "{}"
    else s
  | .unknown => "unknown"

/-- the four pieces of one stub parameter -/
structure ParamText where
  annotation : String
  name : String
  typeString : String
  value : String
  deriving DecidableEq, Repr

def ParamText.render (p : ParamText) : String := p.annotation ++ p.name ++ p.typeString ++ p.value

/-- `@PythonName("x") ` exactly when the rendered name differs from the Python name -/
def paramAnnotation (safe : Bool) (p : Parameter) : String :=
  if convertName p.name safe ≠ p.name then nameAnnotation p.name ++ " " else ""

/-- converted to the naming convention, back-quoted if it is a Safe-DS keyword -/
def paramName (safe : Bool) (p : Parameter) : String := escapeKeyword (convertName p.name safe)

/-- ` = literal` exactly when Python gives the parameter a default -/
def paramValue (p : Parameter) : String :=
  if p.isOptional then " = " ++ defaultText p.assignedBy p.default else ""

/-- `: T` for a non-empty type text -/
def typeAnnotation (typeText : String) : String := if typeText ≠ "" then ": " ++ typeText else ""

/-- type text of a parameter that has no type at all: variadic ones still get their collection type -/
def untypedParamType (p : Parameter) : String :=
  match p.assignedBy with
  | .positionalVararg => ": List<Any>"
  | .namedVararg => ": Map<String, Any>"
  | _ => ""

/-- the stub parameter for a typed API parameter whose shown type (`shownParamType`) renders as
    `typeText`; meaningful under `optionalIsTyped` -/
def specParam (safe : Bool) (p : Parameter) (typeText : String) : ParamText :=
  { annotation := paramAnnotation safe p
    name := paramName safe p
    typeString := typeAnnotation typeText
    value := paramValue p }

/-- the text between the parentheses: empty, or one parameter per line, one level deeper than the
    declaration, the closing parenthesis back on the declaration's level -/
def paramListText (indent oneLevel : String) (rendered : List String) : String :=
  if rendered = [] then ""
  else "\n" ++ indent ++ oneLevel ++ joinWith (",\n" ++ indent ++ oneLevel) rendered ++ "\n" ++ indent

/-! ### results -/

/-- `ResultsRendered render name rs s texts s'`: walking the results from left to right through a
    (stateful, possibly failing) type renderer started in `s` succeeds, ends in `s'`, and `texts` are,
    in order, `name: T` for exactly the results that have a type whose rendering `T` is non-empty. -/
inductive ResultsRendered {σ ε : Type} (render : AType → σ → Except ε (String × σ)) (name : Result → String) :
    List Result → σ → List String → σ → Prop
  | nil (s : σ) : ResultsRendered render name [] s [] s
  | untyped {r : Result} {rs : List Result} {s s' : σ} {texts : List String} :
      r.type = none → ResultsRendered render name rs s texts s' →
      ResultsRendered render name (r :: rs) s texts s'
  | empty {r : Result} {rs : List Result} {t : AType} {s s₁ s' : σ} {texts : List String} :
      r.type = some t → render t s = .ok ("", s₁) → ResultsRendered render name rs s₁ texts s' →
      ResultsRendered render name (r :: rs) s texts s'
  | shown {r : Result} {rs : List Result} {t : AType} {tx : String} {s s₁ s' : σ} {texts : List String} :
      r.type = some t → render t s = .ok (tx, s₁) → tx ≠ "" → ResultsRendered render name rs s₁ texts s' →
      ResultsRendered render name (r :: rs) s ((name r ++ ": " ++ tx) :: texts) s'

/-- rendered name of a result -/
def resultName (safe : Bool) (r : Result) : String := escapeKeyword (convertName r.name safe)

/-- the text after the closing parenthesis: nothing, one result, or a parenthesised list -/
def resultListText : List String → String
  | [] => ""
  | [x] => " -> " ++ x
  | xs => " -> (" ++ joinWith ", " xs ++ ")"

end StubGen.Spec
