/-
C01 (generator half) — the scope in which the stub generator never raises.

`Scope01 api` is a decidable well-formedness check of an `API` value.  Every clause corresponds to one
`raise` site (or implicit exception) of `stubs_generator/_stub_string_generator.py`:

* `typeOk` (= `renderable` ∧ `importable`) for every type that is rendered — parameter, result,
  attribute, type parameter, type-variable bound of a declaration that is emitted:
  - `renderable`: no `EnumType` / `BoundaryType` (`raise ValueError("Unexpected type")`), no `NamedType`
    with an empty name (`name[0]`, `IndexError`) or an empty qualified name
    (`raise ValueError("Type has no import source.")`),
  - `importable`: no generic class with arguments and an empty qualified name (same `ValueError`);
* a public superclass string is not empty (`_add_to_imports("")`, the same `ValueError`);
* a private superclass (last dot-segment starts with `_`) of a rendered, non-abstract class resolves
  through `_get_class_in_package` (`resolveClass`; otherwise `LookupError`), transitively through the
  private superclasses of the inlined class;
* the recursion over inner classes and inlined private superclasses ends within the fuel
  `#classes + 64` of the model (`classOk` / `inlinedOk` are *fuel-indexed*: `classOk api n c` says that
  rendering `c` needs recursion depth at most `n`; in Python a deeper — or cyclic — hierarchy ends in
  `RecursionError`, in the model in `.unsupported`).  `classOk` is monotone in the fuel
  (`o01_classOk_mono`), and for classes without private superclasses it holds as soon as the fuel
  exceeds the nesting depth and the local conditions hold (`o01_classOk_of_depth`).

Nothing is required for the variance table (`KeyError` is unreachable: `varianceKeyword_total`), for the
TODO-message table (all keys the generator adds are keys of the table) and for
`_create_outside_package_class` (every class path that reaches it contains a dot).

Slight over-approximations (documented, harmless for well-formed APIs): the bound of *every* type
variable of an emitted function must be `typeOk` (the generator skips those of a method that repeat a
class generic), and the `None`-only result of a function must itself be `typeOk`.
-/
import StubGen.Py.Str
import StubGen.Model.Naming
import StubGen.Model.Api
import StubGen.Spec.TypeSpec

namespace StubGen.Spec

mutual
/-- every generic class with type arguments has a qualified name, i.e. an import source -/
def importable : AType → Bool
  | .namedSeq _ q ts => q != "" && importableL ts
  | .union ts => importableL ts
  | .list ts => importableL ts
  | .set ts => importableL ts
  | .tuple ts => importableL ts
  | .dict k v => importable k && importable v
  | .callable ps r => importableL ps && importable r
  | .final t => importable t
  | _ => true
def importableL : List AType → Bool
  | [] => true
  | t :: ts => importable t && importableL ts
end

/-- a type the generator can render without raising -/
def typeOk (t : AType) : Bool := renderable t && importable t

def optTypeOk : Option AType → Bool
  | none => true
  | some t => typeOk t

def paramsOk (ps : List Parameter) : Bool := ps.all fun p => optTypeOk p.type
def resultsOk (rs : List Result) : Bool := rs.all fun r => optTypeOk r.type
def typeVarsOk (tvs : List TypeVar) : Bool := tvs.all fun tv => optTypeOk tv.upperBound
def typeParamsOk (tps : List TypeParam) : Bool := tps.all fun tp => optTypeOk tp.type
/-- only public attributes are written -/
def attributesOk (as : List Attribute) : Bool := as.all fun a => !a.isPublic || optTypeOk a.type

/-- a function written by `_create_function_string`; the first parameter of an instance method is
    dropped before rendering -/
def functionOk (isMethod : Bool) (f : Function) : Bool :=
  paramsOk (if !f.isStatic && isMethod then f.params.drop 1 else f.params)
    && typeVarsOk f.typeVars && resultsOk f.results

/-- a method: a property shows only its result types -/
def methodOk (m : Function) : Bool := if m.isProperty then resultsOk m.results else functionOk true m

/-- the constructor parameters (without `self`) of a class that is not abstract -/
def ctorOk (c : Class) : Bool :=
  c.isAbstract || match c.ctor with
    | some ctor => paramsOk (ctor.params.drop 1)
    | none => true

/-- `_get_class_in_package`: exact id, else the first class whose id ends with the path, or lies under
    the path's directory and has the path's last segment as its name -/
def resolveClass (api : API) (classQname : String) : Option Class :=
  let q := replaceChar classQname '.' "/"
  let parts := splitSlash q
  let classPath := joinWith "/" (dropLast' parts)
  let className := lastD "" parts
  match api.classes.find? (fun c => c.id == q) with
  | some c => some c
  | none =>
    api.classes.find? (fun c => pyEndsWith c.id q
      || (pyStartsWith c.id (classPath ++ "/") && pyEndsWith c.id ("/" ++ className)))

/-- is the class named by a superclass string private (`is_internal(superclass.split(".")[-1])`) -/
def privateSuper (sc : String) : Bool := isInternal (lastD "" (splitDot sc))

mutual
/-- `classOk api n c`: the class `c` is rendered without an exception by a recursion of depth ≤ `n`
    through its public inner classes and its inlined private superclasses -/
def classOk (api : API) : Nat → Class → Bool
  | 0, _ => false
  | n + 1, c =>
    ctorOk c && typeParamsOk c.typeParams && attributesOk c.attributes
      && (c.classes.filter (·.isPublic)).all (classOk api n)
      && c.methods.all (fun m => !m.isPublic || methodOk m)
      && (c.superclasses.isEmpty || c.isAbstract
          || c.superclasses.all fun sc => if privateSuper sc then inlinedOk api n sc else sc != "")
/-- `inlinedOk api n sc`: the private superclass named `sc` resolves, and inlining its methods, its
    inner classes and (transitively) its private superclasses needs recursion depth ≤ `n` -/
def inlinedOk (api : API) : Nat → String → Bool
  | 0, _ => false
  | n + 1, sc =>
    match resolveClass api sc with
    | none => false
    | some c =>
      c.methods.all (fun m => !(m.isPublic || !isInternal m.name) || methodOk m)
        && (c.classes.filter (fun ic => !isInternal ic.name)).all (classOk api n)
        && c.superclasses.all (fun ss => !privateSuper ss || inlinedOk api n ss)
end

/-- the recursion budget of the generator model (`classFuel`) -/
def fuel01 (api : API) : Nat := api.classes.length + 64

/-- `__init__` modules are not rendered; of the others the public functions and the public classes
    that are not exceptions -/
def moduleOk (api : API) (m : Module) : Bool :=
  m.name == "__init__"
    || (m.functions.all (fun f => !f.isPublic || functionOk false f)
        && m.classes.all (fun c => !(c.isPublic && !c.inheritsFromException) || classOk api (fuel01 api) c))

/-- the scope of C01: APIs on which the generator does not raise -/
def Scope01 (api : API) : Bool := api.modules.all (moduleOk api)

/-! ### the structural part of the fuel: nesting depth -/

mutual
/-- nesting depth of a class (a class without inner classes has depth 1) -/
def nestDepth : Class → Nat
  | ⟨_, _, _, _, _, _, _, _, _, _, cs, _⟩ => nestDepthL cs + 1
def nestDepthL : List Class → Nat
  | [] => 0
  | c :: cs => max (nestDepth c) (nestDepthL cs)
end

mutual
/-- the conditions of `classOk` that do not involve fuel, for a class hierarchy in which no rendered
    class has a private superclass -/
def localOk : Class → Bool
  | ⟨id, name, supers, isPublic, doc, ctor, exc, reex, attrs, methods, cs, tps⟩ =>
    let c : Class := ⟨id, name, supers, isPublic, doc, ctor, exc, reex, attrs, methods, cs, tps⟩
    ctorOk c && typeParamsOk tps && attributesOk attrs
      && methods.all (fun m => !m.isPublic || methodOk m)
      && (supers.isEmpty || c.isAbstract || supers.all fun sc => !privateSuper sc && sc != "")
      && localOkL cs
def localOkL : List Class → Bool
  | [] => true
  | c :: cs => (!c.isPublic || localOk c) && localOkL cs
end

end StubGen.Spec

