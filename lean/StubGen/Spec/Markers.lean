/-
C20 — which TODO markers a declaration deserves, written from the property statement
("a parameter/result/attribute without type, tuple or set types, a list or set with several type
arguments, variadic parameters, class methods, optional position-only or required keyword-only
parameters, multiple inheritance, an unparsable default value"), independently of the generator.
Keys are those of the generator's message table (tied by T1, `Tables.todo_keys`).
-/
import StubGen.Model.Api

namespace StubGen.Spec

mutual
/-- markers a type deserves wherever it is shown -/
def typeKeys : AType → List String
  | .tuple ts => "no tuple support" :: typeKeysL ts
  | .set ts => "no set support" :: ((if ts.length ≥ 2 then ["Set"] else []) ++ typeKeysL ts)
  | .list ts => (if ts.length ≥ 2 then ["List"] else []) ++ typeKeysL ts
  | .namedSeq n _ ts => (if ts.length ≥ 2 && (n == "Set" || n == "List") then [n] else []) ++ typeKeysL ts
  | .unknown => ["unknown"]
  | .union ts => typeKeysL ts
  | .dict k v => typeKeys k ++ typeKeys v
  | .final t => typeKeys t
  | .callable ps r =>
    -- a tuple in the return position of a callable is a result list, not a tuple type
    typeKeysL ps ++ (match r with
      | .tuple ts => typeKeysL ts
      | other => typeKeys other)
  | .named .. => []
  | .literal _ => []
  | .typeVar _ => []
  | .typeVarB .. => []
  | .enum _ => []
  | .boundary .. => []
def typeKeysL : List AType → List String
  | [] => []
  | t :: ts => typeKeys t ++ typeKeysL ts
end

/-- the type as the stub shows it: `*args: tuple[T]` is presented as a list -/
def shownParamType (p : Parameter) : Option AType :=
  match p.assignedBy, p.type with
  | .positionalVararg, some (.tuple ts) => some (.list ts)
  | _, t => t

def isVariadic (p : Parameter) : Bool := p.assignedBy == .positionalVararg || p.assignedBy == .namedVararg

/-- markers one parameter deserves -/
def paramKeys (p : Parameter) : List String :=
  (match shownParamType p with
   | none => ["param without type"]
   | some t => typeKeys t)
  ++ (if p.isOptional && p.default == .unknown then ["unknown value"] else [])
  ++ (if p.assignedBy == .positionOnly && p.isOptional then ["OPT_POS_ONLY"] else [])
  ++ (if p.assignedBy == .nameOnly && !p.isOptional then ["REQ_NAME_ONLY"] else [])
  ++ (if isVariadic p then ["variadic"] else [])

/-- API invariant the analyser establishes: an optional parameter always has a type (inferred from the
    default literal if not annotated).  Without it the generator drops the default value altogether. -/
def optionalIsTyped (p : Parameter) : Bool := !p.isOptional || p.type.isSome

def paramsKeys (ps : List Parameter) : List String := ps.flatMap paramKeys

mutual
/-- a type whose rendering is the empty string: a union without members, or all of whose members
    render empty (possibly under `Final`) -/
def rendersEmpty : AType → Bool
  | .union ts => allRenderEmpty ts
  | .final t => rendersEmpty t
  | _ => false
def allRenderEmpty : List AType → Bool
  | [] => true
  | t :: ts => rendersEmpty t && allRenderEmpty ts
end

def isNoneResult (r : Result) : Bool :=
  match r.type with
  | some (.named _ q) => q == "builtins.None"
  | _ => false

/-- a function whose only result is `None` (the annotation `-> None`) has no result list -/
def onlyNoneResult (rs : List Result) : Bool :=
  match rs with
  | [r] => isNoneResult r
  | _ => false

/-- the results that are shown: those that have a type which does not render empty -/
def shownResults (rs : List Result) : List Result :=
  if onlyNoneResult rs then []
  else rs.filter fun r => match r.type with | some t => !rendersEmpty t | none => false

def resultKeys (rs : List Result) : List String :=
  if onlyNoneResult rs then []
  else
    rs.flatMap (fun r => match r.type with | some t => typeKeys t | none => [])
    ++ (if (shownResults rs).isEmpty then ["result without type"] else [])

/-- markers a function deserves; `shownTypeVars` = the type variables whose bound is rendered
    (all of them for a module-level function) -/
def functionKeys (f : Function) (isMethod : Bool) (shownTypeVars : List TypeVar) : List String :=
  (if f.isClassMethod then ["class_method"] else [])
  ++ paramsKeys (if !f.isStatic && isMethod then f.params.drop 1 else f.params)
  ++ shownTypeVars.flatMap (fun tv => match tv.upperBound with | some t => typeKeys t | none => [])
  ++ resultKeys f.results

def attributeKeys (a : Attribute) : List String :=
  match a.type with
  | none => ["attr without type"]
  | some t => (if rendersEmpty t then ["attr without type"] else []) ++ typeKeys t

mutual
/-- does the term mention a class whose name starts with an underscore (the one state-dependent marker) -/
def mentionsInternal : AType → Bool
  | .named n _ => n.toList.head? == some '_'
  | .namedSeq _ _ ts => mentionsInternalL ts
  | .union ts => mentionsInternalL ts
  | .list ts => mentionsInternalL ts
  | .set ts => mentionsInternalL ts
  | .tuple ts => mentionsInternalL ts
  | .dict k v => mentionsInternal k || mentionsInternal v
  | .callable ps r => mentionsInternalL ps || mentionsInternal r
  | .final t => mentionsInternal t
  | _ => false
def mentionsInternalL : List AType → Bool
  | [] => false
  | t :: ts => mentionsInternal t || mentionsInternalL ts
end

end StubGen.Spec
