/-
C02 (lexical half) — the token classes of the Safe-DS lexical grammar the property speaks about,
written down independently of the generator:

* `ID`      = `[_a-zA-Z][_a-zA-Z0-9]*`, optionally wrapped in back-quotes; the back-quotes are
              mandatory when the word is a keyword;
* `STRING`  = `"` ( any char except `"`, `\`, newline | `\` followed by one of
              `b f n r t v 0 ' " { \ u` )* `"`;
* block comments `/* … */` do not nest and end at the FIRST `*/`.

Everything is a computable `Bool` recogniser over `List Char`, so closed instances are decided by
`decide`.
-/
import StubGen.Py.Basic
import StubGen.Spec.Lex
import StubGen.Spec.Keywords

namespace StubGen.Spec

/-! ### identifiers -/

/-- `s` is one of the 33 reserved words -/
def isKeyword (s : String) : Bool := keywords33.contains s

/-- `cs = '`' :: k ++ ['`']` with `k` a legal identifier (the two back-quotes are stripped) -/
def isQuotedIdentL : List Char → Bool
  | '`' :: rest => rest.getLast? == some '`' && isIdent rest.dropLast
  | _ => false

/-- one `ID` token that the parser accepts as a name: an unquoted legal identifier that is not a
    keyword, or a back-quoted legal identifier -/
def isIdentToken (s : String) : Bool :=
  (isIdent s.toList && !isKeyword s) || isQuotedIdentL s.toList

/-- a qualified name `ID ('.' ID)*`: every dot-segment is an `ID` token -/
def isQualifiedToken (s : String) : Bool := (pySplit s '.').all isIdentToken

/-! ### string literals -/

/-- a character that may stand in a string body unescaped and cannot end or break the literal -/
def isPlainStringChar (c : Char) : Bool := c != '"' && c != '\\' && c != '\n' && c != '\r'

/-- no `"`, no `\`, no newline: sufficient for `"\"" ++ body ++ "\""` to be exactly one closed
    `STRING` token -/
def stringBodySafe (cs : List Char) : Bool := cs.all isPlainStringChar

/-- the characters that may follow a backslash -/
def isEscapeChar (c : Char) : Bool := ['b', 'f', 'n', 'r', 't', 'v', '0', '\'', '"', '{', '\\', 'u'].contains c

/-- what follows the opening quote: body characters / escape sequences, then the closing quote,
    then NOTHING (the token ends exactly at the end of the text).  The flag says that the previous
    character was the backslash of an escape sequence. -/
def stringRest : Bool → List Char → Bool
  | _, [] => false
  | true, c :: rest => isEscapeChar c && stringRest false rest
  | false, c :: rest =>
    if c = '"' then rest.isEmpty
    else if c = '\\' then stringRest true rest
    else c != '\n' && c != '\r' && stringRest false rest

def isStringTokenL : List Char → Bool
  | '"' :: rest => stringRest false rest
  | _ => false

/-- `s` is exactly one closed `STRING` token -/
def isStringToken (s : String) : Bool := isStringTokenL s.toList

/-! ### block comments -/

/-- the text does not contain the comment terminator -/
def commentBodySafe (s : String) : Bool := !pyIn "*/" s

/-- what follows the opening `/*`: the FIRST `*/` is the end of the text.  The flag says that the
    previous character (after the opener) was a `*`. -/
def commentRest : Bool → List Char → Bool
  | _, [] => false
  | star, c :: rest => if star && c = '/' then rest.isEmpty else commentRest (c = '*') rest

def isCommentTokenL : List Char → Bool
  | '/' :: '*' :: rest => commentRest false rest
  | _ => false

/-- `s` is exactly one closed block comment: it starts with `/*` and the first `*/` after the
    opener is the end of `s` -/
def isCommentToken (s : String) : Bool := isCommentTokenL s.toList

end StubGen.Spec
