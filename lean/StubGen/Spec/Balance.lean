/-
C02 (structural half) — "brackets, braces, comments and string literals are all properly closed",
written down independently of the generator as a one-pass scanner over the characters of a stub text.

The scanner is a finite automaton with a stack.  Its lexical modes follow the Safe-DS lexer:

* `code`      ordinary stub text;
* `"…"`       string literals with backslash escapes (`Spec.isEscapeChar`), not spanning lines;
* `// …`      line comments, up to the end of the line;
* `/* … */`   block comments (not nested, closed by the FIRST `*/`);
* `` `…` ``   back-quoted identifiers.

Brackets count in `code` mode only.  The stack holds, innermost first, the closing brackets that
are still expected: `(` waits for `)`, `{` for `}`, `<` for `>`, `[` for `]`.  The `>` of an arrow
`->` is not a closing bracket.  A closing bracket that does not match the innermost open one, a
line break or an illegal escape inside a string literal, and a non-identifier character between
back-quotes make the scanner fail.

`Balanced s`: the scan of `s` from `code` mode and the empty stack ends in `code` mode with the
empty stack.  Everything is a computable function on `List Char`; closed instances are decided by
`decide`.

The second part of the file states the conditions on the analysed package under which the
generator's text is balanced (`…Bal` predicates): which names must be identifiers, which string
values and docstrings must not contain characters the generator does not escape.
-/
import StubGen.Spec.Tokens
import StubGen.Model.Api
import StubGen.Model.Naming
import StubGen.Py.Str

namespace StubGen.Spec

/-! ## the scanner -/

inductive Mode where
  | code        -- ordinary stub text
  | slash       -- code; the previous character was `/` (a comment may start here)
  | minus       -- code; the previous character was `-` (an arrow `->` may follow)
  | str         -- inside a `"` string literal
  | strEsc      -- inside a string literal, directly after a backslash
  | line        -- inside a `//` comment
  | block       -- inside a `/* … */` comment
  | blockStar   -- inside a block comment; the previous character was `*`
  | quoted      -- inside a back-quoted identifier
  deriving DecidableEq, Repr

/-- the closing bracket an opening bracket waits for -/
def closerOf (c : Char) : Option Char :=
  if c = '(' then some ')' else if c = '{' then some '}' else if c = '<' then some '>'
  else if c = '[' then some ']' else none

def isCloser (c : Char) : Bool := c = ')' || c = '}' || c = '>' || c = ']'

/-- the closing brackets still expected, innermost first -/
abbrev Stack := List Char

/-- one character read in `code` mode -/
def stepCode (stk : Stack) (c : Char) : Option (Mode × Stack) :=
  if c = '"' then some (.str, stk)
  else if c = '`' then some (.quoted, stk)
  else if c = '/' then some (.slash, stk)
  else if c = '-' then some (.minus, stk)
  else match closerOf c with
    | some d => some (.code, d :: stk)                 -- an opening bracket
    | none =>
      if isCloser c then
        match stk with
        | d :: rest => if c = d then some (.code, rest) else none
        | [] => none
      else some (.code, stk)

/-- one character; `none` = the text is broken at this character -/
def step : Mode → Stack → Char → Option (Mode × Stack)
  | .code, stk, c => stepCode stk c
  | .slash, stk, c =>
    if c = '/' then some (.line, stk) else if c = '*' then some (.block, stk) else stepCode stk c
  | .minus, stk, c => if c = '>' then some (.code, stk) else stepCode stk c
  | .str, stk, c =>
    if c = '"' then some (.code, stk) else if c = '\\' then some (.strEsc, stk)
    else if c = '\n' || c = '\r' then none else some (.str, stk)
  | .strEsc, stk, c => if isEscapeChar c then some (.str, stk) else none
  | .line, stk, c => if c = '\n' || c = '\r' then some (.code, stk) else some (.line, stk)
  | .block, stk, c => some (if c = '*' then .blockStar else .block, stk)
  | .blockStar, stk, c => some (if c = '/' then .code else if c = '*' then .blockStar else .block, stk)
  | .quoted, stk, c =>
    if c = '`' then some (.code, stk) else if isIdentChar c then some (.quoted, stk) else none

def scan : Mode → Stack → List Char → Option (Mode × Stack)
  | m, stk, [] => some (m, stk)
  | m, stk, c :: cs => (step m stk c).bind fun r => scan r.1 r.2 cs

/-- every bracket, string literal, comment and back-quoted name of the text is closed, and
    brackets are properly nested -/
def BalancedL (cs : List Char) : Bool := scan .code [] cs == some (.code, [])

def Balanced (s : String) : Bool := BalancedL s.toList

/-! ## the scope: what the generator prints unescaped

Names are printed through `convertName` + `escapeKeyword` (hypothesis `Convertible`, as in the
lexical half) or through `escapeKeyword` alone (hypothesis `isIdent`); string literal values and the
original names in `@PythonName("…")` between quotes (`stringBodySafe`); default values that arrive
as text (string and float defaults) verbatim (hypothesis: the text itself is balanced); docstring
texts inside `/** … */` (`commentBodySafe`: no `*/`). -/

/-- literal values need no condition any more: string values are escaped (repair d913d69) -/
def litBal : Lit → Bool
  | _ => true

mutual
/-- the names and literal values inside a type -/
def typeBal : AType → Bool
  | .named n _ => isIdent n.toList
  | .namedSeq n _ ts => isIdent n.toList && typesBal ts
  | .typeVar n => Convertible n.toList
  | .typeVarB n _ => Convertible n.toList
  | .literal ls => ls.all litBal
  | .union ts => typesBal ts
  | .list ts => typesBal ts
  | .set ts => typesBal ts
  | .tuple ts => typesBal ts
  | .dict k v => typeBal k && typeBal v
  | .callable ps r => typesBal ps && typeBal r
  | .final t => typeBal t
  | .unknown => true
  | .enum _ => true
  | .boundary .. => true
def typesBal : List AType → Bool
  | [] => true
  | t :: ts => typeBal t && typesBal ts
end

def optTypeBal : Option AType → Bool
  | none => true
  | some t => typeBal t

/-- default values that are printed as they arrive -/
def defaultBal : DefaultVal → Bool
  | .str s => Balanced s
  | .float r => Balanced r
  | _ => true

def paramBal (p : Parameter) : Bool :=
  Convertible p.name.toList && optTypeBal p.type && defaultBal p.default
    && commentBodySafe p.doc.description

def resultBal (r : Result) : Bool := Convertible r.name.toList && optTypeBal r.type

def typeVarBal (tv : TypeVar) : Bool := Convertible tv.name.toList && optTypeBal tv.upperBound

/-- an entry of the `@result` documentation: its name is printed converted, not escaped -/
def resultDocBal (rd : ResultDoc) : Bool :=
  commentBodySafe rd.description && (rd.name == "" || Convertible rd.name.toList)

/-- an example is printed inside the documentation comment with `>>>` and `...` replaced by `//`,
    which turns `*>>>` into the terminator `*//`; sufficient: no `*` in the example -/
def exampleBal (ex : String) : Bool := !ex.toList.contains '*'

def docBal (d : Docstring) : Bool := commentBodySafe d.description && d.examples.all exampleBal

def functionBal (f : Function) : Bool :=
  Convertible f.name.toList && docBal f.doc && f.params.all paramBal && f.results.all resultBal
    && f.typeVars.all typeVarBal && f.resultDocs.all resultDocBal

def attributeBal (a : Attribute) : Bool :=
  Convertible a.name.toList && optTypeBal a.type && commentBodySafe a.doc.description

def typeParamBal (tp : TypeParam) : Bool := Convertible tp.name.toList && optTypeBal tp.type

/-- the enum name is printed through `escapeKeyword` only -/
def enumBal (e : Enum) : Bool :=
  isIdent e.name.toList && docBal e.doc && e.instances.all fun i => Convertible i.name.toList

/-- a superclass is printed by the last segment of its dotted name when that is public; a private
    one is inlined (its members are taken from the class table of the API) -/
def superBal (sc : String) : Bool :=
  isInternal (lastD "" (splitDot sc)) || isIdent (lastD "" (splitDot sc)).toList

mutual
/-- a class with everything nested in it -/
def classBal : Class → Bool
  | ⟨_, name, supers, _, doc, ctor, _, _, attrs, methods, cs, tps⟩ =>
    Convertible name.toList && docBal doc
      && (match ctor with
          | some k => k.params.all paramBal && k.typeVars.all typeVarBal
          | none => true)
      && attrs.all attributeBal && methods.all functionBal && tps.all typeParamBal
      && supers.all superBal && classesBal cs
def classesBal : List Class → Bool
  | [] => true
  | c :: cs => classBal c && classesBal cs
end

/-- the segments of a package path or of an imported qualified name -/
def pathBal (p : String) : Bool := (pySplit p '.').all fun s => Convertible s.toList

def moduleBal (m : Module) : Bool :=
  commentBodySafe m.docstring && m.functions.all functionBal && classesBal m.classes && m.enums.all enumBal

end StubGen.Spec
