/- Lexical classes of Safe-DS identifiers (grammar: ID = `^?[_a-zA-Z][_a-zA-Z0-9]*`). -/
import StubGen.Py.Basic

namespace StubGen

def isIdentStart (c : Char) : Bool := c.isAlpha || c == '_'
def isIdentChar (c : Char) : Bool := c.isAlphanum || c == '_'

/-- a legal (unquoted) Safe-DS / Python-ASCII identifier -/
def isIdent : List Char → Bool
  | [] => false
  | c :: cs => isIdentStart c && cs.all isIdentChar

/-- Names the camel-case conversion can turn into a legal identifier: made of identifier characters,
and the first character after the leading underscores exists and is a letter. -/
def Convertible (cs : List Char) : Bool :=
  cs.all isIdentChar &&
  match lstripChar '_' cs with
  | [] => false
  | c :: _ => c.isAlpha

end StubGen
