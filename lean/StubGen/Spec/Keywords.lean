/- The reserved words of the Safe-DS language (grammar `safe-ds.langium`, terminal rules and
keyword literals), written down independently of the generator's table: 32 keywords and the
wildcard `_`. -/
namespace StubGen.Spec

def keywords33 : List String :=
  ["_", "and", "annotation", "as", "attr", "class", "const", "enum", "false", "from", "fun", "import",
   "in", "internal", "literal", "not", "null", "or", "out", "package", "pipeline", "private", "schema",
   "segment", "static", "sub", "this", "true", "union", "unknown", "val", "where", "yield"]

end StubGen.Spec
