/-
C05 (analyser half) — the mapping from mypy types to API types as PURE functions of the mypy type and
of the two things the analyser looks up in its state (`Resolve`: the alias resolution of the module being
analysed and that module's classes).

* `mapType R t`      : the API type (`mapTypes`: the list version = `List.map`)
* `firstErr R t`     : the exception raised instead, if any (left-to-right, first one wins)
* `typeVarsOf R t`   : the type variables recorded in `type_var_types`, in the order of recording
* `warningsOf R t`   : the warnings logged, in order
* `visited t`        : the sub-terms the mapping looks at (pre-order); `nodeErr`, `unknownNode`: what
                       happens at one node
* `unCase t un`      : the four ways the un-analysed annotation is consulted by `mypy_type_to_abstract_type`

`StubGen/Theorems/C05a.lean` proves that the monadic model (`toAbstractNoUn`, `toAbstracts`, `toAbstract`)
computes exactly these.
-/
import StubGen.Model.Analyze

namespace StubGen.Spec.MypyMap

open StubGen

/-- the one warning of the mapping -/
def unknownMsg : String := "Could not parse a type, added unknown type instead."

/-- everything the mapping reads of the visitor state -/
structure Resolve where
  /-- `_find_alias(name)` in the module being analysed -/
  alias : String → Except PyErr (String × String)
  /-- the classes of the module at the bottom of the declaration stack (`none`: there is no module) -/
  classes : Option (List Class)

def resolveOf (env : AEnv) (s : VSt) : Resolve :=
  { alias := fun n => findAlias env s n
    classes := (bottomModule s).map (·.classes) }

/-! ### names -/

/-- a name looked up with `_find_alias`: without a qualified name it is the unknown marker -/
def resolveAlias (R : Resolve) (n : String) : Except PyErr AType :=
  match R.alias n with
  | .error e => .error e
  | .ok (n', q) => if q == "" then .ok .unknown else .ok (.named n' q)

/-- an un-analysed name that is no builtin: a class of the current module wins over the aliases -/
def resolveUnbound (R : Resolve) (name : String) : Except PyErr AType :=
  match R.classes with
  | none => .error .typeError
  | some cs =>
    match cs.find? (fun c => c.name == name) with
    | some c => .ok (.named c.name (replaceChar c.id '/' "."))
    | none => resolveAlias R name

def valOf : Except PyErr AType → AType
  | .ok a => a
  | .error _ => .unknown          -- never observed: `firstErr` reports the error

def errOf : Except PyErr AType → Option PyErr
  | .ok _ => none
  | .error e => some e

def warnOf : Except PyErr AType → List String
  | .ok .unknown => [unknownMsg]
  | _ => []

def isUnknownRes : Except PyErr AType → Bool
  | .ok .unknown => true
  | _ => false

/-- un-analysed names translated without any lookup -/
def builtinUnbound (name : String) : Bool :=
  name == "Any" || name == "str" || name == "int" || name == "bool" || name == "float" || name == "None"

/-- the SHORT names the dispatch on `Instance` knows (the qualified name is never tested) -/
def instBuiltin (name : String) : Bool :=
  name == "int" || name == "str" || name == "bool" || name == "float" || name == "tuple" || name == "list" ||
  name == "Sequence" || name == "Collection" || name == "set" || name == "dict" || name == "Mapping"

def orErr : Option PyErr → Option PyErr → Option PyErr
  | some e, _ => some e
  | none, b => b

/-! ### the mapping -/

mutual
def mapType (R : Resolve) : MType → AType
  | .tuple items => .tuple (mapTypes R items)
  | .union items => .union (mapTypes R items)
  | .typeVar name ub ubStr =>
    if ubStr != "builtins.object" then
      if name == "Self" then mapType R ub else .typeVarB name (mapType R ub)
    else .typeVar name
  | .callable args ret => .callable (mapTypes R args) (mapType R ret)
  | .any t missing =>
    if t == fromUnimportedType then valOf (resolveAlias R (lastD "" (splitDot missing)))
    else .named "Any" "typing.Any"
  | .none => .named "None" "builtins.None"
  | .literal v => .literal [v]
  | .unbound name args =>
    if name == "list" then .list (mapTypes R args)
    else if name == "set" then .set (mapTypes R args)
    else if builtinUnbound name then .named name ("builtins." ++ name)
    else valOf (resolveUnbound R name)
  | .inst name fullname args =>
    if name == "int" || name == "str" || name == "bool" || name == "float" then .named name fullname
    else if name == "tuple" then .tuple (mapTypes R args)
    else if name == "list" || name == "Sequence" || name == "Collection" then .list (mapTypes R args)
    else if name == "set" then .set (mapTypes R args)
    else if name == "dict" || name == "Mapping" then
      match args with
      | k :: v :: _ => .dict (mapType R k) (mapType R v)
      | _ => .unknown             -- never observed: `firstErr` reports `IndexError`
    else if args.isEmpty then .named name fullname
    else .namedSeq name fullname (mapTypes R args)
  | .other _ _ => .unknown
def mapTypes (R : Resolve) : List MType → List AType
  | [] => []
  | t :: ts => mapType R t :: mapTypes R ts
end

mutual
def firstErr (R : Resolve) : MType → Option PyErr
  | .tuple items => firstErrs R items
  | .union items => firstErrs R items
  | .typeVar _ ub ubStr => if ubStr != "builtins.object" then firstErr R ub else none
  | .callable args ret => orErr (firstErrs R args) (firstErr R ret)
  | .any t missing =>
    if t == fromUnimportedType then errOf (resolveAlias R (lastD "" (splitDot missing))) else none
  | .none => none
  | .literal _ => none
  | .unbound name args =>
    if name == "list" then firstErrs R args
    else if name == "set" then firstErrs R args
    else if builtinUnbound name then none
    else errOf (resolveUnbound R name)
  | .inst name _ args =>
    if name == "int" || name == "str" || name == "bool" || name == "float" then none
    else if name == "tuple" then firstErrs R args
    else if name == "list" || name == "Sequence" || name == "Collection" then firstErrs R args
    else if name == "set" then firstErrs R args
    else if name == "dict" || name == "Mapping" then
      match args with
      | k :: v :: _ => orErr (firstErr R k) (firstErr R v)
      | _ => some .indexError
    else if args.isEmpty then none
    else firstErrs R args
  | .other _ _ => none
def firstErrs (R : Resolve) : List MType → Option PyErr
  | [] => none
  | t :: ts => orErr (firstErr R t) (firstErrs R ts)
end

mutual
def typeVarsOf (R : Resolve) : MType → List (String × Option AType)
  | .tuple items => typeVarsOfs R items
  | .union items => typeVarsOfs R items
  | .typeVar name ub ubStr =>
    if ubStr != "builtins.object" then
      if name == "Self" then typeVarsOf R ub else typeVarsOf R ub ++ [(name, some (mapType R ub))]
    else [(name, none)]
  | .callable args ret => typeVarsOfs R args ++ typeVarsOf R ret
  | .any _ _ => []
  | .none => []
  | .literal _ => []
  | .unbound name args =>
    if name == "list" then typeVarsOfs R args
    else if name == "set" then typeVarsOfs R args
    else []
  | .inst name _ args =>
    if name == "int" || name == "str" || name == "bool" || name == "float" then []
    else if name == "tuple" then typeVarsOfs R args
    else if name == "list" || name == "Sequence" || name == "Collection" then typeVarsOfs R args
    else if name == "set" then typeVarsOfs R args
    else if name == "dict" || name == "Mapping" then
      match args with
      | k :: v :: _ => typeVarsOf R k ++ typeVarsOf R v
      | _ => []
    else if args.isEmpty then []
    else typeVarsOfs R args
  | .other _ _ => []
def typeVarsOfs (R : Resolve) : List MType → List (String × Option AType)
  | [] => []
  | t :: ts => typeVarsOf R t ++ typeVarsOfs R ts
end

mutual
def warningsOf (R : Resolve) : MType → List String
  | .tuple items => warningsOfs R items
  | .union items => warningsOfs R items
  | .typeVar _ ub ubStr => if ubStr != "builtins.object" then warningsOf R ub else []
  | .callable args ret => warningsOfs R args ++ warningsOf R ret
  | .any t missing =>
    if t == fromUnimportedType then warnOf (resolveAlias R (lastD "" (splitDot missing))) else []
  | .none => []
  | .literal _ => []
  | .unbound name args =>
    if name == "list" then warningsOfs R args
    else if name == "set" then warningsOfs R args
    else if builtinUnbound name then []
    else warnOf (resolveUnbound R name)
  | .inst name _ args =>
    if name == "int" || name == "str" || name == "bool" || name == "float" then []
    else if name == "tuple" then warningsOfs R args
    else if name == "list" || name == "Sequence" || name == "Collection" then warningsOfs R args
    else if name == "set" then warningsOfs R args
    else if name == "dict" || name == "Mapping" then
      match args with
      | k :: v :: _ => warningsOf R k ++ warningsOf R v
      | _ => []
    else if args.isEmpty then []
    else warningsOfs R args
  | .other _ _ => [unknownMsg]
def warningsOfs (R : Resolve) : List MType → List String
  | [] => []
  | t :: ts => warningsOf R t ++ warningsOfs R ts
end

/-! ### the state after a successful translation: only `typeVars` and `warnings` move -/

/-- `type_var_types.add(...)` for each recorded variable, in order -/
def record (tvs : List (String × Option AType)) (l : List (String × Option AType)) : List (String × Option AType) :=
  tvs.foldl (fun l tv => addTypeVar tv l) l

def after (st : VSt) (tvs : List (String × Option AType)) (ws : List String) : VSt :=
  { st with typeVars := record tvs st.typeVars, warnings := st.warnings ++ ws }

/-- the outcome of a run described by the four pure functions -/
def outcome {α : Type} (st : VSt) (err : Option PyErr) (a : α) (tvs : List (String × Option AType))
    (ws : List String) : Except PyErr (α × VSt) :=
  match err with
  | some e => .error e
  | none => .ok (a, after st tvs ws)

/-! ### the sub-terms the mapping looks at -/

mutual
def visited : MType → List MType
  | .tuple items => .tuple items :: visiteds items
  | .union items => .union items :: visiteds items
  | .typeVar name ub ubStr =>
    .typeVar name ub ubStr :: (if ubStr != "builtins.object" then visited ub else [])
  | .callable args ret => .callable args ret :: (visiteds args ++ visited ret)
  | .any t missing => [.any t missing]
  | .none => [.none]
  | .literal v => [.literal v]
  | .unbound name args =>
    .unbound name args :: (if name == "list" then visiteds args else if name == "set" then visiteds args else [])
  | .inst name fullname args =>
    .inst name fullname args ::
      (if name == "int" || name == "str" || name == "bool" || name == "float" then []
       else if name == "tuple" then visiteds args
       else if name == "list" || name == "Sequence" || name == "Collection" then visiteds args
       else if name == "set" then visiteds args
       else if name == "dict" || name == "Mapping" then
         match args with
         | k :: v :: _ => visited k ++ visited v
         | _ => []
       else visiteds args)
  | .other c n => [.other c n]
def visiteds : List MType → List MType
  | [] => []
  | t :: ts => visited t ++ visiteds ts
end

/-- the exception raised AT a node (not below it) -/
def nodeErr (R : Resolve) : MType → Option PyErr
  | .any t missing =>
    if t == fromUnimportedType then errOf (resolveAlias R (lastD "" (splitDot missing))) else none
  | .unbound name _ =>
    if name == "list" || name == "set" || builtinUnbound name then none else errOf (resolveUnbound R name)
  | .inst name _ args =>
    if name == "dict" || name == "Mapping" then
      match args with
      | _ :: _ :: _ => none
      | _ => some .indexError
    else none
  | _ => none

/-- the nodes translated to the unknown marker -/
def unknownNode (R : Resolve) : MType → Bool
  | .other _ _ => true
  | .any t missing => t == fromUnimportedType && isUnknownRes (resolveAlias R (lastD "" (splitDot missing)))
  | .unbound name _ =>
    !(name == "list" || name == "set" || builtinUnbound name) && isUnknownRes (resolveUnbound R name)
  | _ => false

mutual
def hasUnknown : AType → Bool
  | .unknown => true
  | .namedSeq _ _ ts => hasUnknowns ts
  | .union ts => hasUnknowns ts
  | .list ts => hasUnknowns ts
  | .dict k v => hasUnknown k || hasUnknown v
  | .callable ps r => hasUnknowns ps || hasUnknown r
  | .set ts => hasUnknowns ts
  | .final t => hasUnknown t
  | .tuple ts => hasUnknowns ts
  | .typeVarB _ u => hasUnknown u
  | _ => false
def hasUnknowns : List AType → Bool
  | [] => false
  | t :: ts => hasUnknown t || hasUnknowns ts
end

mutual
def countUnknown : AType → Nat
  | .unknown => 1
  | .namedSeq _ _ ts => countUnknowns ts
  | .union ts => countUnknowns ts
  | .list ts => countUnknowns ts
  | .dict k v => countUnknown k + countUnknown v
  | .callable ps r => countUnknowns ps + countUnknown r
  | .set ts => countUnknowns ts
  | .final t => countUnknown t
  | .tuple ts => countUnknowns ts
  | .typeVarB _ u => countUnknown u
  | _ => 0
def countUnknowns : List AType → Nat
  | [] => 0
  | t :: ts => countUnknown t + countUnknowns ts
end

-- the type variables of an API type, bounds first
mutual
def tvarsIn : AType → List (String × Option AType)
  | .namedSeq _ _ ts => tvarsIns ts
  | .union ts => tvarsIns ts
  | .list ts => tvarsIns ts
  | .dict k v => tvarsIn k ++ tvarsIn v
  | .callable ps r => tvarsIns ps ++ tvarsIn r
  | .set ts => tvarsIns ts
  | .final t => tvarsIn t
  | .tuple ts => tvarsIns ts
  | .typeVar n => [(n, none)]
  | .typeVarB n u => tvarsIn u ++ [(n, some u)]
  | _ => []
def tvarsIns : List AType → List (String × Option AType)
  | [] => []
  | t :: ts => tvarsIn t ++ tvarsIns ts
end

/-! ### the un-analysed annotation -/

inductive UnCase where
  /-- `Final[...]`: the ARGUMENTS OF THE ANNOTATION are translated, the analysed type is ignored -/
  | final (args : List MType)
  /-- annotation named `list` / `set`, and the analysed type has exactly one argument, an `Any` of an
      incorrect kind: the ANNOTATION is translated instead of the analysed type -/
  | reparse (u : MType)
  /-- tuple annotation: the ITEMS OF THE ANNOTATION are translated -/
  | tuple (items : List MType)
  /-- the annotation is not consulted -/
  | plain

def unCase (t : MType) : Option MType → UnCase
  | none => .plain
  | some u =>
    match hasName u with
    | some n =>
      if n = "Final" then .final (argsOf u)
      else if n == "list" || n == "set" then
        match argsOf t with
        | [a] => if isIncorrectAny a then .reparse u else .plain
        | _ => .plain
      else .plain
    | none =>
      match u with
      | .tuple items => .tuple items
      | _ => .plain

/-- `FinalType` around one type, or around the union of several -/
def finalOf : List AType → AType
  | [] => .unknown               -- never observed: `ValueError`
  | [x] => .final x
  | xs => .final (.union xs)

def mapTypeUn (R : Resolve) (t : MType) (un : Option MType) : AType :=
  match unCase t un with
  | .final args => finalOf (mapTypes R args)
  | .reparse u => mapType R u
  | .tuple items => .tuple (mapTypes R items)
  | .plain => mapType R t

def firstErrUn (R : Resolve) (t : MType) (un : Option MType) : Option PyErr :=
  match unCase t un with
  | .final args => orErr (firstErrs R args) (if args.isEmpty then some .valueError else none)
  | .reparse u => firstErr R u
  | .tuple items => firstErrs R items
  | .plain => firstErr R t

def typeVarsOfUn (R : Resolve) (t : MType) (un : Option MType) : List (String × Option AType) :=
  match unCase t un with
  | .final args => typeVarsOfs R args
  | .reparse u => typeVarsOf R u
  | .tuple items => typeVarsOfs R items
  | .plain => typeVarsOf R t

def warningsOfUn (R : Resolve) (t : MType) (un : Option MType) : List String :=
  match unCase t un with
  | .final args => warningsOfs R args
  | .reparse u => warningsOf R u
  | .tuple items => warningsOfs R items
  | .plain => warningsOf R t

end StubGen.Spec.MypyMap
