/-
C05 — the documented structural mapping from API types to Safe-DS type text, written as a pure
compositional function of the type and the naming flag alone (no generator state, no position):
int/str/bool/float → Int/String/Boolean/Float, None → Nothing?, list/Sequence/Collection → List,
dict/Mapping → Map, set → Set, tuple → Tuple, Optional / `| None` → nullable, unions → union with
duplicates removed (None last), Literal → literal, Callable → callable type, classes / enums /
generic classes / type variables → their names (back-quoted when the name is a Safe-DS keyword).
-/
import StubGen.Model.Naming
import StubGen.Model.Api

namespace StubGen.Spec

def builtin (n : String) : Option String :=
  if n == "int" then some "Int" else if n == "str" then some "String" else if n == "bool" then some "Boolean"
  else if n == "float" then some "Float" else if n == "None" then some "Nothing?" else none

def litText : Lit → String
  | .str s => escapeStringLiteral s
  | .bool true => "true"
  | .bool false => "false"
  | .none => "null"
  | .int i => toString i

def isLit : AType → Bool
  | .literal _ => true
  | _ => false

def litsOf : AType → List Lit
  | .literal ls => ls
  | _ => []

/-- the callable result test looks at the name only -/
def isNamedNone : AType → Bool
  | .named n _ => n == "None"
  | _ => false

def isNoneType : AType → Bool
  | .named _ q => q == "builtins.None"
  | _ => false

/-- kinds that may carry the `?` shorthand -/
def nullableKind : AType → Bool
  | .named _ q => q != "builtins.None"
  | .tuple _ | .list _ | .set _ | .dict _ _ => true
  | _ => false

/-- literal values without repetitions, first occurrences kept (`true` and `1` are different literals) -/
def dedupLit (l : List Lit) : List Lit := l.foldl (fun acc a => if acc.contains a then acc else acc ++ [a]) []

def dedup (l : List String) : List String := l.foldl (fun acc a => if acc.contains a then acc else acc ++ [a]) []

/-- union of already rendered members: duplicates removed, sorted, `Nothing?` last; two members one of
    which is `Nothing?` become `T?` when some member is of a nullable kind; one member is itself -/
def unionText (members : List String) (someNullableKind : Bool) : String :=
  let ms := sortStrings (dedup members)
  match ms with
  | [] => ""
  | [m] => m
  | _ =>
    if ms.length == 2 && ms.contains "Nothing?" && someNullableKind then
      (ms.filter (· != "Nothing?")).headD "Nothing?" ++ "?"
    else
      let ms' := if ms.contains "Nothing?" then ms.filter (· != "Nothing?") ++ ["Nothing?"] else ms
      "union<" ++ joinWith ", " ms' ++ ">"

mutual
def typeText (safe : Bool) : AType → String
  | .named n _ => (builtin n).getD (escapeKeyword n)
  | .final t => typeText safe t
  | .list ts => if ts.isEmpty then "List<Any>" else "List<" ++ joinWith ", " (typeTexts safe ts) ++ ">"
  | .set ts => if ts.isEmpty then "Set<Any>" else "Set<" ++ joinWith ", " (typeTexts safe ts) ++ ">"
  | .namedSeq n _ ts =>
    if ts.isEmpty then escapeKeyword n ++ "<Any>" else escapeKeyword n ++ "<" ++ joinWith ", " (typeTexts safe ts) ++ ">"
  | .tuple ts => "Tuple<" ++ joinWith ", " (typeTexts safe ts) ++ ">"
  | .dict k v => "Map<" ++ typeText safe k ++ ", " ++ typeText safe v ++ ">"
  | .literal ls => "literal<" ++ joinWith ", " (ls.map litText) ++ ">"
  | .typeVar n => escapeKeyword (convertName n safe)
  | .typeVarB n _ => escapeKeyword (convertName n safe)
  | .unknown => "unknown"
  | .callable ps r =>
    -- result part: a tuple is a result list, None is no result
    "(" ++ joinWith ", " (namedTexts safe "param_" 1 ps) ++ ") -> " ++
    (match r with
     | .tuple ts => "(" ++ joinWith ", " (namedTexts safe "result_" 1 ts) ++ ")"
     | other => if isNamedNone other then "()" else convertName "result_1" safe ++ ": " ++ typeText safe other)
  | .union ts =>
    -- literal members are merged into one `literal<…>`; together with None alone it absorbs `null`
    let lits := dedupLit ((ts.filter isLit).flatMap litsOf)
    let nLit := (ts.filter isLit).length
    let nOther := (ts.filter (fun t => !isLit t)).length
    if nLit ≥ 1 && nOther == 1 && ts.any isNoneType && (nLit ≥ 2 || ts.length == 2) then
      "literal<" ++ joinWith ", " ((lits ++ [Lit.none]).map litText) ++ ">"
    else if nLit ≥ 2 then
      unionText (nonLitTexts safe ts ++ ["literal<" ++ joinWith ", " (lits.map litText) ++ ">"]) (ts.any nullableKind)
    else unionText (typeTexts safe ts) (ts.any nullableKind)
  | .enum _ => ""
  | .boundary .. => ""
def typeTexts (safe : Bool) : List AType → List String
  | [] => []
  | t :: ts => typeText safe t :: typeTexts safe ts
def nonLitTexts (safe : Bool) : List AType → List String
  | [] => []
  | t :: ts => if isLit t then nonLitTexts safe ts else typeText safe t :: nonLitTexts safe ts
def namedTexts (safe : Bool) (pre : String) (i : Nat) : List AType → List String
  | [] => []
  | t :: ts => (convertName (pre ++ toString i) safe ++ ": " ++ typeText safe t) :: namedTexts safe pre (i + 1) ts
end

mutual
/-- types the stub language can show (everything the analyser produces; `EnumType`/`BoundaryType`
    exist in the type algebra but are never attached to declarations) -/
def renderable : AType → Bool
  | .enum _ => false
  | .boundary .. => false
  | .named n q => n != "" && q != ""
  | .namedSeq _ _ ts => renderableL ts
  | .union ts => renderableL ts
  | .list ts => renderableL ts
  | .set ts => renderableL ts
  | .tuple ts => renderableL ts
  | .dict k v => renderable k && renderable v
  | .callable ps r => renderableL ps && renderable r
  | .final t => renderable t
  | .typeVarB _ _ => true
  | _ => true
def renderableL : List AType → Bool
  | [] => true
  | t :: ts => renderable t && renderableL ts
end

end StubGen.Spec
