/-
C13 — documentation is attached to its own element, line for line, regardless of the order in
which elements are analysed.

Parser side (`Model/Doc.lean`): the single-entry docstring cache `(cached_node, cached_docstring)` is
transparent — every query returns what the cache-less lookup `lookupDoc` returns, from any reachable
cache state, hence for every sequence of queries.
Generator side (`Model/Gen.lean`): the documentation comment is assembled from the element's own
docstring fields, every line of them in order.
Proof machinery and the cache-less specifications of the five queries: `StubGen.Proofs.Doc`.
-/
import StubGen.Proofs.Doc

namespace StubGen.C13

open StubGen

/-! ## 1. The cache invariant -/

/-- (the definition, restated) whatever the cache holds for a name is what the cache-less lookup returns -/
theorem valid_iff (root : GNode) (c : Cache) :
    Cache.Valid root c ↔ ∀ q, c.node = some q → lookupDoc root q = .ok c.doc := Iff.rfl

theorem valid_empty (root : GNode) : Cache.Valid root {} := Cache.valid_empty root

theorem getCached_ok (root : GNode) (c c' : Cache) (q : String) (d : Option GDoc)
    (hv : Cache.Valid root c) (h : getCached root c q = .ok (d, c')) :
    lookupDoc root q = .ok d ∧ Cache.Valid root c' := StubGen.getCached_ok hv h

theorem getCached_error (root : GNode) (c : Cache) (q : String) (e : PyErr)
    (hv : Cache.Valid root c) (h : getCached root c q = .error e) :
    lookupDoc root q = .error e := StubGen.getCached_error hv h

theorem getCached_total (root : GNode) (c : Cache) (q : String) (d : Option GDoc)
    (hv : Cache.Valid root c) (h : lookupDoc root q = .ok d) :
    ∃ c', getCached root c q = .ok (d, c') := StubGen.getCached_total hv h

/-- a cached access returns exactly the cache-less lookup, errors included -/
theorem getCached_transparent (root : GNode) (c : Cache) (q : String) (hv : Cache.Valid root c) :
    (getCached root c q).map Prod.fst = lookupDoc root q := StubGen.getCached_transparent hv

/-! ## 2. The five queries: validity is preserved, the cache content is irrelevant -/

/-- the resulting state of a successful query: same tree, same style, valid cache -/
def StateOk {α : Type} (s : ParserState) (res : Except PyErr (α × ParserState)) : Prop :=
  ∀ a s', res = .ok (a, s') → s'.root = s.root ∧ s'.style = s.style ∧ Cache.Valid s'.root s'.cache

theorem getClassDocumentation_cache_irrelevant (s : ParserState) (n : String) (hv : Cache.Valid s.root s.cache) :
    (getClassDocumentation s n).map Prod.fst = (getClassDocumentation { s with cache := {} } n).map Prod.fst
    ∧ StateOk s (getClassDocumentation s n) :=
  ⟨(getClassDocumentation_agrees s n hv).irrelevant
      (getClassDocumentation_agrees { s with cache := {} } n (Cache.valid_empty _)),
   fun _ _ h => (getClassDocumentation_agrees s n hv).state h⟩

/-- `get_class_documentation` leaves the cache alone -/
theorem getClassDocumentation_cache_untouched (s s' : ParserState) (n : String) (d : Docstring)
    (h : getClassDocumentation s n = .ok (d, s')) : s' = s := getClassDocumentation_state h

theorem getFunctionDocumentation_cache_irrelevant (s : ParserState) (f : String) (hv : Cache.Valid s.root s.cache) :
    (getFunctionDocumentation s f).map Prod.fst = (getFunctionDocumentation { s with cache := {} } f).map Prod.fst
    ∧ StateOk s (getFunctionDocumentation s f) :=
  ⟨(getFunctionDocumentation_agrees s f hv).irrelevant
      (getFunctionDocumentation_agrees { s with cache := {} } f (Cache.valid_empty _)),
   fun _ _ h => (getFunctionDocumentation_agrees s f hv).state h⟩

theorem getParameterDocumentation_cache_irrelevant (s : ParserState) (f p c : String)
    (hv : Cache.Valid s.root s.cache) :
    (getParameterDocumentation s f p c).map Prod.fst
      = (getParameterDocumentation { s with cache := {} } f p c).map Prod.fst
    ∧ StateOk s (getParameterDocumentation s f p c) :=
  ⟨(getParameterDocumentation_agrees s f p c hv).irrelevant
      (getParameterDocumentation_agrees { s with cache := {} } f p c (Cache.valid_empty _)),
   fun _ _ h => (getParameterDocumentation_agrees s f p c hv).state h⟩

theorem getAttributeDocumentation_cache_irrelevant (s : ParserState) (c a : String)
    (hv : Cache.Valid s.root s.cache) :
    (getAttributeDocumentation s c a).map Prod.fst
      = (getAttributeDocumentation { s with cache := {} } c a).map Prod.fst
    ∧ StateOk s (getAttributeDocumentation s c a) :=
  ⟨(getAttributeDocumentation_agrees s c a hv).irrelevant
      (getAttributeDocumentation_agrees { s with cache := {} } c a (Cache.valid_empty _)),
   fun _ _ h => (getAttributeDocumentation_agrees s c a hv).state h⟩

theorem getResultDocumentation_cache_irrelevant (s : ParserState) (f : String) (hv : Cache.Valid s.root s.cache) :
    (getResultDocumentation s f).map Prod.fst = (getResultDocumentation { s with cache := {} } f).map Prod.fst
    ∧ StateOk s (getResultDocumentation s f) :=
  ⟨(getResultDocumentation_agrees s f hv).irrelevant
      (getResultDocumentation_agrees { s with cache := {} } f (Cache.valid_empty _)),
   fun _ _ h => (getResultDocumentation_agrees s f hv).state h⟩

/-- Stronger than cache irrelevance: each query computes a function of `root`, `style` and its own
    arguments that is written without any cache (`Proofs/Doc.lean`: `classDocSpec`, `functionDocSpec`,
    `parameterDocSpec`, `attributeDocSpec`, `resultDocSpec`, all over `lookupDoc`). -/
theorem queries_eq_cacheless_spec (s : ParserState) (hv : Cache.Valid s.root s.cache) :
    (∀ n, (getClassDocumentation s n).map Prod.fst = classDocSpec s.root n)
    ∧ (∀ f, (getFunctionDocumentation s f).map Prod.fst = functionDocSpec s.root f)
    ∧ (∀ f p c, (getParameterDocumentation s f p c).map Prod.fst = parameterDocSpec s.root s.style f p c)
    ∧ (∀ c a, (getAttributeDocumentation s c a).map Prod.fst = attributeDocSpec s.root s.style c a)
    ∧ (∀ f, (getResultDocumentation s f).map Prod.fst = resultDocSpec s.root s.style f) :=
  ⟨fun n => (getClassDocumentation_agrees s n hv).map_fst,
   fun f => (getFunctionDocumentation_agrees s f hv).map_fst,
   fun f p c => (getParameterDocumentation_agrees s f p c hv).map_fst,
   fun c a => (getAttributeDocumentation_agrees s c a hv).map_fst,
   fun f => (getResultDocumentation_agrees s f hv).map_fst⟩

/-! ## 3. Every sequence of queries -/

inductive Query where
  | classDoc (fullname : String)
  | functionDoc (fullname : String)
  | parameterDoc (functionQname parameterName parentClassQname : String)
  | attributeDoc (parentClassQname attributeName : String)
  | resultDoc (functionQname : String)

inductive Answer where
  | classDoc (d : Docstring)
  | functionDoc (d : Docstring)
  | parameterDoc (d : ParamDoc)
  | attributeDoc (d : AttrDoc)
  | resultDoc (ds : List ResultDoc)

/-- one call of the parser's public interface -/
def answer (s : ParserState) : Query → Except PyErr (Answer × ParserState)
  | .classDoc n => (getClassDocumentation s n).map fun r => (Answer.classDoc r.1, r.2)
  | .functionDoc f => (getFunctionDocumentation s f).map fun r => (Answer.functionDoc r.1, r.2)
  | .parameterDoc f p c => (getParameterDocumentation s f p c).map fun r => (Answer.parameterDoc r.1, r.2)
  | .attributeDoc c a => (getAttributeDocumentation s c a).map fun r => (Answer.attributeDoc r.1, r.2)
  | .resultDoc f => (getResultDocumentation s f).map fun r => (Answer.resultDoc r.1, r.2)

/-- the answers to a sequence of calls, the parser state (its cache) threaded through; the first
    exception aborts the run: it is the last entry -/
def runAll (s : ParserState) : List Query → List (Except PyErr Answer)
  | [] => []
  | q :: qs =>
    match answer s q with
    | .error e => [.error e]
    | .ok (a, s') => .ok a :: runAll s' qs

/-- (the definition, restated) `untilError` cuts a list of outcomes after its first error -/
theorem untilError_def {α : Type} (e : PyErr) (a : α) (rest : List (Except PyErr α)) :
    untilError ([] : List (Except PyErr α)) = []
    ∧ untilError (.error e :: rest) = [.error e]
    ∧ untilError (.ok a :: rest) = .ok a :: untilError rest := ⟨rfl, rfl, rfl⟩

/-- the cache-less answer to a query -/
def answerSpec (root : GNode) (style : DocStyle) : Query → Except PyErr Answer
  | .classDoc n => (classDocSpec root n).map Answer.classDoc
  | .functionDoc f => (functionDocSpec root f).map Answer.functionDoc
  | .parameterDoc f p c => (parameterDocSpec root style f p c).map Answer.parameterDoc
  | .attributeDoc c a => (attributeDocSpec root style c a).map Answer.attributeDoc
  | .resultDoc f => (resultDocSpec root style f).map Answer.resultDoc

theorem answer_agrees (s : ParserState) (q : Query) (hv : Cache.Valid s.root s.cache) :
    Agrees s (answer s q) (answerSpec s.root s.style q) := by
  cases q with
  | classDoc n => exact (getClassDocumentation_agrees s n hv).map Answer.classDoc
  | functionDoc f => exact (getFunctionDocumentation_agrees s f hv).map Answer.functionDoc
  | parameterDoc f p c => exact (getParameterDocumentation_agrees s f p c hv).map Answer.parameterDoc
  | attributeDoc c a => exact (getAttributeDocumentation_agrees s c a hv).map Answer.attributeDoc
  | resultDoc f => exact (getResultDocumentation_agrees s f hv).map Answer.resultDoc

/-- one query, from any valid cache: the same answer as from the empty cache, and a valid cache after -/
theorem answer_cache_irrelevant (s : ParserState) (q : Query) (hv : Cache.Valid s.root s.cache) :
    (answer s q).map Prod.fst = (answer { s with cache := {} } q).map Prod.fst
    ∧ StateOk s (answer s q) :=
  ⟨(answer_agrees s q hv).irrelevant (answer_agrees { s with cache := {} } q (Cache.valid_empty _)),
   fun _ _ h => (answer_agrees s q hv).state h⟩

/-- from any valid state, the run equals the independent cache-less answers cut after the first error -/
theorem runAll_eq_spec (s : ParserState) (qs : List Query) (hv : Cache.Valid s.root s.cache) :
    runAll s qs = untilError (qs.map (answerSpec s.root s.style)) := by
  induction qs generalizing s with
  | nil => rfl
  | cons q qs ih =>
    have h := answer_agrees s q hv
    unfold runAll
    simp only [List.map_cons]
    cases hr : answer s q with
    | error e =>
      rw [hr] at h
      rw [h.of_error]; rfl
    | ok r =>
      obtain ⟨a, s'⟩ := r
      rw [hr] at h
      obtain ⟨h1, h2, h3, h4⟩ := h.of_ok
      simp only [h1, untilError]
      rw [ih s' h4, h2, h3]

/-- **the cache is transparent for every sequence of queries**: running them in sequence with the
    cache gives exactly the list of answers each query gets on its own from the empty cache, cut
    after the first exception -/
theorem cache_transparent (root : GNode) (style : DocStyle) (qs : List Query) :
    runAll { root := root, style := style, cache := {} } qs
      = untilError (qs.map fun q => (answer { root := root, style := style, cache := {} } q).map Prod.fst) := by
  rw [runAll_eq_spec _ qs (Cache.valid_empty root)]
  congr 1
  apply List.map_congr_left
  intro q _
  exact ((answer_agrees { root := root, style := style, cache := {} } q (Cache.valid_empty root)).map_fst).symm

/-- the same from any reachable (valid) cache state instead of the empty one -/
theorem cache_transparent_from_valid (s : ParserState) (qs : List Query) (hv : Cache.Valid s.root s.cache) :
    runAll s qs = runAll { s with cache := {} } qs := by
  rw [runAll_eq_spec s qs hv, runAll_eq_spec { s with cache := {} } qs (Cache.valid_empty _)]

/-- the answer at position `i` of a run does not depend on the queries before it: whenever the run
    gets that far, it is the answer the `i`-th query gets on its own -/
theorem answer_independent_of_history (root : GNode) (style : DocStyle) (qs : List Query) (i : Nat)
    (r : Except PyErr Answer) (h : (runAll { root := root, style := style, cache := {} } qs)[i]? = some r) :
    ∃ q, qs[i]? = some q ∧ r = (answer { root := root, style := style, cache := {} } q).map Prod.fst := by
  rw [cache_transparent] at h
  exact untilError_map_getElem? _ qs i r h

/-- if no query raises, analysing the elements in another order permutes the answers and changes none -/
theorem order_irrelevant (root : GNode) (style : DocStyle) (qs qs' : List Query) (hp : qs.Perm qs')
    (hok : ∀ q ∈ qs, ∃ a, (answer { root := root, style := style, cache := {} } q).map Prod.fst = .ok a) :
    (runAll { root := root, style := style, cache := {} } qs).Perm
      (runAll { root := root, style := style, cache := {} } qs')
    ∧ runAll { root := root, style := style, cache := {} } qs
        = qs.map fun q => (answer { root := root, style := style, cache := {} } q).map Prod.fst := by
  have h1 := untilError_map_of_ok _ qs hok
  have h2 := untilError_map_of_ok _ qs' (fun q hq => hok q (hp.mem_iff.mpr hq))
  rw [cache_transparent, cache_transparent, h1, h2]
  exact ⟨hp.map _, rfl⟩

/-! ## 4. The documentation comment, line for line -/

/-- the decoration of a continuation line (restated): ` * ` and the line, or a bare ` *` for an empty line -/
theorem docLine_def (indent l : String) :
    docLine indent l = if l ≠ "" then indent ++ " * " ++ l else indent ++ " *" := rfl

theorem splitLines_ne_nil (s : String) : splitLines s ≠ [] := StubGen.splitLines_ne_nil s

/-- (a) every line of the description (surrounding newlines stripped) appears, in order: the first one
    directly (behind the decoration the caller supplies), each further one behind `indent ++ " * "` -/
theorem descriptionPart_lines (d indent : String) :
    descriptionPart d indent
      = joinWith "\n" ((splitLines (pyLstrip (pyRstrip d "\n") "\n")).head (splitLines_ne_nil _)
          :: (splitLines (pyLstrip (pyRstrip d "\n") "\n")).tail.map
              (fun l => if l ≠ "" then indent ++ " * " ++ l else indent ++ " *")) ++ "\n" :=
  descriptionPart_eq d indent

/-- (b) the description-only comment -/
theorem sdsDocstringDescription_form (d indent : String) :
    sdsDocstringDescription d indent
        = (if d = "" then "" else indent ++ "/**\n" ++ indent ++ " * " ++ descriptionPart d indent ++ indent ++ " */\n")
    ∧ (sdsDocstringDescription d indent = "" ↔ d = "") :=
  ⟨sdsDocstringDescription_eq d indent, sdsDocstringDescription_eq_empty_iff d indent⟩

/-- (a, read back) splitting the description part at newlines gives exactly the description's lines,
    decorated, in order (and the empty string after the final newline) -/
theorem descriptionPart_line_for_line (d indent : String) (hi : '\n' ∉ indent.toList) :
    splitLines (descriptionPart d indent)
      = (splitLines (pyLstrip (pyRstrip d "\n") "\n")).head (splitLines_ne_nil _)
        :: (splitLines (pyLstrip (pyRstrip d "\n") "\n")).tail.map (docLine indent) ++ [""] :=
  splitLines_descriptionPart d indent hi

/-- (b, read back) the complete description-only comment (modules, properties, attributes), line by line -/
theorem sdsDocstringDescription_line_for_line (d indent : String) (hd : d ≠ "") (hi : '\n' ∉ indent.toList) :
    splitLines (sdsDocstringDescription d indent)
      = (indent ++ "/**")
        :: (indent ++ " * " ++ (splitLines (pyLstrip (pyRstrip d "\n") "\n")).head (splitLines_ne_nil _))
        :: ((splitLines (pyLstrip (pyRstrip d "\n") "\n")).tail.map (docLine indent) ++ [indent ++ " */", ""]) :=
  splitLines_sdsDocstringDescription d indent hd hi

/-- the four blocks (restated) -/
theorem blocks_def (safe : Bool) (desc indent : String) (params : List Parameter) (examples : List String) :
    descBlock desc indent = (if desc = "" then "" else indent ++ " * " ++ descriptionPart desc indent)
    ∧ paramBlock safe indent params
        = String.join ((params.filter fun p => p.doc.description != "").map fun p =>
            indent ++ " * @param " ++ convertName p.name safe ++ " " ++ descriptionPart p.doc.description indent)
    ∧ exampleBlock indent examples = joinWith (indent ++ " *\n") (examples.map (exampleText indent))
    ∧ (∀ before after, sepIf indent before after = if before ≠ "" ∧ after ≠ "" then indent ++ " *\n" else "") :=
  ⟨rfl, rfl, rfl, fun _ _ => rfl⟩

/-- (c) the comment is the concatenation of the description block, the `@param` block (the documented
    parameters, in parameter order), the `@result` block and the example block, a ` *` line exactly
    between two non-empty neighbours; it is empty iff all four blocks are -/
theorem sdsDocstring_blocks (safe : Bool) (desc indent : String) (params : List Parameter)
    (resultDocs : List ResultDoc) (examples : List String) :
    sdsDocstring safe desc indent params resultDocs examples
      = if descBlock desc indent = "" ∧ paramBlock safe indent params = ""
            ∧ resultDocLines safe indent 1 resultDocs = "" ∧ exampleBlock indent examples = "" then ""
        else indent ++ "/**\n"
          ++ descBlock desc indent
          ++ sepIf indent (descBlock desc indent) (paramBlock safe indent params)
          ++ paramBlock safe indent params
          ++ sepIf indent (descBlock desc indent ++ paramBlock safe indent params) (resultDocLines safe indent 1 resultDocs)
          ++ resultDocLines safe indent 1 resultDocs
          ++ sepIf indent (descBlock desc indent ++ paramBlock safe indent params ++ resultDocLines safe indent 1 resultDocs)
               (exampleBlock indent examples)
          ++ exampleBlock indent examples
          ++ indent ++ " */\n" :=
  sdsDocstring_blocks_eq safe desc indent params resultDocs examples

/-- (c, equivalently) the non-empty blocks joined by the ` *` line -/
theorem sdsDocstring_blocks_join (safe : Bool) (desc indent : String) (params : List Parameter)
    (resultDocs : List ResultDoc) (examples : List String) :
    sdsDocstring safe desc indent params resultDocs examples
      = if joinWith (indent ++ " *\n") ([descBlock desc indent, paramBlock safe indent params,
            resultDocLines safe indent 1 resultDocs, exampleBlock indent examples].filter (· ≠ "")) = "" then ""
        else indent ++ "/**\n"
          ++ joinWith (indent ++ " *\n") ([descBlock desc indent, paramBlock safe indent params,
            resultDocLines safe indent 1 resultDocs, exampleBlock indent examples].filter (· ≠ ""))
          ++ indent ++ " */\n" :=
  sdsDocstring_blocks_join_eq safe desc indent params resultDocs examples

/-- (c) no comment at all iff there is nothing to document -/
theorem sdsDocstring_empty_iff (safe : Bool) (desc indent : String) (params : List Parameter)
    (resultDocs : List ResultDoc) (examples : List String) :
    sdsDocstring safe desc indent params resultDocs examples = ""
      ↔ desc = "" ∧ (∀ p ∈ params, p.doc.description = "") ∧ (∀ r ∈ resultDocs, r.description = "")
          ∧ examples = [] :=
  sdsDocstring_eq_empty_iff safe desc indent params resultDocs examples

/-- (d) one `@result` entry per result docstring with a non-empty description, in order; a named one
    under its (converted) name, the unnamed ones under `result_1`, `result_2`, … counted among the
    unnamed documented results; the description's lines in order, continuation lines behind ` * ` -/
theorem resultDocLines_spec (safe : Bool) (indent : String) (k : Nat) (rds : List ResultDoc) :
    resultDocLines safe indent k rds
      = String.join ((rds.filter (fun r => r.description != "")).mapIdx fun i rd =>
          indent ++ " * @result "
            ++ convertName (if rd.name ≠ "" then rd.name
                else resultName (k + ((rds.filter (fun r => r.description != "")).take i).countP (fun r => r.name == ""))) safe
            ++ " " ++ joinWith ("\n" ++ indent ++ " * ") (splitLines rd.description) ++ "\n") :=
  resultDocLines_eq safe indent k rds

/-- the code line of an example line (restated) -/
theorem exampleCodeLine_def (part : String) :
    exampleCodeLine part
      = if pyStartsWith part ">>>" then some (pyReplace part ">>>" "//")
        else if pyStartsWith part "..." then some (pyReplace part "..." "//")
        else none := rfl

/-- (e) the `>>>` / `...` lines of the example appear in order, each behind `indent ++ " *     "`, with
    the marker replaced by `//` — `str.replace`, i.e. EVERY occurrence of the marker in the line, see
    the counterexample below; all other lines are dropped -/
theorem exampleText_lines (indent ex : String) :
    exampleText indent ex
      = indent ++ " * @example\n" ++ indent ++ " * pipeline example {\n"
        ++ String.join (((splitLines ex).filterMap exampleCodeLine).map fun l => indent ++ " *     " ++ l ++ "\n")
        ++ indent ++ " * }\n" :=
  exampleText_eq indent ex

/-- "the line with the FIRST marker replaced" is false of the model (and of `str.replace`): -/
example : exampleCodeLine ">>> a >>> b" = some "// a // b" := by decide
example : exampleCodeLine ">>> a >>> b" ≠ some "// a >>> b" := by decide
example : exampleCodeLine "... x[...]" = some "// x[//]" := by decide

/-- (e, the "first marker" reading) it holds for a line that carries its marker at the start only -/
theorem exampleText_lines_partial (part : String) (rest : List Char) :
    (part.toList = ">>>".toList ++ rest → isInfixOfL ">>>".toList rest = false →
      exampleCodeLine part = some ("//" ++ String.ofList rest))
    ∧ (part.toList = "...".toList ++ rest → isInfixOfL "...".toList rest = false →
      exampleCodeLine part = some ("//" ++ String.ofList rest)) := by
  constructor
  · intro hp hno
    have hs : pyStartsWith part ">>>" = true := by
      unfold pyStartsWith; rw [hp]; exact isPrefixOfL_append _ _
    rw [exampleCodeLine_def]
    simp only [hs, if_true]
    rw [pyReplace_prefix_once part ">>>" "//" rest (by decide) hp hno]
  · intro hp hno
    have hs : pyStartsWith part "..." = true := by
      unfold pyStartsWith; rw [hp]; exact isPrefixOfL_append _ _
    have hs' : pyStartsWith part ">>>" = false := by
      unfold pyStartsWith; rw [hp]; rfl
    rw [exampleCodeLine_def]
    simp only [hs, hs', if_true, Bool.false_eq_true, if_false]
    rw [pyReplace_prefix_once part "..." "//" rest (by decide) hp hno]

/-! ## 5. The comment of an element is made of that element's docstring fields only -/

/-- the documentation comments the generator attaches (`Model/Gen.lean`: `createFunctionString`,
    `createClass`, `createAttribute`) -/
def functionComment (safe : Bool) (indent : String) (f : Function) : String :=
  sdsDocstring safe f.doc.description indent f.params f.resultDocs f.doc.examples

def ctorParams (c : Class) : List Parameter :=
  match c.ctor with
  | some ctor => ctor.params
  | none => []

def classComment (safe : Bool) (indent : String) (c : Class) : String :=
  sdsDocstring safe c.doc.description indent (ctorParams c) [] c.doc.examples

def attributeComment (safe : Bool) (indent : String) (a : Attribute) : String :=
  sdsDocstring safe a.doc.description indent [] [] []

/-- The comment of a function is determined by its own description, its own parameters' names and
    descriptions, its own result names and descriptions and its own examples.  No other element of the
    API is an argument of `functionComment`, so no other element can influence it. -/
theorem attached_to_own_element (safe : Bool) (indent : String) (f g : Function)
    (hd : f.doc.description = g.doc.description)
    (hp : f.params.map (fun p => (p.name, p.doc.description)) = g.params.map (fun p => (p.name, p.doc.description)))
    (hr : f.resultDocs.map (fun r => (r.name, r.description)) = g.resultDocs.map (fun r => (r.name, r.description)))
    (he : f.doc.examples = g.doc.examples) :
    functionComment safe indent f = functionComment safe indent g := by
  unfold functionComment
  rw [hd, he]
  exact sdsDocstring_congr safe indent _ _ _ _ _ _ hp hr

theorem attached_to_own_class (safe : Bool) (indent : String) (c c' : Class)
    (hd : c.doc.description = c'.doc.description)
    (hp : (ctorParams c).map (fun p => (p.name, p.doc.description))
        = (ctorParams c').map (fun p => (p.name, p.doc.description)))
    (he : c.doc.examples = c'.doc.examples) :
    classComment safe indent c = classComment safe indent c' := by
  unfold classComment
  rw [hd, he]
  exact sdsDocstring_congr safe indent _ _ _ _ _ _ hp rfl

/-- an attribute's comment is the description-only comment of its own description -/
theorem attached_to_own_attribute (safe : Bool) (indent : String) (a : Attribute) :
    attributeComment safe indent a = sdsDocstringDescription a.doc.description indent :=
  sdsDocstring_description_only safe a.doc.description indent

/-! ## Non-vacuity: a concrete tree `pkg` → `m` → class `C` (with `__init__`) and function `f` -/

def initDoc : GDoc :=
  { value := "Create a C.\n\nParameters\n----------\ny : int\n    the y of __init__\n",
    parsed := [.text "Create a C.", .parameters [{ name := "y", annotation := some (.name "int" "int"), description := "the y of __init__", default := none }]] }

def classDoc : GDoc :=
  { value := "A class.\n\nParameters\n----------\nx : str\n    the x\n",
    parsed := [.text "A class.",
      .parameters [{ name := "x", annotation := some (.name "str" "str"), description := "the x", default := some "'a'" }],
      .attributes [{ name := "a", annotation := none, description := "the attribute a", default := none }],
      .examples [">>> C('a')\n... .go()\nC()"]] }

def fDoc : GDoc :=
  { value := "Compute.\n\nReturns\n-------\nr : int\n    the result\n",
    parsed := [.text "Compute.", .returns [{ name := "r", annotationIsNone := false, annotation := some (.name "int" "int"), nameAsAnnotation := none, description := "the result" }]] }

def nodeC : GNode :=
  { name := "C", isClass := true, docstring := some classDoc,
    functions := [{ name := "__init__", docstring := some initDoc }] }

def nodeM : GNode :=
  { name := "m", classes := [nodeC], functions := [{ name := "f", docstring := some fDoc }] }

def tree : GNode := { name := "pkg", modules := [nodeM] }

def s0 : ParserState := { root := tree, style := .numpy }

def qs : List Query :=
  [ .parameterDoc "pkg.m.C.__init__" "x" "pkg/m/C",   -- miss: caches `pkg.m.C`
    .parameterDoc "pkg.m.C.__init__" "y" "pkg/m/C",   -- hit on `pkg.m.C`, then `…__init__` (bypass)
    .functionDoc "pkg.m.f",                           -- miss
    .resultDoc "pkg.m.f",                             -- hit
    .attributeDoc "pkg/m/C" "a",                      -- miss
    .classDoc "pkg.m.C",                              -- cache untouched
    .functionDoc "pkg.m.C.__init__",                  -- bypass
    .functionDoc "pkg.m.C.__init__",                  -- same name again: still recomputed
    .parameterDoc "pkg.m.f" "x" "",
    .functionDoc "pkg.m.nope",                        -- ValueError: the run stops here
    .functionDoc "pkg.m.f" ]

set_option maxRecDepth 100000 in
example : runAll s0 qs =
  [ .ok (.parameterDoc { type := some (.named "str" "builtins.str"), defaultValue := "'a'", description := "the x" }),
    .ok (.parameterDoc { type := some (.named "int" "builtins.int"), defaultValue := "", description := "the y of __init__" }),
    .ok (.functionDoc { description := "Compute.", fullDocstring := "Compute.\n\nReturns\n-------\nr : int\n    the result", examples := [] }),
    .ok (.resultDoc [{ type := some (.named "int" "builtins.int"), description := "the result", name := "r" }]),
    .ok (.attributeDoc { type := none, description := "the attribute a" }),
    .ok (.classDoc { description := "A class.", fullDocstring := "A class.\n\nParameters\n----------\nx : str\n    the x", examples := [">>> C('a')\n... .go()\nC()"] }),
    .ok (.functionDoc { description := "Create a C.", fullDocstring := "Create a C.\n\nParameters\n----------\ny : int\n    the y of __init__", examples := [] }),
    .ok (.functionDoc { description := "Create a C.", fullDocstring := "Create a C.\n\nParameters\n----------\ny : int\n    the y of __init__", examples := [] }),
    .ok (.parameterDoc {}),
    .error .valueError ] := by rfl

/-- the cache after the first query holds `pkg.m.C`; after the second (numpy fallback to the constructor) `pkg.m.C.__init__` -/
example : (answer s0 (.parameterDoc "pkg.m.C.__init__" "x" "pkg/m/C")).map (·.2.cache.node) = .ok (some "pkg.m.C") := by rfl
example : (runAll s0 (qs.take 2)).length = 2 := by rfl

/-- a valid non-empty cache, and an invalid one from which the cached access does return a wrong docstring
    (so `Cache.Valid` is a real hypothesis) -/
example : Cache.Valid tree { node := some "pkg.m.C", doc := some classDoc } := by
  intro q h; cases h; rfl
example : ¬ Cache.Valid tree { node := some "pkg.m.C", doc := none } := by
  intro h
  have := h "pkg.m.C" rfl
  cases this
example : (getCached tree { node := some "pkg.m.C", doc := none } "pkg.m.C").map (fun r => r.1.isSome) = .ok false
    ∧ (lookupDoc tree "pkg.m.C").map (fun r => r.isSome) = .ok true := by
  constructor <;> rfl

/-! generator side: description lines, a documented and an undocumented parameter, named and unnamed
    results (one without description), an example with a non-code line -/
def pX : Parameter :=
  { id := "p/x", name := "x_val", isOptional := false, default := .none, assignedBy := .positionOrName,
    doc := { description := "the x\n\nsecond paragraph" }, type := none }
def pY : Parameter :=
  { id := "p/y", name := "y", isOptional := false, default := .none, assignedBy := .positionOrName,
    doc := {}, type := none }

set_option maxRecDepth 1000000 in
example : sdsDocstring true "Line one.\nLine two.\n" "    " [pX, pY]
    [{ description := "first" }, { description := "" }, { description := "named", name := "out_val" }, { description := "third\nmore" }]
    [">>> f(1)\n... + 2\n3"]
  = "    /**\n     * Line one.\n     * Line two.\n     *\n     * @param xVal the x\n     *\n     * second paragraph\n     *\n     * @result result1 first\n     * @result outVal named\n     * @result result2 third\n     * more\n     *\n     * @example\n     * pipeline example {\n     *     // f(1)\n     *     // + 2\n     * }\n     */\n" := by decide

example : splitLines (sdsDocstringDescription "\nFirst line.\n\nThird line.\n\n" "  ")
    = ["  /**", "   * First line.", "   *", "   * Third line.", "   */", ""] := by decide

end StubGen.C13
