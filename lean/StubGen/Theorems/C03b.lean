/-
C03 — whole-tool part: the emission log of a complete run of `_run_stub_generator`.
-/
import StubGen.Proofs.Pipeline
import StubGen.Theorems.C03

namespace StubGen.C03b

open StubGen

/-- END TO END: the emission log of a completed run of the whole tool is a function of the API the walk produced: the module
    stubs of every analysed module but the `__init__` files, in the order of `api.modules`, each with the log of its public
    declarations (`C03.module_log`), then the re-export stubs of everything queued on the way (`C03.reexport_phase_log`).
    Nothing else is ever emitted, nothing of it is emitted twice by the run itself. -/
theorem tool_emission_log {i : ToolInput} {o : ToolOutput} (h : runTool i = .ok o) :
    let env : Env := { api := o.api.toApi o.packageName, safe := i.safe }
    o.gen.log =
      ((o.api.modules.filter fun m => m.name != "__init__").flatMap fun m => ("module", m.id) :: n03_moduleLog env m.id m)
      ++ n03_reexportPhaseLog env (n03_enqueue []
          ((o.api.modules.filter fun m => m.name != "__init__").flatMap fun m => n03_moduleQueue env m.id m)) := by
  obtain ⟨root, d, r, ws, text, gen, _, _, _, hg, ho⟩ := pl_runTool_ok h
  subst ho
  dsimp only
  unfold runGenerator at hg
  dsimp only at hg
  cases hs : (generateStubData { api := r.toApi (pathStem root), safe := i.safe }).run {} with
  | error e => simp [hs] at hg
  | ok rs =>
    obtain ⟨stubs, st⟩ := rs
    simp only [hs] at hg
    cases hc : createStubFiles i.safe stubs st.outside i.preexisting with
    | error e => simp [hc] at hg
    | ok ops =>
      simp only [hc, Except.ok.injEq] at hg
      subst hg
      have := C03.whole_run_log { api := r.toApi (pathStem root), safe := i.safe } {} st stubs hs rfl
      simpa [AnaResult.toApi] using this

end StubGen.C03b
