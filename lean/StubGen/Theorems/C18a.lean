/-
C18 — analyser half: the walk of a module does not read the API tables that other modules filled.
-/
import StubGen.Proofs.TableLocal

namespace StubGen.C18a

open StubGen

/-- the part of the walk of one file that builds the `Module` record: `enter_moduledef`, then the definitions -/
def buildModule (env : AEnv) (m : SrcModule) : V Unit := do
  enterModuledef m
  walkDefs env .module m.defs

theorem buildModule_sim (env : AEnv) (m : SrcModule) : t18_Sim (buildModule env m) (buildModule env m) := by
  unfold buildModule
  exact t18_Sim.bind (t18_enterModuledef_sim m) (fun _ => t18_walkDefs_sim env .module m.defs)

/-- THE WALK OF A MODULE IS BLIND TO THE API TABLES.  Run the analysis of one file from a state `s` and from the same state
    with ALL tables of the API object (`modules`, `classes`, `functions`, `results`, `enums`, `enum_instances`,
    `attributes`, `parameters`) replaced by arbitrary other contents `u` — i.e. after any other modules whatsoever have been
    analysed, or none: both runs raise the same error, or both succeed and their final states agree in everything but those
    tables: the declaration stack, the docstring cache, the type-variable set, the warning log, the re-export map. -/
theorem walk_module_blind_to_tables (env : AEnv) (m : SrcModule) (s : VSt) (u : AnaResult) :
    t18_Rel (walkModule env m s) (walkModule env m (t18_setT s u)) :=
  (t18_walkModule_sim env m).run s u

/-- … in particular the `Module` record under construction — the top of the declaration stack just before
    `leave_moduledef` stores it — is THE SAME record, with the same classes, functions, enums, ids, types, publicity flags,
    `reexported_by` lists and docstrings, whatever the tables contained. -/
theorem module_record_local (env : AEnv) (m : SrcModule) (s t : VSt) (u : AnaResult)
    (h : buildModule env m s = .ok ((), t)) :
    ∃ t', buildModule env m (t18_setT s u) = .ok ((), t') ∧ t'.stack = t.stack ∧ t'.warnings = t.warnings ∧
      t'.doc = t.doc ∧ t'.api.reexportMap = t.api.reexportMap := by
  have hr := (buildModule_sim env m).run s u
  rw [h] at hr
  cases h' : buildModule env m (t18_setT s u) with
  | error e => rw [h'] at hr; exact hr.elim
  | ok r =>
    obtain ⟨a, t'⟩ := r
    rw [h'] at hr
    obtain ⟨_, ht⟩ := hr
    refine ⟨t', rfl, ?_, ?_, ?_, ?_⟩ <;> rw [ht]

/-- … and the same for a whole sequence of files: the warnings that are logged and the error that ends the run do not
    depend on the tables either -/
theorem walk_modules_blind_to_tables (env : AEnv) (ms : List SrcModule) (s : VSt) (u : AnaResult) :
    t18_Rel (walkModules env ms s) (walkModules env ms (t18_setT s u)) :=
  (t18_walkModules_sim env ms).run s u

/-- the channels that remain (each a kernel-checked witness elsewhere): the alias table keyed by short name
    (`C18b.same_short_name_interferes`), the re-export map with its suffix matching (`C04a.suffix_interference`), the
    docstring tree.  `t18_setT` keeps exactly the re-export map of the API object: -/
example (s : VSt) (u : AnaResult) : (t18_setT s u).api.reexportMap = s.api.reexportMap ∧ (t18_setT s u).api.functions = u.functions :=
  ⟨rfl, rfl⟩

end StubGen.C18a
