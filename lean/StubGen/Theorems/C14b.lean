/-
C14 — whole-tool part: the warning option changes nothing of what `_run_stub_generator` writes.
-/
import StubGen.Proofs.Pipeline
import StubGen.Theorems.C14

namespace StubGen.C14b

open StubGen

theorem map_fst_cases {a1 a2 : Except PyErr (AnaResult × List String)} (h : a1.map Prod.fst = a2.map Prod.fst) :
    (∃ e, a1 = .error e ∧ a2 = .error e) ∨ (∃ r ws ws', a1 = .ok (r, ws) ∧ a2 = .ok (r, ws')) := by
  cases a1 with
  | error e =>
    cases a2 with
    | error e' => simp only [Except.map, Except.error.injEq] at h; subst h; exact Or.inl ⟨e, rfl, rfl⟩
    | ok r => simp [Except.map] at h
  | ok r =>
    cases a2 with
    | error e' => simp [Except.map] at h
    | ok r' =>
      obtain ⟨a, ws⟩ := r
      obtain ⟨a', ws'⟩ := r'
      simp only [Except.map, Except.ok.injEq] at h
      subst h
      exact Or.inr ⟨a, ws, ws', rfl, rfl⟩

/-- `get_api` under the two settings: the same error, or results that differ in the warning list only -/
theorem getApi_warning_option (i : ToolInput) (w : Bool) :
    (∃ e, getApi { i with opts := { i.opts with warn := w } } = .error e ∧ getApi i = .error e) ∨
    (∃ a ws, getApi { i with opts := { i.opts with warn := w } } = .ok { a with warnings := ws } ∧ getApi i = .ok a) := by
  unfold getApi
  dsimp only
  cases hd : discoverSorted i.srcDir i.files i.isTestRun with
  | error e => exact Or.inl ⟨e, rfl, rfl⟩
  | ok rd =>
    obtain ⟨root, d⟩ := rd
    dsimp only
    have hw := C14.warning_pure { opts := i.opts, aliases := getAliases (pathStem root) i.aliasFacts, infoBases := i.infoBases } w i.docRoot (selectModules i.graph d)
    dsimp only at hw
    rcases map_fst_cases hw with ⟨e, h1, h2⟩ | ⟨r, ws, ws', h1, h2⟩
    · left; exact ⟨e, by rw [h2], by rw [h1]⟩
    · right
      refine ⟨{ packageName := pathStem root, walked := selectModules i.graph d, aliases := getAliases (pathStem root) i.aliasFacts, api := r, warnings := ws }, ws', ?_, ?_⟩
      · rw [h2]
      · rw [h1]

/-- END TO END: two runs of the whole tool that differ only in the type-source WARNING option end alike — the same error, or
    the same package, walked modules, alias table, API, API file text, stubs and write operations; only the list of logged
    warnings may differ. -/
theorem tool_warning_option_pure (i : ToolInput) (w : Bool) :
    (runTool { i with opts := { i.opts with warn := w } }).map (fun o => { o with warnings := [] })
      = (runTool i).map (fun o => { o with warnings := [] }) := by
  unfold runTool
  rcases getApi_warning_option i w with ⟨e, h1, h2⟩ | ⟨a, ws, h1, h2⟩
  · rw [h1, h2]
  · rw [h1, h2]
    dsimp only
    cases apiJsonText a.packageName a.api with
    | error e => rfl
    | ok text =>
      dsimp only
      cases runGenerator (a.api.toApi a.packageName) i.safe i.preexisting with
      | error e => rfl
      | ok gen => rfl

end StubGen.C14b
