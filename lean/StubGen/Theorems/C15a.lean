/-
C15a — which files are analysed: the root adjustment (`_get_nearest_init_dirs`, `get_api` lines 31-33),
the composed discovery step (`discoverFrom`) and the AST selection (`selectAsts`).

 1. `nearestInitDirs_loop_eq`: the model's min-based `nearestInitDirs` computes what the imperative
    loop of the Python code (`x15_loop`, a literal fold with the three branches) computes.
 2. `nearestInitDirs_spec` / `nearestInitDirs_order` / `nearestInitDirs_perm` / `adjustRoot_perm`.
 3. `adjustRoot_spec`, `adjustRoot_root_package_partial`, `adjustRoot_idempotent`, `adjustRoot_below`.
 4. `discoverFrom_eq` / `discoverFrom_spec`.
 5. `selectAsts_spec` / `selectAsts_order` / `selectAsts_sublist_perm`.
 6. kernel-checked examples.

Helper lemmas are in `Proofs/Roots.lean` (prefix `x15_`); C15 (`filter_spec`, `no_files_error`) and
C08 (`discoverFrom_enumeration_order`) are imported and reused.
-/
import StubGen.Proofs.Roots
import StubGen.Theorems.C15
import StubGen.Theorems.C08

namespace StubGen.C15a

open List

/-! ### 1. the model implements the full loop -/

/-- `_get_nearest_init_dirs` as written (state `(shortest_len, shortest_init_paths)`, `-1` = `none`):
    ```
    x15_step st init =
      match st.1 with
      | none => (some init.length, st.2 ++ [init.dropLast])
      | some shortest =>
        if init.length ≤ shortest then
          if init.length = shortest then (some shortest, st.2 ++ [init.dropLast])
          else (some init.length, [init.dropLast])
        else st
    x15_loop inits = inits.foldl x15_step (none, [])
    ```
    For every list of files the model's declarative definition returns the list the loop returns on
    `all_inits` (the `__init__.py` files, in glob order). -/
theorem nearestInitDirs_loop_eq (files : List PathParts) :
    nearestInitDirs files = (x15_loop (files.filter isInitFile)).2 :=
  x15_loop_eq files

/-- the loop body, for reference (definitional) -/
theorem loop_step_eq (st : Option Nat × List PathParts) (init : PathParts) :
    x15_step st init =
      match st.1 with
      | none => (some init.length, st.2 ++ [init.dropLast])
      | some shortest =>
        if init.length ≤ shortest then
          if init.length = shortest then (some shortest, st.2 ++ [init.dropLast])
          else (some init.length, [init.dropLast])
        else st := rfl

theorem loop_eq (inits : List PathParts) : x15_loop inits = inits.foldl x15_step (none, []) := rfl

/-- the other component of the loop state: `shortest_len` stays `-1` iff there is no `__init__.py`,
    otherwise it is the least number of components -/
theorem loop_shortest_len (files : List PathParts) :
    ((x15_loop (files.filter isInitFile)).1 = none ↔ ∀ f ∈ files, isInitFile f = false) ∧
    (∀ m, (x15_loop (files.filter isInitFile)).1 = some m →
      (∃ f ∈ files, isInitFile f = true ∧ f.length = m) ∧ ∀ g ∈ files, isInitFile g = true → m ≤ g.length) := by
  rw [x15_loop_fst]
  cases hi : files.filter isInitFile with
  | nil =>
    refine ⟨⟨fun _ f hf => ?_, fun _ => rfl⟩, fun m hm => (by cases hm)⟩
    by_contra hc
    have : f ∈ files.filter isInitFile := List.mem_filter.2 ⟨hf, by simpa using hc⟩
    rw [hi] at this; cases this
  | cons i is =>
    have hi_mem : i ∈ files.filter isInitFile := by rw [hi]; simp
    refine ⟨⟨fun h => (by cases h), fun h => ?_⟩, fun m hm => ?_⟩
    · have := h i (List.mem_filter.1 hi_mem).1
      rw [(List.mem_filter.1 hi_mem).2] at this; cases this
    · simp only [Option.some.injEq] at hm
      obtain ⟨h1, h2⟩ := p08_foldl_min_spec (is.map List.length) i.length
      rw [hm] at h1 h2
      constructor
      · have h1' : m ∈ (files.filter isInitFile).map List.length := by rw [hi]; exact h1
        obtain ⟨f, hf, hfl⟩ := List.mem_map.1 h1'
        exact ⟨f, (List.mem_filter.1 hf).1, (List.mem_filter.1 hf).2, hfl⟩
      · intro g hg hgi
        apply h2
        have : g.length ∈ (files.filter isInitFile).map List.length :=
          List.mem_map.2 ⟨g, List.mem_filter.2 ⟨hg, hgi⟩, rfl⟩
        rw [hi] at this; exact this

/-! ### 2. the declarative specification; enumeration order -/

/-- membership: the directories of the `__init__.py` files with the fewest path components -/
theorem nearestInitDirs_spec (files : List PathParts) (d : PathParts) :
    d ∈ nearestInitDirs files ↔
      ∃ f ∈ files, isInitFile f = true ∧ f.dropLast = d ∧
        ∀ g ∈ files, isInitFile g = true → f.length ≤ g.length := by
  rw [x15_nearest_eq_filter, List.mem_map]
  constructor
  · rintro ⟨f, hf, hfd⟩
    obtain ⟨hf1, hf2⟩ := List.mem_filter.1 hf
    obtain ⟨hi, hmin⟩ := (x15_isNearest_iff _ _).1 hf2
    exact ⟨f, hf1, hi, hfd, hmin⟩
  · rintro ⟨f, hf, hi, hfd, hmin⟩
    exact ⟨f, List.mem_filter.2 ⟨hf, (x15_isNearest_iff _ _).2 ⟨hi, hmin⟩⟩, hfd⟩

/-- order: the result is an order-preserving filter of the enumeration (glob order among the
    minimal ones), with multiplicities -/
theorem nearestInitDirs_order (files : List PathParts) :
    nearestInitDirs files = (files.filter (x15_isNearest files)).map List.dropLast ∧
    (∀ f, x15_isNearest files f = true ↔
      isInitFile f = true ∧ ∀ g ∈ files, isInitFile g = true → f.length ≤ g.length) ∧
    nearestInitDirs files <+ files.map List.dropLast :=
  ⟨x15_nearest_eq_filter files, x15_isNearest_iff files, by
    rw [x15_nearest_eq_filter]; exact (List.filter_sublist).map _⟩

/-- an `__init__.py` is determined by its directory: from a duplicate-free enumeration no directory
    is listed twice -/
theorem nearestInitDirs_nodup {files : List PathParts} (h : files.Nodup) : (nearestInitDirs files).Nodup :=
  x15_nearest_nodup h

/-- two enumeration orders of the same tree -/
theorem nearestInitDirs_perm {files files' : List PathParts} (h : files ~ files') :
    nearestInitDirs files ~ nearestInitDirs files' :=
  p08_nearestInitDirs_perm h

/-- the analysed package does not depend on the enumeration order -/
theorem adjustRoot_perm (root : PathParts) {files files' : List PathParts} (h : files ~ files') :
    adjustRoot root files = adjustRoot root files' :=
  p08_adjustRoot_perm root h

/-- the root that `discoverFrom` reports is the adjusted root -/
theorem discoverFrom_root {root : PathParts} {files : List PathParts} {b : Bool} {r : PathParts} {d : Discovered}
    (h : discoverFrom root files b = .ok (r, d)) : r = adjustRoot root files := by
  unfold discoverFrom at h
  dsimp only at h
  split at h
  · cases h
  · simp only [Except.ok.injEq, Prod.mk.injEq] at h
    exact h.1.symm

/-- connection with C08's `discoverFrom_enumeration_order`: the common root `r` of the two runs there
    is `adjustRoot root files = adjustRoot root files'` -/
theorem discoverFrom_enumeration_order_root (root : PathParts) (isTestRun : Bool) {files files' : List PathParts}
    (h : files ~ files') {r : PathParts} {d : Discovered} (hd : discoverFrom root files isTestRun = .ok (r, d)) :
    r = adjustRoot root files ∧ r = adjustRoot root files' ∧
    ∃ d', discoverFrom root files' isTestRun = .ok (r, d') ∧ d.walkable ~ d'.walkable ∧ d.packages ~ d'.packages := by
  have hr := discoverFrom_root hd
  refine ⟨hr, hr.trans (adjustRoot_perm root h), ?_⟩
  rcases C08.discoverFrom_enumeration_order root isTestRun h with ⟨e, h1, _⟩ | ⟨r', d1, d', h1, h2, h3, h4⟩
  · rw [hd] at h1; cases h1
  · rw [hd] at h1
    simp only [Except.ok.injEq, Prod.mk.injEq] at h1
    obtain ⟨rfl, rfl⟩ := h1
    exact ⟨d', h2, h3, h4⟩

/-! ### 3. `adjustRoot` -/

/-- in terms of the LIST of nearest directories (no hypothesis): replaced iff it is a singleton -/
theorem adjustRoot_cases (root : PathParts) (files : List PathParts) :
    (∃ d, nearestInitDirs files = [d] ∧ adjustRoot root files = d) ∨
    ((∀ d, nearestInitDirs files ≠ [d]) ∧ adjustRoot root files = root) :=
  x15_adjustRoot_cases root files

/-- For a duplicate-free enumeration (what `glob` gives): the root is replaced by `d` iff `d` is THE
    minimal-depth init directory (exactly one exists); otherwise the given root is kept. -/
theorem adjustRoot_spec (root : PathParts) {files : List PathParts} (hn : files.Nodup) :
    (∃ d, (∀ x, x ∈ nearestInitDirs files ↔ x = d) ∧ adjustRoot root files = d) ∨
    ((¬ ∃ d, ∀ x, x ∈ nearestInitDirs files ↔ x = d) ∧ adjustRoot root files = root) := by
  have hnd := x15_nearest_nodup hn
  rcases x15_adjustRoot_cases root files with ⟨d, hd, h⟩ | ⟨hno, h⟩
  · exact Or.inl ⟨d, (x15_nodup_unique hnd d).2 hd, h⟩
  · exact Or.inr ⟨fun ⟨d, hd⟩ => hno d ((x15_nodup_unique hnd d).1 hd), h⟩

/-- the two ways to keep the root: no `__init__.py` at all, or two different minimal directories
    (no hypothesis on duplicates needed) -/
theorem adjustRoot_keeps (root : PathParts) (files : List PathParts) :
    ((∀ f ∈ files, isInitFile f = false) → adjustRoot root files = root) ∧
    (∀ d d', d ∈ nearestInitDirs files → d' ∈ nearestInitDirs files → d ≠ d' → adjustRoot root files = root) := by
  constructor
  · intro h
    apply x15_adjustRoot_other
    intro d hd
    have hm : d ∈ nearestInitDirs files := by rw [hd]; simp
    obtain ⟨f, hf, hi, _⟩ := (nearestInitDirs_spec files d).1 hm
    rw [h f hf] at hi; cases hi
  · intro d d' hd hd' hne
    apply x15_adjustRoot_other
    intro e he
    rw [he] at hd hd'
    simp only [List.mem_singleton] at hd hd'
    exact hne (hd.trans hd'.symm)

/-- Without duplicate-freeness "exactly one minimal directory" is not enough: the loop counts list
    entries.  (Not reachable from `glob`.) -/
example : nearestInitDirs [["/", "p", "__init__.py"], ["/", "p", "__init__.py"]] = [["/", "p"], ["/", "p"]] ∧
    adjustRoot ["/"] [["/", "p", "__init__.py"], ["/", "p", "__init__.py"]] = ["/"] := by decide +kernel

/-- COUNTEREXAMPLE to the root-package statement as asked (`root/__init__.py ∈ files` and every file
    has `root` as a prefix): `isPrefixParts root root` holds, so a "file" equal to the root directory —
    here a directory called `__init__.py` — counts as an `__init__.py` one level higher. -/
example :
    let root := ["/", "__init__.py"]
    let files := [["/", "__init__.py"], ["/", "__init__.py", "__init__.py"]]
    root ++ ["__init__.py"] ∈ files ∧ (∀ f ∈ files, isPrefixParts root f = true) ∧
    adjustRoot root files = ["/"] ∧ adjustRoot root files ≠ root := by decide +kernel

/-- The strongest true variant: a root that is itself a package is kept, provided the files lie
    STRICTLY below it (the root directory is not one of the enumerated files).  Duplicates allowed. -/
theorem adjustRoot_root_package_partial (root : PathParts) (files : List PathParts)
    (hin : root ++ ["__init__.py"] ∈ files)
    (hbelow : ∀ f ∈ files, isPrefixParts root f = true) (hroot : root ∉ files) :
    adjustRoot root files = root ∧ ∀ d ∈ nearestInitDirs files, d = root := by
  have hb : ∀ f ∈ files, isInitFile f = true → root <+: f ∧ f ≠ root :=
    fun f hf _ => ⟨(x15_isPrefixParts_iff _ _).1 (hbelow f hf), fun e => hroot (e ▸ hf)⟩
  exact ⟨x15_adjustRoot_root_package hin hb, fun d hd => x15_nearest_root_package hin hb hd⟩

/-- the same with the other natural side condition: the root directory is not called `__init__.py` -/
theorem adjustRoot_root_package_partial' (root : PathParts) (files : List PathParts)
    (hin : root ++ ["__init__.py"] ∈ files)
    (hbelow : ∀ f ∈ files, isPrefixParts root f = true) (hroot : isInitFile root = false) :
    adjustRoot root files = root := by
  apply x15_adjustRoot_root_package hin
  intro f hf hi
  refine ⟨(x15_isPrefixParts_iff _ _).1 (hbelow f hf), fun e => ?_⟩
  rw [e, hroot] at hi; cases hi

/-- `isPrefixParts` is the list prefix relation -/
theorem isPrefixParts_iff (a b : PathParts) : isPrefixParts a b = true ↔ ∃ t, b = a ++ t := by
  rw [x15_isPrefixParts_iff]
  exact ⟨fun ⟨t, h⟩ => ⟨t, h.symm⟩, fun ⟨t, h⟩ => ⟨t, h.symm⟩⟩

/-- the adjusted root never leaves the given root (files strictly below the root) -/
theorem adjustRoot_below (root : PathParts) (files : List PathParts)
    (hbelow : ∀ f ∈ files, isPrefixParts root f = true) (hroot : root ∉ files) :
    isPrefixParts root (adjustRoot root files) = true := by
  rw [x15_isPrefixParts_iff]
  rcases x15_adjustRoot_cases root files with ⟨d, hd, h⟩ | ⟨_, h⟩
  · rw [h]
    apply x15_nearest_below (files := files) _ (by rw [hd]; simp)
    exact fun f hf _ => ⟨(x15_isPrefixParts_iff _ _).1 (hbelow f hf), fun e => hroot (e ▸ hf)⟩
  · rw [h]

/-- Idempotence: adjusting again, from the adjusted root and the files below it (what the second
    `glob` enumerates), changes nothing. -/
theorem adjustRoot_idempotent (root : PathParts) (files : List PathParts)
    (hbelow : ∀ f ∈ files, isPrefixParts root f = true) :
    adjustRoot (adjustRoot root files) (filesUnder (adjustRoot root files) files) = adjustRoot root files :=
  x15_adjustRoot_idem root files hbelow

/-! ### 4. the composition `discoverFrom` -/

/-- C15's `filter_spec` on the files below `r` -/
theorem discoverLoop_filesUnder (r : PathParts) (files : List PathParts) (b : Bool) :
    discoverLoop b (filesUnder r files) =
      { walkable := (files.filter (fun f => isPrefixParts r f && !C15.skipped b f)).filter (fun f => !isInitFile f),
        packages := ((files.filter (fun f => isPrefixParts r f && !C15.skipped b f)).filter isInitFile).map List.dropLast } := by
  obtain ⟨hw, hp⟩ := C15.filter_spec b (filesUnder r files)
  have hw' : (discoverLoop b (filesUnder r files)).walkable =
      (files.filter (fun f => isPrefixParts r f && !C15.skipped b f)).filter (fun f => !isInitFile f) := by
    rw [hw, filesUnder, List.filter_filter, List.filter_filter]
    apply List.filter_congr
    intro f _
    cases isPrefixParts r f <;> cases C15.skipped b f <;> cases isInitFile f <;> rfl
  have hp' : (discoverLoop b (filesUnder r files)).packages =
      ((files.filter (fun f => isPrefixParts r f && !C15.skipped b f)).filter isInitFile).map List.dropLast := by
    rw [hp, filesUnder, List.filter_filter, List.filter_filter]
    congr 1
    apply List.filter_congr
    intro f _
    cases isPrefixParts r f <;> cases C15.skipped b f <;> cases isInitFile f <;> rfl
  cases hdl : discoverLoop b (filesUnder r files) with
  | mk w p =>
    rw [hdl] at hw' hp'
    dsimp only at hw' hp'
    rw [hw', hp']

/-- The model restricts the enumeration to the adjusted root by the component-wise prefix test
    `isPrefixParts r f` (`filesUnder`), then applies the test/docs filter of C15. -/
theorem discoverFrom_eq (root : PathParts) (files : List PathParts) (b : Bool) :
    discoverFrom root files b =
      let r := adjustRoot root files
      let kept := files.filter (fun f => isPrefixParts r f && !C15.skipped b f)
      if kept.filter (fun f => !isInitFile f) = [] then .error .valueError
      else .ok (r, { walkable := kept.filter (fun f => !isInitFile f),
                     packages := (kept.filter isInitFile).map List.dropLast }) := by
  dsimp only
  have hd := discoverLoop_filesUnder (adjustRoot root files) files b
  unfold discoverFrom discover
  dsimp only
  rw [hd]
  dsimp only
  by_cases he : (files.filter (fun f => isPrefixParts (adjustRoot root files) f && !C15.skipped b f)).filter
      (fun f => !isInitFile f) = []
  · rw [if_pos he, he]; rfl
  · rw [if_neg he]
    have : ((files.filter (fun f => isPrefixParts (adjustRoot root files) f && !C15.skipped b f)).filter
        (fun f => !isInitFile f)).isEmpty = false := by simpa using he
    rw [this]; rfl

/-- WHICH FILES ARE ANALYSED.  With `r = adjustRoot root files`:
    * the only error is the documented `No files found to analyse` (`ValueError`), raised iff every
      file below `r` that survives the test/docs filter is an `__init__.py` (no walkable file remains);
    * otherwise the reported root is `r`; the module files are exactly the files below `r`
      (prefix test) that are not skipped (C15's `skipped`: flag off and a component `test`/`tests`/`docs`)
      and are not `__init__.py`; the packages are the directories of the surviving `__init__.py` files;
      both in enumeration order; the result is C15's loop on the files below `r`. -/
theorem discoverFrom_spec (root : PathParts) (files : List PathParts) (b : Bool) :
    (discoverFrom root files b = .error .valueError ↔
      ∀ f ∈ files, isPrefixParts (adjustRoot root files) f = true → C15.skipped b f = false → isInitFile f = true) ∧
    (∀ e, discoverFrom root files b = .error e → e = .valueError) ∧
    (∀ r d, discoverFrom root files b = .ok (r, d) →
      r = adjustRoot root files ∧
      (∀ f, f ∈ d.walkable ↔
        f ∈ files ∧ isPrefixParts r f = true ∧ C15.skipped b f = false ∧ isInitFile f = false) ∧
      (∀ p, p ∈ d.packages ↔
        ∃ f ∈ files, isPrefixParts r f = true ∧ C15.skipped b f = false ∧ isInitFile f = true ∧ f.dropLast = p) ∧
      d.walkable <+ files ∧ d.packages <+ files.map List.dropLast ∧
      d = discoverLoop b (filesUnder r files) ∧
      d.walkable = (filesUnder r files).filter (fun f => !C15.skipped b f && !isInitFile f) ∧
      d.packages = ((filesUnder r files).filter (fun f => !C15.skipped b f && isInitFile f)).map List.dropLast) := by
  have heq := discoverFrom_eq root files b
  dsimp only at heq
  have hemp : (files.filter (fun f => isPrefixParts (adjustRoot root files) f && !C15.skipped b f)).filter
        (fun f => !isInitFile f) = [] ↔
      ∀ f ∈ files, isPrefixParts (adjustRoot root files) f = true → C15.skipped b f = false → isInitFile f = true := by
    rw [List.filter_eq_nil_iff]
    constructor
    · intro h f hf h1 h2
      have := h f (List.mem_filter.2 ⟨hf, by simp [h1, h2]⟩)
      simpa using this
    · intro h f hf
      obtain ⟨hf1, hf2⟩ := List.mem_filter.1 hf
      simp only [Bool.and_eq_true, Bool.not_eq_eq_eq_not, Bool.not_true] at hf2
      simp [h f hf1 hf2.1 hf2.2]
  refine ⟨?_, ?_, ?_⟩
  · rw [← hemp, heq]
    constructor
    · intro h
      by_contra hc
      rw [if_neg hc] at h; cases h
    · intro h; rw [if_pos h]
  · intro e he
    rw [heq] at he
    split at he
    · cases he; rfl
    · cases he
  · intro r d hd
    have hr := discoverFrom_root hd
    subst hr
    rw [heq] at hd
    split at hd
    · cases hd
    · simp only [Except.ok.injEq, Prod.mk.injEq, true_and] at hd
      subst hd
      dsimp only
      obtain ⟨hw, hp⟩ := C15.filter_spec b (filesUnder (adjustRoot root files) files)
      refine ⟨rfl, ?_, ?_, ?_, ?_, ?_, ?_, ?_⟩
      · intro f
        simp only [List.mem_filter, Bool.and_eq_true, Bool.not_eq_eq_eq_not, Bool.not_true]
        constructor
        · rintro ⟨⟨h0, h1, h2⟩, h3⟩; exact ⟨h0, h1, h2, h3⟩
        · rintro ⟨h0, h1, h2, h3⟩; exact ⟨⟨h0, h1, h2⟩, h3⟩
      · intro p
        simp only [List.mem_map, List.mem_filter, Bool.and_eq_true, Bool.not_eq_eq_eq_not, Bool.not_true]
        constructor
        · rintro ⟨f, ⟨⟨hf, h1, h2⟩, h3⟩, h4⟩; exact ⟨f, hf, h1, h2, h3, h4⟩
        · rintro ⟨f, hf, h1, h2, h3, h4⟩; exact ⟨f, ⟨⟨hf, h1, h2⟩, h3⟩, h4⟩
      · exact List.filter_sublist.trans List.filter_sublist
      · exact (List.filter_sublist.trans List.filter_sublist).map _
      · exact (discoverLoop_filesUnder (adjustRoot root files) files b).symm
      · rw [filesUnder, List.filter_filter, List.filter_filter]
        apply List.filter_congr
        intro f _
        cases isPrefixParts (adjustRoot root files) f <;> cases C15.skipped b f <;> cases isInitFile f <;> rfl
      · rw [filesUnder, List.filter_filter, List.filter_filter]
        congr 1
        apply List.filter_congr
        intro f _
        cases isPrefixParts (adjustRoot root files) f <;> cases C15.skipped b f <;> cases isInitFile f <;> rfl

/-! ### 5. `selectAsts` -/

/-- `ast.path.endswith("__init__.py")` -/
abbrev isInitPath := x15_isInitPath
/-- `ast.path.split("__init__.py")[0][:-1]` -/
abbrev pkgDir := x15_pkgDir

theorem isInitPath_eq (p : String) : isInitPath p = pyEndsWith p "__init__.py" := rfl
theorem pkgDir_eq (p : String) :
    pkgDir p = String.ofList ((pySplitStr p "__init__.py").headD "").toList.dropLast := rfl

/-- membership -/
theorem selectAsts_spec (graph : List String) (d : Discovered) (p : String) :
    p ∈ selectAsts graph d ↔
      p ∈ graph ∧ ((isInitPath p = true ∧ pkgDir p ∈ d.packages.map pathStr) ∨
                   (isInitPath p = false ∧ p ∈ d.walkable.map pathStr)) := by
  rw [x15_selectAsts_eq]
  simp only [List.mem_append, List.mem_filter, x15_selPkg, x15_selMod, Bool.and_eq_true,
    Bool.not_eq_eq_eq_not, Bool.not_true, List.contains_iff_mem]
  constructor
  · rintro (⟨h0, h1, h2⟩ | ⟨h0, h1, h2⟩)
    · exact ⟨h0, Or.inl ⟨h1, h2⟩⟩
    · exact ⟨h0, Or.inr ⟨h1, h2⟩⟩
  · rintro ⟨h0, ⟨h1, h2⟩ | ⟨h1, h2⟩⟩
    · exact Or.inl ⟨h0, h1, h2⟩
    · exact Or.inr ⟨h0, h1, h2⟩

/-- packages first, graph order preserved within each group -/
theorem selectAsts_order (graph : List String) (d : Discovered) :
    selectAsts graph d =
      graph.filter (fun p => isInitPath p && (d.packages.map pathStr).contains (pkgDir p)) ++
      graph.filter (fun p => !isInitPath p && (d.walkable.map pathStr).contains p) ∧
    graph.filter (fun p => isInitPath p && (d.packages.map pathStr).contains (pkgDir p)) <+ graph ∧
    graph.filter (fun p => !isInitPath p && (d.walkable.map pathStr).contains p) <+ graph :=
  ⟨rfl, List.filter_sublist, List.filter_sublist⟩

/-- the selection is a rearrangement (packages moved to the front) of a sublist of the graph -/
theorem selectAsts_sublist_perm (graph : List String) (d : Discovered) :
    ∃ l, l <+ graph ∧ selectAsts graph d ~ l :=
  ⟨_, List.filter_sublist, x15_selectAsts_perm_filter graph d⟩

/-- hence no AST is analysed twice (mypy's graph lists every module once) -/
theorem selectAsts_nodup (graph : List String) (d : Discovered) (h : graph.Nodup) : (selectAsts graph d).Nodup :=
  (x15_selectAsts_perm_filter graph d).nodup_iff.2 (h.filter _)

/-! ### 6. kernel-checked examples -/

def exRoot : PathParts := ["/", "w"]
def exDeepInit : PathParts := ["/", "w", "a", "x", "p", "__init__.py"]
def exDeepMod : PathParts := ["/", "w", "a", "x", "p", "m.py"]
def exShallowInit : PathParts := ["/", "w", "b", "q", "__init__.py"]
def exShallowSub : PathParts := ["/", "w", "b", "q", "s", "__init__.py"]
def exShallowMod : PathParts := ["/", "w", "b", "q", "n.py"]
def exShallowTest : PathParts := ["/", "w", "b", "q", "tests", "t.py"]

/-- the deeper package is enumerated first -/
def exFiles1 : List PathParts := [exDeepInit, exDeepMod, exShallowInit, exShallowSub, exShallowMod, exShallowTest]
/-- the shallower package is enumerated first -/
def exFiles2 : List PathParts := [exShallowInit, exShallowSub, exShallowMod, exShallowTest, exDeepInit, exDeepMod]

/-- two sibling subtrees with packages at different depths, both enumeration orders: the same
    adjusted root (the shallower package) -/
example : nearestInitDirs exFiles1 = [["/", "w", "b", "q"]] ∧ nearestInitDirs exFiles2 = [["/", "w", "b", "q"]] ∧
    adjustRoot exRoot exFiles1 = ["/", "w", "b", "q"] ∧ adjustRoot exRoot exFiles2 = ["/", "w", "b", "q"] := by
  decide +kernel

/-- the loop on the deeper-first order really takes the third branch ("shorter path found later") -/
example : x15_loop (exFiles1.filter isInitFile) = (some 5, [["/", "w", "b", "q"]]) ∧
    x15_loop (exFiles2.filter isInitFile) = (some 5, [["/", "w", "b", "q"]]) := by decide +kernel

/-- … and the loop WITHOUT that branch (the seeded defect) would make the analysed package depend on
    the enumeration order; by `nearestInitDirs_loop_eq` the model is not that loop -/
example : (x15_loopDefect (exFiles1.filter isInitFile)).2 = [["/", "w", "a", "x", "p"], ["/", "w", "b", "q", "s"]] ∧
    (x15_loopDefect (exFiles2.filter isInitFile)).2 = [["/", "w", "b", "q"]] ∧
    nearestInitDirs exFiles1 ≠ (x15_loopDefect (exFiles1.filter isInitFile)).2 := by decide +kernel

/-- the same by the theorem -/
example : adjustRoot exRoot exFiles1 = adjustRoot exRoot exFiles2 :=
  adjustRoot_perm exRoot (by decide +kernel : exFiles1 ~ exFiles2)

/-- the whole discovery step on both orders: only the shallower package is analysed, its `tests`
    directory only with the flag -/
example :
    discoverFrom exRoot exFiles1 false
      = .ok (["/", "w", "b", "q"], { walkable := [exShallowMod], packages := [["/", "w", "b", "q"], ["/", "w", "b", "q", "s"]] }) ∧
    discoverFrom exRoot exFiles2 false
      = .ok (["/", "w", "b", "q"], { walkable := [exShallowMod], packages := [["/", "w", "b", "q"], ["/", "w", "b", "q", "s"]] }) ∧
    discoverFrom exRoot exFiles1 true
      = .ok (["/", "w", "b", "q"], { walkable := [exShallowMod, exShallowTest], packages := [["/", "w", "b", "q"], ["/", "w", "b", "q", "s"]] }) := by
  decide +kernel

/-- a root that is itself a package (with a sub-package) is kept -/
example : adjustRoot ["/", "w", "pkg"]
    [["/", "w", "pkg", "sub", "__init__.py"], ["/", "w", "pkg", "__init__.py"], ["/", "w", "pkg", "m.py"]] = ["/", "w", "pkg"] := by
  decide +kernel

/-- … the same by the theorem -/
example : adjustRoot ["/", "w", "pkg"]
    [["/", "w", "pkg", "sub", "__init__.py"], ["/", "w", "pkg", "__init__.py"], ["/", "w", "pkg", "m.py"]] = ["/", "w", "pkg"] :=
  (adjustRoot_root_package_partial _ _ (by decide +kernel) (by decide +kernel) (by decide +kernel)).1

/-- two packages at equal minimal depth: the given root is kept, both are analysed -/
example :
    nearestInitDirs [["/", "w", "p", "__init__.py"], ["/", "w", "q", "__init__.py"], ["/", "w", "p", "m.py"], ["/", "w", "q", "n.py"]]
      = [["/", "w", "p"], ["/", "w", "q"]] ∧
    adjustRoot exRoot [["/", "w", "p", "__init__.py"], ["/", "w", "q", "__init__.py"], ["/", "w", "p", "m.py"], ["/", "w", "q", "n.py"]]
      = exRoot ∧
    discoverFrom exRoot [["/", "w", "p", "__init__.py"], ["/", "w", "q", "__init__.py"], ["/", "w", "p", "m.py"], ["/", "w", "q", "n.py"]] false
      = .ok (exRoot, { walkable := [["/", "w", "p", "m.py"], ["/", "w", "q", "n.py"]], packages := [["/", "w", "p"], ["/", "w", "q"]] }) := by
  decide +kernel

/-- no `__init__.py` at all: root kept; only `__init__.py` files (or only skipped ones) below the
    adjusted root: `No files found` -/
example : adjustRoot exRoot [["/", "w", "m.py"]] = exRoot ∧
    discoverFrom exRoot [["/", "w", "p", "__init__.py"], ["/", "w", "p", "tests", "t.py"]] false = .error .valueError ∧
    discoverFrom exRoot [["/", "w", "p", "__init__.py"], ["/", "w", "p", "tests", "t.py"]] true
      = .ok (["/", "w", "p"], { walkable := [["/", "w", "p", "tests", "t.py"]], packages := [["/", "w", "p"]] }) := by
  decide +kernel

/-- a module file next to (outside) the unique topmost package is NOT analysed after the adjustment -/
example : discoverFrom exRoot [["/", "w", "setup.py"], ["/", "w", "p", "__init__.py"], ["/", "w", "p", "m.py"]] false
    = .ok (["/", "w", "p"], { walkable := [["/", "w", "p", "m.py"]], packages := [["/", "w", "p"]] }) := by
  decide +kernel

/-- `selectAsts`: packages first, graph order inside each group; a graph entry that was not discovered
    (`/w/b/q/tests/t.py`, loaded through an import) is dropped -/
example :
    selectAsts ["/w/b/q/n.py", "/w/b/q/s/__init__.py", "/w/b/q/tests/t.py", "/w/b/q/__init__.py", "/w/a/x/p/__init__.py"]
      { walkable := [exShallowMod], packages := [["/", "w", "b", "q"], ["/", "w", "b", "q", "s"]] }
    = ["/w/b/q/s/__init__.py", "/w/b/q/__init__.py", "/w/b/q/n.py"] := by
  decide +kernel

/-- `pkgDir` cuts at the FIRST occurrence of the text `__init__.py`: a package inside a directory
    whose name contains that text is looked up under the wrong directory and its `__init__` is not selected -/
example : pkgDir "/w/p/__init__.py" = "/w/p" ∧ pkgDir "/w/__init__.pyx/__init__.py" = "/w" ∧
    selectAsts ["/w/__init__.pyx/__init__.py"] { walkable := [], packages := [["/", "w", "__init__.pyx"]] } = [] := by
  decide +kernel

end StubGen.C15a
