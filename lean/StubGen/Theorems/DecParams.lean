/-
T2 obligations (parameter strings): the model's finite decision functions agree, on EVERY point of their domain, with the table that
`tie/tabulate.py` computes by calling the real function of /repo's working tree (`Generated/DecParams.lean`).  A change of
behaviour changes a row and breaks the kernel-checked `decide` here; one module per table, so that a changed table breaks the
obligations of the properties it belongs to and no others.
-/
import StubGen.Generated.DecParams
import StubGen.Theorems.DecCommon

namespace StubGen.Decisions

open StubGen

/-! ### `_create_parameter_string` on one parameter: 6 assignments × optional × 7 defaults × 3 types × 3 names × flag -/

def assignOf : Nat → Assign
  | 0 => .implicit | 1 => .positionOnly | 2 => .positionOrName | 3 => .positionalVararg | 4 => .nameOnly | _ => .namedVararg

def defaultOf : Nat → DefaultVal
  | 0 => .none | 1 => .bool true | 2 => .int 3 | 3 => .str "'s'" | 4 => .str "()" | 5 => .str "{}" | _ => .unknown

def typeOf : Nat → Option AType
  | 0 => none | 1 => some intT | _ => some (.tuple [intT])

def paramOf (a : Nat) (opt : Bool) (d t n : Nat) : Parameter :=
  { id := "p/m/f/" ++ nameOf n, name := nameOf n, isOptional := opt, «default» := defaultOf d, assignedBy := assignOf a, type := typeOf t }

/-- the model's text and (sorted) TODO keys for one parameter -/
def modelParameterString (a : Nat) (opt : Bool) (d t n : Nat) (safe : Bool) : String × List String :=
  let env : Env := { api := { package := "p" }, safe := safe }
  match (createParameterString env [paramOf a opt d t n] "" false).run { moduleId := "p/m" } with
  | .ok (s, st) => (s, sortStrings st.todos)
  | .error e => ("!" ++ e.name, [])

theorem parameter_string_table :
    Generated.parameterStringTable.all (fun r =>
      let m := modelParameterString r.1.1 r.1.2.1 r.1.2.2.1 r.1.2.2.2.1 r.1.2.2.2.2.1 r.1.2.2.2.2.2
      m.1 == r.2.1 && m.2 == r.2.2) = true := by
  decide +kernel

end StubGen.Decisions
