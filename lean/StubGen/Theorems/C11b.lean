/-
C11 — whole-tool part: the classes of other libraries a complete run imports have their placeholder stubs.
-/
import StubGen.Proofs.Pipeline
import StubGen.Theorems.C11

namespace StubGen.C11b

open StubGen

/-- END TO END: in a completed run of the whole tool, for every class of another library that the generator registered
    (and therefore imports in some stub), the run writes that class into the placeholder stub of its module — either the
    write that creates the file (package header of the module, then the class) or an append to the file the run created for
    an earlier class of the same module. -/
theorem tool_foreign_placeholders {i : ToolInput} {o : ToolOutput} (h : runTool i = .ok o) :
    ∀ c ∈ o.gen.outside, ∃ op ∈ o.gen.ops, op.path = outsideFile c
      ∧ ((op.mode = .append ∧ op.text = outsideClassText (lastD "" (splitDot c)) i.safe)
         ∨ (op.mode = .write ∧ op.text = outsideHeader i.safe c ++ outsideClassText (lastD "" (splitDot c)) i.safe)) := by
  obtain ⟨root, d, r, ws, text, gen, _, _, _, hg, ho⟩ := pl_runTool_ok h
  subst ho
  exact C11.foreign_placeholder_exists_run _ _ _ _ hg

end StubGen.C11b
