/-
C18 (generator part) — "The stub generated for a module depends only on that module, the declarations
it references and the package `__init__` files that re-export it: adding, removing or renaming
unrelated modules, or changing declarations in them, leaves it byte-identical.  Reordering the
top-level declarations of a module only permutes the corresponding declarations in its stub."

Model: `StubGen.Model.Gen` (`callGenerator`, `createFunctions`, `createClasses`).
Proof machinery: `StubGen.Proofs.Locality` (a two-run simulation `r18_Sim` walked over the whole
generator once, instantiated twice).

A. Dependence on the API.  `callGenerator env m` reads `env.api` only through
   (i) `api.reexportMap`, (ii) the class-table lookup of `_add_to_imports` (`r18_importLookup`),
   (iii) `getClassInPackage` (inlined private superclasses) and (iv) the fuel `classFuel env`;
   `api.package` and `api.modules` are never read.  `callGenerator_congr`; fuel monotonicity
   `createClassString_fuel_mono`; `unrelated_module_added` with the kernel-checked counterexample
   `same_name_class_changes_import` for the necessity of its side condition.
B. Reordering.  The block of a declaration does depend on the incoming `imports` (the marker
   "internal class as type" is decided by `imports.contains qname`), so the unrestricted statements are
   FALSE of the model (`block_depends_on_imports`, `functions_perm_counterexample`); the theorems carry
   the suffix `_partial`.  Side condition:
   * `r18_selfIns api st q` ("canonical import"): a reference to `q` from the module imports `q` under
     that very name.  Required of every import added by the run.
   For classes there is NO further side condition any more: the generics of a class are scoped to the
   class (`createClassString_restores_generics`: a class block ends with the `classGenerics` it started
   with), so a class without type parameters no longer sees the generics of the class generated before
   it; the former counterexample `[A<T>, B]` / `[B, A<T>]` is a positive example now.
-/
import StubGen.Proofs.Locality

namespace StubGen.C18

open StubGen List

/-! ### A. dependence on the API only through the lookups -/

/-- Successful runs are reproduced in every environment that answers the lookups in the same way and
    has at least as much fuel.  Hypotheses: same naming flag, same re-export map, the import lookup
    (`find?` of a path-connected class, only its id is used) agrees, every successful private-superclass
    lookup of `env` is reproduced by `env'`. -/
theorem callGenerator_congr (env env' : Env) (m : Module) (st : St)
    (hsafe : env'.safe = env.safe) (hrm : env'.api.reexportMap = env.api.reexportMap)
    (himp : ∀ path, r18_importLookup env'.api path = r18_importLookup env.api path)
    (hgc : ∀ q c, getClassInPackage env q = .ok c → getClassInPackage env' q = .ok c)
    (hfuel : classFuel env ≤ classFuel env') (r : (String × String) × St)
    (h : callGenerator env m st = .ok r) : callGenerator env' m st = .ok r := by
  obtain ⟨api, safe⟩ := env
  obtain ⟨api', safe'⟩ := env'
  dsimp only at hsafe hrm himp
  subst hsafe
  obtain ⟨r, s1⟩ := r
  obtain ⟨s1', h', rfl⟩ := (r18_eq_callGenerator (Out := fun _ => True) hrm
    (fun q _ => r18_resolve_of_lookup hrm himp q) hgc hfuel m).sim st st r s1 rfl h (fun _ _ => trivial)
  exact h'

/-- with equal fuel and lookups that agree in both directions: the same successful runs -/
theorem callGenerator_congr_iff (env env' : Env) (m : Module) (st : St)
    (hsafe : env'.safe = env.safe) (hrm : env'.api.reexportMap = env.api.reexportMap)
    (himp : ∀ path, r18_importLookup env'.api path = r18_importLookup env.api path)
    (hgc : ∀ q c, getClassInPackage env q = .ok c ↔ getClassInPackage env' q = .ok c)
    (hfuel : classFuel env = classFuel env') (r : (String × String) × St) :
    callGenerator env m st = .ok r ↔ callGenerator env' m st = .ok r :=
  ⟨callGenerator_congr env env' m st hsafe hrm himp (fun q c => (hgc q c).1) (Nat.le_of_eq hfuel) r,
   callGenerator_congr env' env m st hsafe.symm hrm.symm (fun p => (himp p).symm) (fun q c => (hgc q c).2)
    (Nat.le_of_eq hfuel.symm) r⟩

/-- fuel monotonicity: a class that is generated with fuel `n` is generated with the same result and
    final state with any larger fuel -/
theorem createClassString_fuel_mono (env : Env) (n k : Nat) (c : Class) (indent : String) (inRe : Bool) (st : St)
    (r : String × St) (h : createClassString env n c indent inRe st = .ok r) :
    createClassString env (n + k) c indent inRe st = .ok r := by
  obtain ⟨api, safe⟩ := env
  obtain ⟨t, s1⟩ := r
  obtain ⟨s1', h', rfl⟩ := (r18_createClassString_sim
    (r18_eq_primsC (Out := fun _ => True) (api := api) (api' := api) (safe := safe) (fun _ _ => rfl) (fun _ _ h => h))
    n (n + k) (Nat.le_add_right n k) c indent inRe).sim st st t s1 rfl h (fun _ _ => trivial)
  exact h'

theorem createInternalClassString_fuel_mono (env : Env) (n k : Nat) (sc inner : String) (ad : List String) (st : St)
    (r : String × St) (h : createInternalClassString env n sc inner ad st = .ok r) :
    createInternalClassString env (n + k) sc inner ad st = .ok r := by
  obtain ⟨api, safe⟩ := env
  obtain ⟨t, s1⟩ := r
  obtain ⟨s1', h', rfl⟩ := (r18_createInternalClassString_sim
    (r18_eq_primsC (Out := fun _ => True) (api := api) (api' := api) (safe := safe) (fun _ _ => rfl) (fun _ _ h => h))
    n (n + k) (Nat.le_add_right n k) sc inner ad).sim st st t s1 rfl h (fun _ _ => trivial)
  exact h'

/-- Adding classes at the end of the class table (and changing the module list in any way: the
    generator never reads `api.modules`) leaves the stub of `m` and the final state unchanged, provided
    * no new class is "path-connected" (`r18_connected`: the matching predicate of `_add_to_imports`) to
      a qualified name that the run recorded as outside the package — these are exactly the names whose
      lookup failed —, and
    * a new class has the exact id of a successfully looked-up private superclass only if an old class
      has it too (`r18_exactMatch`: the first matching predicate of `_get_class_in_package`). -/
theorem unrelated_module_added (api : API) (safe : Bool) (ms : List Module) (cs : List Class) (m : Module)
    (st : St) (r : String × String) (st1 : St)
    (hrun : callGenerator ⟨api, safe⟩ m st = .ok (r, st1))
    (himp : ∀ q ∈ st1.outside, ∀ c ∈ cs, r18_connected api q c = false)
    (hsup : ∀ q c, getClassInPackage ⟨api, safe⟩ q = .ok c → ∀ c' ∈ cs, r18_exactMatch q c' = true →
      ∃ c0 ∈ api.classes, r18_exactMatch q c0 = true) :
    callGenerator ⟨{ api with modules := ms, classes := api.classes ++ cs }, safe⟩ m st = .ok (r, st1) := by
  obtain ⟨s1', h', rfl⟩ := (r18_eq_callGenerator (Out := fun q => ∀ c ∈ cs, r18_connected api q c = false)
    (api := api) (api' := { api with modules := ms, classes := api.classes ++ cs }) (safe := safe) rfl
    (fun q hq => r18_resolve_append api ms cs q hq)
    (fun q c h => r18_getClass_append api ms cs safe q c (hsup q c h) h)
    (by unfold classFuel; dsimp only; rw [List.length_append]; omega) m).sim st st r st1 rfl hrun himp
  exact h'

/-- the special case of the task statement: one module appended -/
theorem unrelated_module_added' (api : API) (safe : Bool) (x : Module) (cs : List Class) (m : Module)
    (st : St) (r : String × String) (st1 : St)
    (hrun : callGenerator ⟨api, safe⟩ m st = .ok (r, st1))
    (himp : ∀ q ∈ st1.outside, ∀ c ∈ cs, r18_connected api q c = false)
    (hsup : ∀ q c, getClassInPackage ⟨api, safe⟩ q = .ok c → ∀ c' ∈ cs, r18_exactMatch q c' = true →
      ∃ c0 ∈ api.classes, r18_exactMatch q c0 = true) :
    callGenerator ⟨{ api with modules := api.modules ++ [x], classes := api.classes ++ cs }, safe⟩ m st
      = .ok (r, st1) :=
  unrelated_module_added api safe _ cs m st r st1 hrun himp hsup

/-- `api.modules` and `api.package` are never read -/
theorem modules_and_package_irrelevant (api : API) (safe : Bool) (ms : List Module) (pkg : String) (m : Module)
    (st : St) (r : (String × String) × St) :
    callGenerator ⟨api, safe⟩ m st = .ok r ↔
      callGenerator ⟨{ api with modules := ms, package := pkg }, safe⟩ m st = .ok r :=
  callGenerator_congr_iff ⟨api, safe⟩ ⟨{ api with modules := ms, package := pkg }, safe⟩ m st rfl rfl
    (fun _ => rfl) (fun _ _ => Iff.rfl) rfl r

/-! ### B. reordering declarations -/

/-- The text of one function block depends on the incoming state only through `todos`, `classGenerics`,
    the module ids — and, through the marker "internal class as type", through membership in `imports`
    of the NON-canonical names (`H`).  Its effect on `imports` and `outside` is to add fixed sets `I`, `O`;
    the module ids are kept, `classGenerics` too. -/
theorem functions_block_independent_partial (env : Env) (f : Function) (indent : String) (isMethod inRe : Bool)
    (st st' : St) (h1 : st.todos = st'.todos) (h2 : st.classGenerics = st'.classGenerics)
    (h3 : st.moduleId = st'.moduleId) (h4 : st.reexportModuleId = st'.reexportModuleId)
    (h5 : st.creatingReexport = st'.creatingReexport)
    (H : ∀ q, (q ∈ st.imports ↔ q ∈ st'.imports) ∨ r18_selfIns env.api st q)
    {text : String} {s1 : St} (hrun : createFunctionString env f indent isMethod inRe st = .ok (text, s1)) :
    ∃ s1', createFunctionString env f indent isMethod inRe st' = .ok (text, s1') ∧
      s1.todos = s1'.todos ∧ s1.classGenerics = st.classGenerics ∧ s1'.classGenerics = st'.classGenerics ∧
      s1.moduleId = st.moduleId ∧ s1.reexportModuleId = st.reexportModuleId ∧
      s1.creatingReexport = st.creatingReexport ∧
      s1'.moduleId = st'.moduleId ∧ s1'.reexportModuleId = st'.reexportModuleId ∧
      s1'.creatingReexport = st'.creatingReexport ∧
      ∃ I O : List String,
        (∀ q, q ∈ s1.imports ↔ q ∈ st.imports ∨ q ∈ I) ∧ (∀ q, q ∈ s1'.imports ↔ q ∈ st'.imports ∨ q ∈ I) ∧
        (∀ q, q ∈ s1.outside ↔ q ∈ st.outside ∨ q ∈ O) ∧ (∀ q, q ∈ s1'.outside ↔ q ∈ st'.outside ∨ q ∈ O) := by
  obtain ⟨api, safe⟩ := env
  obtain ⟨s1', h', hR⟩ := (r18_createFunctionString_sim (r18_rel_prims (fr := true) ⟨h3, h4, h5⟩ H)
    f indent isMethod inRe).sim st st' text s1 (r18_Rel.init h1 h2) hrun trivial
  exact ⟨s1', h', hR.todos, hR.cgb rfl, (hR.cg.symm.trans (hR.cgb rfl)).trans h2, hR.mid, hR.rmid, hR.cr,
    hR.mid', hR.rmid', hR.cr', hR.grow⟩

/-- pending markers are flushed: empty before ⇒ empty after -/
theorem function_block_flushes_todos (env : Env) (f : Function) (indent : String) (isMethod inRe : Bool)
    (st : St) (h0 : st.todos = []) {text : String} {s1 : St}
    (hrun : createFunctionString env f indent isMethod inRe st = .ok (text, s1)) : s1.todos = [] :=
  createFunctionString_keeps_mk env f indent isMethod inRe st h0 text s1 hrun

/-- Permuting the top-level functions: the text is the concatenation of the per-function blocks
    (`r18_functionBlock env inRe st f`: the block `f` gets when generated alone from `st`) in the order
    of the list; the permuted list yields the same blocks in its order, the same SETS of imports and
    outside classes, hence the same import block.  Side condition: every import added is canonical. -/
theorem functions_perm_partial (env : Env) (inRe : Bool) (st : St) (hst : st.todos = [])
    {fs fs' : List Function} (hp : fs ~ fs') {text : String} {st1 : St}
    (hrun : createFunctions env inRe fs st = .ok (text, st1))
    (hself : ∀ q ∈ st1.imports, q ∈ st.imports ∨ r18_selfIns env.api st q) :
    text = String.join (fs.map (r18_functionBlock env inRe st)) ∧
    ∃ st1', createFunctions env inRe fs' st = .ok (String.join (fs'.map (r18_functionBlock env inRe st)), st1') ∧
      (∀ q, q ∈ st1'.imports ↔ q ∈ st1.imports) ∧ (∀ q, q ∈ st1'.outside ↔ q ∈ st1.outside) ∧
      (st.imports.Nodup → st1.imports ~ st1'.imports ∧
        p08_importsText env.safe st1.imports = p08_importsText env.safe st1'.imports) := by
  obtain ⟨api, safe⟩ := env
  rw [r18_createFunctions_eq] at hrun
  obtain ⟨ht, s1', h', i, o, nd⟩ := r18_runList_perm (r18_fnStep_sim inRe) (r18_fnStep_keeps _ inRe) hst hp hrun hself
    (fun f _ t s h => r18_fnStep_cg inRe f st t s h)
  refine ⟨ht, s1', ?_, i, o, fun hnd => ⟨nd hnd, p08_importsText_perm safe (nd hnd)⟩⟩
  rw [r18_createFunctions_eq]
  exact h'

/-- The generics of a class are scoped to the class: every successful run of `createClassString` — moved
    to a re-export stub or not, with or without type parameters, inner classes, inlined private
    superclasses — ends with the `classGenerics` it started with. -/
theorem createClassString_restores_generics (env : Env) (fuel : Nat) (c : Class) (indent : String) (inRe : Bool)
    (st : St) {text : String} {st1 : St} (hrun : createClassString env fuel c indent inRe st = .ok (text, st1)) :
    st1.classGenerics = st.classGenerics :=
  r18_createClassString_restores_generics env fuel c indent inRe st text st1 hrun

/-- The same for the top-level classes, under the same side condition (every import added is canonical);
    that every class leaves `classGenerics` as it found them is a theorem now
    (`createClassString_restores_generics`), no hypothesis. -/
theorem classes_perm_partial (env : Env) (inRe : Bool) (st : St) (hst : st.todos = [])
    {cs cs' : List Class} (hp : cs ~ cs') {text : String} {st1 : St}
    (hrun : createClasses env inRe cs st = .ok (text, st1))
    (hself : ∀ q ∈ st1.imports, q ∈ st.imports ∨ r18_selfIns env.api st q) :
    text = String.join (cs.map (r18_classBlock env inRe st)) ∧
    ∃ st1', createClasses env inRe cs' st = .ok (String.join (cs'.map (r18_classBlock env inRe st)), st1') ∧
      (∀ q, q ∈ st1'.imports ↔ q ∈ st1.imports) ∧ (∀ q, q ∈ st1'.outside ↔ q ∈ st1.outside) ∧
      (st.imports.Nodup → st1.imports ~ st1'.imports ∧
        p08_importsText env.safe st1.imports = p08_importsText env.safe st1'.imports) := by
  obtain ⟨api, safe⟩ := env
  rw [r18_createClasses_eq] at hrun
  obtain ⟨ht, s1', h', i, o, nd⟩ := r18_runList_perm (r18_clsStep_sim inRe) (r18_clsStep_keeps _ inRe) hst hp hrun hself
    (fun c _ t s h => r18_clsStep_cg _ inRe c st t s h)
  refine ⟨ht, s1', ?_, i, o, fun hnd => ⟨nd hnd, p08_importsText_perm safe (nd hnd)⟩⟩
  rw [r18_createClasses_eq]
  exact h'

/-- Reordering the top-level functions and classes of a module: the stub consists of the same
    documentation comment and header, the same import block, the per-declaration blocks `fb f`, `cb c` in
    the order of the lists, and the same enum part.  Side condition: every import of the stub is
    canonical w.r.t. the state in which `callGenerator` starts the module (`r18_modStart`). -/
theorem module_reorder_partial (env : Env) (m : Module) (fs' : List Function) (cs' : List Class)
    (hpf : m.functions ~ fs') (hpc : m.classes ~ cs') (st : St) (text pkg : String) (st1 : St)
    (hrun : callGenerator env m st = .ok ((text, pkg), st1))
    (hself : ∀ q ∈ st1.imports, r18_selfIns env.api (r18_modStart m.id st) q) :
    ∃ (fb : Function → String) (cb : Class → String) (st1' : St),
      text = moduleDoc m ++ packageHeader env pkg ++ p08_importsText env.safe st1.imports
        ++ String.join (m.functions.map fb) ++ String.join (m.classes.map cb) ++ r18_enumsText env m ∧
      callGenerator env { m with functions := fs', classes := cs' } st =
        .ok ((moduleDoc m ++ packageHeader env pkg ++ p08_importsText env.safe st1.imports
          ++ String.join (fs'.map fb) ++ String.join (cs'.map cb) ++ r18_enumsText env m, pkg), st1') := by
  obtain ⟨api, safe⟩ := env
  exact r18_module_reorder api safe m fs' cs' hpf hpc st text pkg st1 hrun hself

/-! ### counterexamples and non-vacuity (closed values, `decide +kernel`) -/

private def mkP (t : AType) : Parameter :=
  { id := "p", name := "x", isOptional := false, default := .none, assignedBy := .positionOrName, type := some t }
private def mkF (n : String) (t : AType) : Function :=
  { id := "pkg/m/" ++ n, name := n, isPublic := true, params := [mkP t],
    results := [{ id := "r", name := "result_1", type := some (.named "None" "builtins.None") }] }
private def modM (fs : List Function) (cs : List Class := []) : Module :=
  { id := "pkg/m", name := "m", functions := fs, classes := cs }
private def modText (r : Except PyErr ((String × String) × St)) : String :=
  match r with
  | .ok ((t, _), _) => t
  | .error _ => "<error>"
/-- the side condition "every import added is canonical", as a check on a finished run -/
private def canonicalOk {α : Type} (api : API) (st : St) (r : Except PyErr (α × St)) : Bool :=
  match r with
  | .ok (_, s1) => s1.imports.all fun q => st.imports.contains q || decide (r18_selfIns api st q)
  | .error _ => false

private def stM : St := { moduleId := "pkg/m" }
private def env0 : Env := ⟨{}, true⟩
/-- a function of module `pkg/m` whose parameter has the private class `pkg.m._C` of the same module as type -/
private def fOwn : Function := mkF "f" (.named "_C" "pkg.m._C")

/-- COUNTEREXAMPLE to the unrestricted `functions_block_independent`: the block depends on the incoming
    `imports` — the same function, the same module ids, no pending markers; the marker is printed iff
    `pkg.m._C` is not already imported. -/
example :
    r18_textOf (createFunctionString env0 fOwn "" false false stM)
      = "// TODO An internal class must not be used as a type in a public class.\n@Pure\nfun f(\n    x: _C\n)"
    ∧ r18_textOf (createFunctionString env0 fOwn "" false false { stM with imports := ["pkg.m._C"] })
      = "@Pure\nfun f(\n    x: _C\n)" := by decide +kernel

/-- an API in which the module `pkg/m` itself re-exports the private class `pkg.other._C`: a reference to
    `pkg.other._C` is imported as `pkg.m._C` -/
private def apiR : API :=
  { classes := [{ id := "pkg/other/_C", name := "_C", isPublic := false }],
    reexportMap := [("pkg.other._C", [{ id := "pkg/m", qualifiedImports := [⟨"pkg.other._C", none⟩] }])] }
private def fOther : Function := mkF "g" (.named "_C" "pkg.other._C")

/-- COUNTEREXAMPLE to the unrestricted `functions_perm` (`functions_perm_counterexample`): after `g`
    the set of imports contains `pkg.m._C`, which silences the marker of `f`; in the other order `f`
    keeps its marker.  The import `pkg.m._C` is not canonical. -/
example :
    r18_textOf (createFunctions ⟨apiR, true⟩ false [fOther, fOwn] stM)
      = "\n// TODO An internal class must not be used as a type in a public class.\n@Pure\nfun g(\n    x: _C\n)\n"
        ++ "\n@Pure\nfun f(\n    x: _C\n)\n"
    ∧ r18_textOf (createFunctions ⟨apiR, true⟩ false [fOwn, fOther] stM)
      = "\n// TODO An internal class must not be used as a type in a public class.\n@Pure\nfun f(\n    x: _C\n)\n"
        ++ "\n// TODO An internal class must not be used as a type in a public class.\n@Pure\nfun g(\n    x: _C\n)\n"
    ∧ canonicalOk apiR stM (createFunctions ⟨apiR, true⟩ false [fOther, fOwn] stM) = false := by decide +kernel

private def clsA : Class :=
  { id := "pkg/m/A", name := "A", isPublic := true,
    typeParams := [{ name := "T", type := none, variance := .invariant }] }
private def clsB : Class :=
  { id := "pkg/m/B", name := "B", isPublic := true,
    methods := [{ (mkF "h" (.typeVar "T")) with
      typeVars := [{ name := "T", upperBound := none }],
      params := [{ id := "s", name := "self", isOptional := false, default := .none, assignedBy := .implicit,
                   type := none }, mkP (.typeVar "T")] }] }

/-- FORMERLY the counterexample to the unrestricted `classes_perm`: `classGenerics` was not reset for a
    class without type parameters, so the method `h<T>` of `B` lost its type parameter when `B` came after
    the generic class `A<T>`.  Now the generics of `A` are scoped to `A`: `B.h` prints `fun h<T>(` in BOTH
    orders, the blocks are permuted, and both runs end with the `classGenerics` they started with; the
    side condition of `classes_perm_partial` holds (nothing is imported). -/
example :
    r18_textOf (createClasses env0 false [clsA, clsB] stM)
      = "\nclass A<T>()\n" ++ "\nclass B() {\n    @Pure\n    fun h<T>(\n        x: T\n    )\n}\n"
    ∧ r18_textOf (createClasses env0 false [clsB, clsA] stM)
      = "\nclass B() {\n    @Pure\n    fun h<T>(\n        x: T\n    )\n}\n" ++ "\nclass A<T>()\n"
    ∧ r18_classBlock env0 false stM clsB = "\nclass B() {\n    @Pure\n    fun h<T>(\n        x: T\n    )\n}\n"
    ∧ (match createClasses env0 false [clsA, clsB] stM with
        | .ok (_, s1) => s1.classGenerics == stM.classGenerics
        | .error _ => false) = true
    ∧ canonicalOk ({} : API) stM (createClasses env0 false [clsA, clsB] stM) = true := by
  decide +kernel

/-- … and nested: the inner generic class `A<T>` of `Outer<U>` puts the generics of `Outer` back, so the
    method `k<T>` of `Outer` after it still prints its own type parameter `T` (but not `U`) -/
private def clsOuter : Class :=
  { id := "pkg/m/Outer", name := "Outer", isPublic := true,
    typeParams := [{ name := "U", type := none, variance := .invariant }],
    classes := [clsA],
    methods := [{ (mkF "k" (.typeVar "T")) with
      typeVars := [{ name := "T", upperBound := none }, { name := "U", upperBound := none }],
      params := [{ id := "s", name := "self", isOptional := false, default := .none, assignedBy := .implicit,
                   type := none }, mkP (.typeVar "T")] }] }

example :
    r18_textOf (createClassString env0 3 clsOuter "" true { stM with classGenerics := ["X"] })
      = "class Outer<U>() {\n    class A<T>()\n\n    @Pure\n    fun k<T>(\n        x: T\n    )\n}"
    ∧ (match createClassString env0 3 clsOuter "" true { stM with classGenerics := ["X"] } with
        | .ok (_, s1) => s1.classGenerics == ["X"]
        | .error _ => false) = true := by
  decide +kernel

/-! #### an unrelated module, and a module that is not unrelated -/

private def clsD : Class := { id := "pkg/other/D", name := "D", isPublic := true }
private def modOther : Module := { id := "pkg/other", name := "other", classes := [clsD] }
/-- `f` and `g` of `pkg/m` reference the class `D` of `pkg/other`; `k` references `Foo` of a library `lib` -/
private def fD : Function := mkF "f" (.named "D" "pkg.other.D")
private def gD : Function := mkF "g" (.list [.named "D" "pkg.other.D"])
private def kExt : Function := mkF "k" (.named "Foo" "lib.Foo")
private def api1 : API := { package := "pkg", modules := [modM [fD, gD, kExt], modOther], classes := [clsD] }
private def clsE : Class := { id := "pkg/extra/E", name := "E", isPublic := true }
private def modExtra : Module := { id := "pkg/extra", name := "extra", classes := [clsE] }
/-- `api1` plus the unrelated module `pkg/extra` -/
private def api2 : API := { api1 with modules := api1.modules ++ [modExtra], classes := api1.classes ++ [clsE] }
private def clsFoo : Class := { id := "pkg/sub/lib/Foo", name := "Foo", isPublic := true }
private def modLib : Module := { id := "pkg/sub/lib", name := "lib", classes := [clsFoo] }
/-- `api1` plus a module `pkg/sub/lib` that defines a class with the SAME NAME `Foo` as the library class -/
private def api3 : API := { api1 with modules := api1.modules ++ [modLib], classes := api1.classes ++ [clsFoo] }

/-- the stub of `pkg/m`, with and without the unrelated module: identical; the side conditions of
    `unrelated_module_added` hold (the only outside class is `lib.Foo`, `E` is not connected to it) -/
example :
    modText (callGenerator ⟨api1, true⟩ (modM [fD, gD, kExt]) {})
      = "package pkg.m\n\nfrom lib import Foo\nfrom pkg.other import D\n"
        ++ "\n@Pure\nfun f(\n    x: D\n)\n" ++ "\n@Pure\nfun g(\n    x: List<D>\n)\n" ++ "\n@Pure\nfun k(\n    x: Foo\n)\n"
    ∧ modText (callGenerator ⟨api2, true⟩ (modM [fD, gD, kExt]) {})
      = modText (callGenerator ⟨api1, true⟩ (modM [fD, gD, kExt]) {})
    ∧ (match callGenerator ⟨api1, true⟩ (modM [fD, gD, kExt]) {} with
        | .ok (_, s1) => s1.outside == ["lib.Foo"] && r18_connected api1 "lib.Foo" clsE == false
        | .error _ => false) = true := by decide +kernel

/-- COUNTEREXAMPLE showing that the side condition of `unrelated_module_added` is necessary
    (`same_name_class_changes_import`): the added module defines a class whose id ends with `lib/Foo`; the
    lookup of `_add_to_imports` now finds it, and the import line of `pkg/m` changes. -/
example :
    modText (callGenerator ⟨api3, true⟩ (modM [fD, gD, kExt]) {})
      = "package pkg.m\n\nfrom pkg.`sub`.lib import Foo\nfrom pkg.other import D\n"
        ++ "\n@Pure\nfun f(\n    x: D\n)\n" ++ "\n@Pure\nfun g(\n    x: List<D>\n)\n" ++ "\n@Pure\nfun k(\n    x: Foo\n)\n"
    ∧ r18_connected api1 "lib.Foo" clsFoo = true := by decide +kernel

/-- the two functions in both orders: same header, same import block, permuted blocks; the side condition
    of `functions_perm_partial` holds (both imports are canonical) -/
example :
    modText (callGenerator ⟨api1, true⟩ (modM [gD, fD]) {})
      = "package pkg.m\n\nfrom pkg.other import D\n" ++ "\n@Pure\nfun g(\n    x: List<D>\n)\n" ++ "\n@Pure\nfun f(\n    x: D\n)\n"
    ∧ modText (callGenerator ⟨api1, true⟩ (modM [fD, gD]) {})
      = "package pkg.m\n\nfrom pkg.other import D\n" ++ "\n@Pure\nfun f(\n    x: D\n)\n" ++ "\n@Pure\nfun g(\n    x: List<D>\n)\n"
    ∧ canonicalOk api1 stM (createFunctions ⟨api1, true⟩ false [fD, gD, kExt] stM) = true
    ∧ r18_functionBlock ⟨api1, true⟩ false stM gD = "\n@Pure\nfun g(\n    x: List<D>\n)\n" := by decide +kernel

/-- the side conditions of `module_reorder_partial` hold for the module `pkg/m` of `api1` (all imports are
    canonical; there are no classes) -/
example :
    (match callGenerator ⟨api1, true⟩ (modM [fD, gD, kExt]) {} with
      | .ok (_, s1) => s1.imports == ["pkg.other.D", "lib.Foo"]
          && s1.imports.all fun q => decide (r18_selfIns api1 (r18_modStart "pkg/m" {}) q)
      | .error _ => false) = true := by decide +kernel

end StubGen.C18
