/-
C06 — the two halves composed: from the argument list of a `def` to the parameter list in the stub.
-/
import StubGen.Theorems.C06
import StubGen.Theorems.C06a

namespace StubGen.C06b

open StubGen

/-- the arguments of the `def` that are not the implicit receiver (`self` / `cls`) -/
def explicitArgs (args : List Arg) : List Arg := args.filter fun a => !(a.isSelf || a.isCls)

theorem implicit_iff (a : Arg) (k : Assign) (h : argumentKind a = .ok k) : (k != .implicit) = !(a.isSelf || a.isCls) := by
  unfold argumentKind at h
  cases hs : (a.isSelf || a.isCls) with
  | true => simp only [hs, if_true, Except.ok.injEq] at h; subst h; rfl
  | false =>
    simp only [hs, Bool.false_eq_true, if_false] at h
    repeat' split at h
    all_goals first
      | (simp only [Except.ok.injEq] at h; subst h; rfl)
      | cases h

theorem explicit_arg_names {env : AEnv} {f : FuncDef} {fid : String} : ∀ {args : List Arg} {ps : List Parameter},
    List.Forall₂ (fun (a : Arg) (p : Parameter) => ∃ s1 s2, parseParameter env f fid a s1 = .ok (p, s2)) args ps →
    (Spec.receiverRemoved ps).map (·.name) = (explicitArgs args).map (·.name)
  | [], [], _ => rfl
  | a :: as, p :: ps, h => by
    rw [List.forall₂_cons] at h
    obtain ⟨⟨s1, s2, hp⟩, hrest⟩ := h
    obtain ⟨hn, _, hk, _⟩ := C06a.parseParameter_fields env f fid a s1 s2 p hp
    have ih := explicit_arg_names hrest
    unfold Spec.receiverRemoved explicitArgs at *
    simp only [List.filter_cons, implicit_iff a p.assignedBy hk]
    cases (a.isSelf || a.isCls) with
    | true => simpa using ih
    | false => simp only [Bool.not_false, if_true, List.map_cons, hn]; rw [ih]
  | [], _ :: _, h => by cases h
  | _ :: _, [], h => by cases h

/-- FROM THE `def` TO THE STUB: if the analyser parses the argument list of a function and the generator renders the
    parameters it produced, then the parameter list in the stub consists of exactly the arguments of the `def` without the
    implicit receiver, in source order, each under its Python name converted to the naming convention and keyword-escaped,
    carrying `@PythonName("…")` exactly when the rendered name differs. -/
theorem def_to_stub_parameters (env : AEnv) (f : FuncDef) (fid : String) (s s' : VSt) (ps : List Parameter)
    (h1 : parseParameters env f fid f.args s = .ok (ps, s'))
    (genv : Env) (indent : String) (isInst : Bool) (gst gst' : St) (text : String)
    (h2 : createParameterString genv ps indent isInst gst = .ok (text, gst'))
    (hwf : Spec.WFReceiver ps isInst) :
    ∃ outs : List ParamOut,
      text = Spec.paramListText indent indentation (outs.map ParamOut.render) ∧
      outs.map (·.name) = (explicitArgs f.args).map (fun a => escapeKeyword (convertName a.name genv.safe)) ∧
      outs.map (·.annotation) = (explicitArgs f.args).map (fun a =>
        if convertName a.name genv.safe ≠ a.name then nameAnnotation a.name ++ " " else "") := by
  obtain ⟨outs, _, hpairs, htext⟩ := C06.params_match_spec genv ps indent isInst gst gst' text h2 hwf
  have hnames := explicit_arg_names (C06a.parseParameters_pointwise env f fid f.args s s' ps h1)
  refine ⟨outs, htext, ?_, ?_⟩
  · have := congrArg (List.map Prod.snd) hpairs
    simp only [List.map_map, Function.comp_def, Spec.paramName] at this
    rw [this]
    have h3 : (Spec.receiverRemoved ps).map (fun p => escapeKeyword (convertName p.name genv.safe))
        = ((Spec.receiverRemoved ps).map (·.name)).map (fun n => escapeKeyword (convertName n genv.safe)) := by
      simp [List.map_map, Function.comp_def]
    rw [h3, hnames]
    simp [List.map_map, Function.comp_def]
  · have := congrArg (List.map Prod.fst) hpairs
    simp only [List.map_map, Function.comp_def, Spec.paramAnnotation] at this
    rw [this]
    have h3 : (Spec.receiverRemoved ps).map (fun p => if convertName p.name genv.safe ≠ p.name then nameAnnotation p.name ++ " " else "")
        = ((Spec.receiverRemoved ps).map (·.name)).map (fun n => if convertName n genv.safe ≠ n then nameAnnotation n ++ " " else "") := by
      simp [List.map_map, Function.comp_def]
    rw [h3, hnames]
    simp [List.map_map, Function.comp_def]

end StubGen.C06b
