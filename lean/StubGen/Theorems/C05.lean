/-
C05 — the Safe-DS type text written by the generator (`typeStr`, model of `_create_type_string`) is
the image of the API type under the documented structural mapping `Spec.typeText`, at every nesting
depth and independently of the generator state, the API and the position; rendering never raises on
renderable types and only adds TODO keys / imports.  Proof machinery: `StubGen.Proofs.TypeText`.

Two hypotheses are new since the model followed the generator fixes (see (0) and (2) below):
`tt_litOk` (the text is `Spec.typeText` unless a union of exactly one `Literal[…]` and `None` repeats a
literal value — there the specification deduplicates and the generator does not) and
`tt_seqImportable` (totality needs a qualified name on generic classes with arguments, which are now
imported).  Unconditionally the text is `tt_typeText`.
-/
import StubGen.Proofs.TypeText

namespace StubGen.C05

open StubGen

/-! ### (0) the one place where generator and `Spec.typeText` part

Since the literal members of a union are deduplicated, `Spec.typeText` deduplicates the literal values
in *both* literal shortcuts of the union case; the generator does so only where several `Literal[…]`
members are merged.  For a union of exactly one `Literal[…]` and `None` it prints the values as they
are.  `tt_litOk t` (defined in `Proofs/TypeText.lean`) says that no such union with repeated literal
values occurs in `t`; `tt_typeText` is `Spec.typeText` with the generator's behaviour at that place. -/

private def tLitDup : AType := .union [.literal [.int 1, .int 1], .named "None" "builtins.None"]

/-- counterexample to `typeStr_text` without the hypothesis `tt_litOk`: a renderable type on which
    the generator and `Spec.typeText` differ -/
example : (match typeStr ⟨{}, true⟩ tLitDup {} with
    | .ok (s, _) => some s
    | .error _ => none) = some "literal<1, 1, null>" := by decide
example : Spec.typeText true tLitDup = "literal<1, null>" := by decide
example : Spec.renderable tLitDup = true ∧ tt_litOk tLitDup = false := by decide
example : tt_typeText true tLitDup = "literal<1, 1, null>" := by decide
/-- a lone `Literal[1, 1]` is not deduplicated by either side -/
example : Spec.typeText true (.literal [.int 1, .int 1]) = "literal<1, 1>" ∧
    tt_litOk (.literal [.int 1, .int 1]) = true := by decide

/-- `tt_litOk` on a union, spelled out: if the union consists of exactly one literal member and `None`,
    the literal's values are pairwise distinct; and all members are `tt_litOk` -/
theorem litOk_union (ts : List AType) :
    tt_litOk (.union ts) = true ↔
      ((ts.length == 2 && (ts.filter Spec.isLit).length == 1 && ts.any Spec.isNoneType) = true →
        Spec.dedupLit ((ts.filter Spec.isLit).flatMap Spec.litsOf) = (ts.filter Spec.isLit).flatMap Spec.litsOf) ∧
      tt_litOkL ts = true := by
  rw [tt_litOk, Bool.and_eq_true, Bool.or_eq_true, Bool.not_eq_true', decide_eq_true_eq]
  cases (ts.length == 2 && (ts.filter Spec.isLit).length == 1 && ts.any Spec.isNoneType) <;> simp

/-- sufficient: every `Literal[…]` in the type lists pairwise distinct values -/
theorem litOk_of_distinct_literals (t : AType) (h : tt_litNodup t = true) : tt_litOk t = true :=
  tt_litOk_of_litNodup t h

/-- on `tt_litOk` types the two texts agree -/
theorem typeText_model_eq (safe : Bool) (t : AType) (hl : tt_litOk t = true) :
    tt_typeText safe t = Spec.typeText safe t :=
  tt_typeText_eq safe t hl

/-- (1) compositional and position-independent: whenever the generator renders a type, the text is
    `tt_typeText` of the type and the naming flag — for every state, API and call site … -/
theorem typeStr_text_model (env : Env) (t : AType) (st st' : St) (s : String)
    (h : typeStr env t st = .ok (s, st')) : s = tt_typeText env.safe t :=
  (tt_typeStr_gpost env t st s st' h).1

/-- … which is `Spec.typeText` unless a one-literal-and-`None` union repeats a literal value
    (statement changed: hypothesis `hl` is new, see the counterexample above). -/
theorem typeStr_text (env : Env) (t : AType) (st st' : St) (s : String)
    (h : typeStr env t st = .ok (s, st')) (hl : tt_litOk t = true) : s = Spec.typeText env.safe t :=
  (typeStr_gpost env t hl st s st' h).1

theorem typeStrs_text (env : Env) (ts : List AType) (st st' : St) (r : List String)
    (h : typeStrs env ts st = .ok (r, st')) (hl : tt_litOkL ts = true) : r = Spec.typeTexts env.safe ts :=
  (typeStrs_gpost env ts hl st r st' h).1

theorem typeStrsSkipLit_text (env : Env) (ts : List AType) (st st' : St) (r : List String)
    (h : typeStrsSkipLit env ts st = .ok (r, st')) (hl : tt_litOkL ts = true) :
    r = Spec.nonLitTexts env.safe ts :=
  (typeStrsSkipLit_gpost env ts hl st r st' h).1

theorem typeStrsNamed_text (env : Env) (pre : String) (i : Nat) (ts : List AType) (st st' : St)
    (r : List String) (h : typeStrsNamed env pre i ts st = .ok (r, st')) (hl : tt_litOkL ts = true) :
    r = Spec.namedTexts env.safe pre i ts :=
  (typeStrsNamed_gpost env ts hl pre i st r st' h).1

/-- position independence, spelled out: two successful renderings of the same type under the same
    naming flag agree, whatever the APIs, states and modules involved. -/
theorem typeStr_position_independent (env env' : Env) (t : AType) (st st' st1 st1' : St) (s s' : String)
    (hsafe : env.safe = env'.safe)
    (h : typeStr env t st = .ok (s, st1)) (h' : typeStr env' t st' = .ok (s', st1')) : s = s' := by
  rw [typeStr_text_model env t st st1 s h, typeStr_text_model env' t st' st1' s' h', hsafe]

/-- (2) the `ValueError("Unexpected type")`, `IndexError` and `ValueError` (no import source) branches
    are unreachable on renderable types all of whose generic classes with type arguments have a
    qualified name.  (Statement changed: `hq` is new.  The generator now imports the class of a
    `namedSeq`, and `_add_to_imports("")` raises; `Spec.renderable` does not ask for a qualified name
    there, see the example `namedSeq "C" "" [int]` below.) -/
theorem typeStr_total (env : Env) (st : St) (t : AType) (hr : Spec.renderable t = true)
    (hq : tt_seqImportable t = true) : ∃ s st', typeStr env t st = .ok (s, st') :=
  typeStr_tot env t hr hq st

/-- (1)+(2): on such types the generator writes exactly the text `tt_typeText` … -/
theorem typeStr_renders_model (env : Env) (st : St) (t : AType) (hr : Spec.renderable t = true)
    (hq : tt_seqImportable t = true) : ∃ st', typeStr env t st = .ok (tt_typeText env.safe t, st') := by
  obtain ⟨s, st', h⟩ := typeStr_total env st t hr hq
  exact ⟨st', by rw [← typeStr_text_model env t st st' s h]; exact h⟩

/-- … that is, the specified text (on `tt_litOk` types). -/
theorem typeStr_renders_spec (env : Env) (st : St) (t : AType) (hr : Spec.renderable t = true)
    (hq : tt_seqImportable t = true) (hl : tt_litOk t = true) :
    ∃ st', typeStr env t st = .ok (Spec.typeText env.safe t, st') := by
  obtain ⟨s, st', h⟩ := typeStr_total env st t hr hq
  exact ⟨st', by rw [← typeStr_text env t st st' s h hl]; exact h⟩

/-- (5) rendering a type only adds TODO keys, imports and outside-package classes; the emission log,
    the queued reexports, the class generics and the module ids are untouched. -/
theorem todos_imports_only_grow (env : Env) (t : AType) (st st' : St) (s : String)
    (h : typeStr env t st = .ok (s, st')) :
    st.todos ⊆ st'.todos ∧ st.imports ⊆ st'.imports ∧ st.outside ⊆ st'.outside ∧
    st'.log = st.log ∧ st'.reexports = st.reexports ∧ st'.classGenerics = st.classGenerics ∧
    st'.moduleId = st.moduleId ∧ st'.reexportModuleId = st.reexportModuleId ∧
    st'.creatingReexport = st.creatingReexport :=
  have g := (tt_typeStr_gpost env t st s st' h).2
  ⟨g.todos, g.imports, g.outside, g.log, g.reexports, g.classGenerics, g.moduleId,
   g.reexportModuleId, g.creatingReexport⟩

/-! ### (3) union normalisation, stated on `Spec.unionText` (and hence on the generator by (1)) -/

/-- the member list that `Spec.unionText` prints inside `union<…>` (`unionMembers`, defined in
    `Proofs/TypeText.lean`) is literally the list computed by the function -/
theorem unionMembers_def (members : List String) :
    unionMembers members =
      if (sortStrings (Spec.dedup members)).contains "Nothing?" then
        (sortStrings (Spec.dedup members)).filter (· != "Nothing?") ++ ["Nothing?"]
      else sortStrings (Spec.dedup members) := rfl

/-- complete case analysis of the result: empty, the single member, the `T?` shorthand, or
    `union<…>` over `unionMembers` — decided by the *set* of members and the flag alone. -/
theorem union_shape (members : List String) (b : Bool) :
    (members = [] ∧ Spec.unionText members b = "") ∨
    (∃ m, members ≠ [] ∧ (∀ x ∈ members, x = m) ∧ Spec.unionText members b = m) ∨
    (∃ x, x ≠ "Nothing?" ∧ (∀ m, m ∈ members ↔ m = x ∨ m = "Nothing?") ∧ b = true ∧
      Spec.unionText members b = x ++ "?") ∨
    (2 ≤ (unionMembers members).length ∧
      ¬ (∃ x, x ≠ "Nothing?" ∧ (∀ m, m ∈ members ↔ m = x ∨ m = "Nothing?") ∧ b = true) ∧
      Spec.unionText members b = "union<" ++ joinWith ", " (unionMembers members) ++ ">") :=
  unionText_cases members b

/-- (a) the member list inside `union<…>` has no duplicates and exactly the given members. -/
theorem union_dedup (members : List String) (b : Bool) (ms : List String)
    (_hres : Spec.unionText members b = "union<" ++ joinWith ", " ms ++ ">")
    (hms : ms = unionMembers members) : ms.Nodup ∧ ∀ m, m ∈ ms ↔ m ∈ members := by
  subst hms
  exact ⟨unionMembers_nodup members, mem_unionMembers members⟩

/-- (b) `Nothing?`, when present, is the last member (and occurs only there). -/
theorem union_none_last (members : List String) (h : "Nothing?" ∈ members) :
    ∃ init, unionMembers members = init ++ ["Nothing?"] ∧ "Nothing?" ∉ init :=
  unionMembers_none_last members h

/-- (c) a union all of whose members are the same text is that text. -/
theorem union_single (members : List String) (m : String) (b : Bool) (hne : members ≠ [])
    (h : ∀ x ∈ members, x = m) : Spec.unionText members b = m :=
  unionText_single members m b hne h

/-- (d) for a member `x` other than `Nothing?`: the result is `x?` iff the set of members is exactly
    `{x, Nothing?}` and some member is of a nullable kind. -/
theorem nullable_shorthand_iff (members : List String) (b : Bool) (x : String) (hx : x ≠ "Nothing?")
    (hmem : x ∈ members) :
    Spec.unionText members b = x ++ "?" ↔ (∀ m, m ∈ members ↔ m = x ∨ m = "Nothing?") ∧ b = true :=
  unionText_shorthand_iff members b x hx hmem

/-- (d) needs `x ∈ members`: a result can end in `?` without the shorthand having been applied. -/
example : Spec.unionText ["Nothing?"] true = "Nothing" ++ "?" := by decide

/-- (e) the result depends on the set of members only … -/
theorem union_set_insensitive (members members' : List String) (b : Bool)
    (h : ∀ m, m ∈ members ↔ m ∈ members') : Spec.unionText members b = Spec.unionText members' b :=
  unionText_congr h b

/-- … in particular not on their order. -/
theorem union_order_insensitive (members members' : List String) (b : Bool)
    (h : List.Perm members members') : Spec.unionText members b = Spec.unionText members' b :=
  unionText_congr (fun _ => h.mem_iff) b

/-- at type level: a union without `Literal` members is order-insensitive.  (With literal members the
    merged `literal<…>` lists the literals in source order, see the example below.) -/
theorem union_type_order_insensitive (safe : Bool) (ts ts' : List AType)
    (h : ∀ t ∈ ts, Spec.isLit t = false) (hp : List.Perm ts ts') :
    Spec.typeText safe (.union ts) = Spec.typeText safe (.union ts') :=
  typeText_union_perm safe ts ts' h hp

/-! ### (4) the documented mapping, constructor by constructor -/

theorem builtins_mapped (safe : Bool) (q : String) :
    Spec.typeText safe (.named "int" q) = "Int" ∧ Spec.typeText safe (.named "str" q) = "String" ∧
    Spec.typeText safe (.named "bool" q) = "Boolean" ∧ Spec.typeText safe (.named "float" q) = "Float" ∧
    Spec.typeText safe (.named "None" q) = "Nothing?" :=
  ⟨rfl, rfl, rfl, rfl, rfl⟩

/-- classes, enums and generic classes without arguments: their name, back-quoted when it is a
    Safe-DS keyword (statement changed: was `= n`) -/
theorem class_mapped (safe : Bool) (n q : String) (h : Spec.builtin n = none) :
    Spec.typeText safe (.named n q) = escapeKeyword n := by
  rw [Spec.typeText, h]; rfl

/-- … so for a name that is not a keyword it is the name itself (the former statement) -/
theorem class_mapped_plain (safe : Bool) (n q : String) (h : Spec.builtin n = none)
    (hk : Generated.keywords.contains n = false) : Spec.typeText safe (.named n q) = n := by
  rw [class_mapped safe n q h, escapeKeyword, hk]; rfl

theorem list_mapped (safe : Bool) (t : AType) (ts : List AType) :
    Spec.typeText safe (.list []) = "List<Any>" ∧
    Spec.typeText safe (.list [t]) = "List<" ++ Spec.typeText safe t ++ ">" ∧
    Spec.typeText safe (.list (t :: ts)) = "List<" ++ joinWith ", " (Spec.typeTexts safe (t :: ts)) ++ ">" :=
  ⟨rfl, rfl, rfl⟩

theorem set_mapped (safe : Bool) (t : AType) (ts : List AType) :
    Spec.typeText safe (.set []) = "Set<Any>" ∧
    Spec.typeText safe (.set [t]) = "Set<" ++ Spec.typeText safe t ++ ">" ∧
    Spec.typeText safe (.set (t :: ts)) = "Set<" ++ joinWith ", " (Spec.typeTexts safe (t :: ts)) ++ ">" :=
  ⟨rfl, rfl, rfl⟩

/-- `Sequence[…]`, `Collection[…]`, generic classes with arguments (statement changed: the head is
    `escapeKeyword n`, was `n`) -/
theorem namedSeq_mapped (safe : Bool) (n q : String) (t : AType) (ts : List AType) :
    Spec.typeText safe (.namedSeq n q []) = escapeKeyword n ++ "<Any>" ∧
    Spec.typeText safe (.namedSeq n q (t :: ts)) =
      escapeKeyword n ++ "<" ++ joinWith ", " (Spec.typeTexts safe (t :: ts)) ++ ">" :=
  ⟨rfl, rfl⟩

theorem dict_mapped (safe : Bool) (k v : AType) :
    Spec.typeText safe (.dict k v) = "Map<" ++ Spec.typeText safe k ++ ", " ++ Spec.typeText safe v ++ ">" := rfl

theorem tuple_mapped (safe : Bool) (ts : List AType) :
    Spec.typeText safe (.tuple ts) = "Tuple<" ++ joinWith ", " (Spec.typeTexts safe ts) ++ ">" := rfl

theorem typeTexts_map (safe : Bool) (ts : List AType) :
    Spec.typeTexts safe ts = ts.map (Spec.typeText safe) :=
  typeTexts_eq_map safe ts

theorem literal_mapped (safe : Bool) (ls : List Lit) :
    Spec.typeText safe (.literal ls) = "literal<" ++ joinWith ", " (ls.map Spec.litText) ++ ">" := rfl

theorem final_mapped (safe : Bool) (t : AType) : Spec.typeText safe (.final t) = Spec.typeText safe t := by
  rw [Spec.typeText]

theorem typeVar_mapped (safe : Bool) (n : String) (u : AType) :
    Spec.typeText safe (.typeVar n) = escapeKeyword (convertName n safe) ∧
    Spec.typeText safe (.typeVarB n u) = escapeKeyword (convertName n safe) :=
  ⟨rfl, rfl⟩

theorem callable_mapped (safe : Bool) (ps : List AType) (r : AType) :
    Spec.typeText safe (.callable ps r) =
      "(" ++ joinWith ", " (Spec.namedTexts safe "param_" 1 ps) ++ ") -> " ++
      (match r with
       | .tuple ts => "(" ++ joinWith ", " (Spec.namedTexts safe "result_" 1 ts) ++ ")"
       | other => if Spec.isNamedNone other then "()"
                  else convertName "result_1" safe ++ ": " ++ Spec.typeText safe other) :=
  typeText_callable safe ps r

/-- `Optional[T]` / `T | None` is `T?` for every `T` of a nullable kind (named, list, set, dict, tuple) -/
theorem optional_mapped (safe : Bool) (T : AType) (hl : Spec.isLit T = false)
    (hk : Spec.nullableKind T = true) (hx : Spec.typeText safe T ≠ "Nothing?") :
    Spec.typeText safe (.union [T, .named "None" "builtins.None"]) = Spec.typeText safe T ++ "?" ∧
    Spec.typeText safe (.union [.named "None" "builtins.None", T]) = Spec.typeText safe T ++ "?" := by
  have h := optional_text safe T hl hk hx
  refine ⟨h, ?_⟩
  rw [← h]
  refine (union_type_order_insensitive safe _ _ ?_ (List.Perm.swap _ _ _))
  intro t ht
  rcases List.mem_cons.1 ht with rfl | ht
  · rfl
  · rw [List.mem_singleton.1 ht]; exact hl

/-- `Optional[C]` for a class `C` (statement changed: `escapeKeyword n ++ "?"`, was `n ++ "?"`) -/
theorem optional_class_mapped (safe : Bool) (n q : String) (hb : Spec.builtin n = none)
    (hq : q ≠ "builtins.None") (hn : n ≠ "Nothing?") :
    Spec.typeText safe (.union [.named n q, .named "None" "builtins.None"]) = escapeKeyword n ++ "?" := by
  have h := (optional_mapped safe (.named n q) rfl (by simpa [Spec.nullableKind] using hq)
    (by rw [class_mapped safe n q hb]; exact tt_escapeKeyword_ne_nothing n hn)).1
  rw [h, class_mapped safe n q hb]

/-- several `Literal[…]` members of a union are merged into one `literal<…>` whose values are those of
    the members without repetitions (first occurrences kept; `true` and `1` stay different) -/
theorem merged_literals_dedup (l : List Lit) :
    (Spec.dedupLit l).Nodup ∧ (∀ x, x ∈ Spec.dedupLit l ↔ x ∈ l) ∧ (Spec.dedupLit l).Sublist l ∧
    (l.Nodup → Spec.dedupLit l = l) :=
  ⟨tt_dedupLit_nodup l, tt_mem_dedupLit l, tt_dedupLit_sublist l, tt_dedupLit_of_nodup l⟩

/-- the union case with at least two literal members (and not just `None` besides them) -/
theorem union_literals_mapped (safe : Bool) (ts : List AType) (h2 : (ts.filter Spec.isLit).length ≥ 2)
    (hn : ((ts.filter (fun t => !Spec.isLit t)).length == 1
      && (ts.filter (fun t => !Spec.isLit t)).any Spec.isNoneType) = false) :
    Spec.typeText safe (.union ts) =
      Spec.unionText (Spec.nonLitTexts safe ts ++
        ["literal<" ++ joinWith ", "
          ((Spec.dedupLit ((ts.filter Spec.isLit).flatMap Spec.litsOf)).map Spec.litText) ++ ">"])
        (ts.any Spec.nullableKind) := by
  rw [typeText_union, if_pos h2, hn]
  rfl

/-- a union without literal members is the normalised union of the members' texts -/
theorem union_mapped (safe : Bool) (ts : List AType) (h : ∀ t ∈ ts, Spec.isLit t = false) :
    Spec.typeText safe (.union ts) = Spec.unionText (Spec.typeTexts safe ts) (ts.any Spec.nullableKind) :=
  typeText_union_noLit safe ts h

/-! ### Non-vacuity: closed instances, under both naming flags, on the specification and on the generator -/

section Examples

private def tInt : AType := .named "int" "builtins.int"
private def tStr : AType := .named "str" "builtins.str"
private def tFloat : AType := .named "float" "builtins.float"
private def tNone : AType := .named "None" "builtins.None"
private def tCls : AType := .named "my_class" "pkg.mod.my_class"
/-- `dict[str, list[int | None]]` -/
private def ex1 : AType := .dict tStr (.list [.union [tInt, tNone]])
/-- `Literal[1] | Literal["a"] | None` -/
private def ex2 : AType := .union [.literal [.int 1], .literal [.str "a"], tNone]
/-- `Callable[[int, str], tuple[int, float]]` -/
private def ex3 : AType := .callable [tInt, tStr] (.tuple [tInt, tFloat])
/-- a union with duplicates, a class and `None` in the middle -/
private def ex4 : AType := .union [tInt, tStr, tInt, tCls, tNone, tStr]
/-- `set[my_class] | None`, `Final[_T]`-like wrappers, a keyword-named type variable -/
private def ex5 : AType := .final (.union [.set [tCls], tNone])
private def ex6 : AType := .callable [.typeVar "from"] tNone

private def env1 (safe : Bool) : Env := { api := {}, safe := safe }
private def st1 : St := { moduleId := "pkg/other", todos := ["variadic"], imports := ["a.b"] }
private def text (r : Except PyErr (String × St)) : Option String :=
  match r with
  | .ok (s, _) => some s
  | .error _ => none

example : Spec.typeText true ex1 = "Map<String, List<Int?>>" := by decide
example : Spec.typeText false ex1 = "Map<String, List<Int?>>" := by decide
example : Spec.typeText true ex2 = "literal<1, \"a\", null>" := by decide
example : Spec.typeText true ex3 = "(param1: Int, param2: String) -> (result1: Int, result2: Float)" := by decide
example : Spec.typeText false ex3 = "(param_1: Int, param_2: String) -> (result_1: Int, result_2: Float)" := by
  decide
example : Spec.typeText true ex4 = "union<Int, String, my_class, Nothing?>" := by decide
example : Spec.typeText false ex4 = "union<Int, String, my_class, Nothing?>" := by decide
example : Spec.typeText true ex5 = "Set<my_class>?" := by decide
example : Spec.typeText true ex6 = "(param1: `from`) -> ()" := by decide
/-- the hypotheses of `typeStr_total` / `typeStr_text` are satisfiable -/
example : Spec.renderable ex1 = true ∧ Spec.renderable ex2 = true ∧ Spec.renderable ex3 = true ∧
    Spec.renderable ex4 = true ∧ Spec.renderable ex5 = true ∧ Spec.renderable ex6 = true := by decide
example : tt_seqImportable ex1 = true ∧ tt_seqImportable ex2 = true ∧ tt_seqImportable ex3 = true ∧
    tt_seqImportable ex4 = true ∧ tt_seqImportable ex5 = true ∧ tt_seqImportable ex6 = true := by decide
example : tt_litOk ex1 = true ∧ tt_litOk ex2 = true ∧ tt_litOk ex3 = true ∧
    tt_litOk ex4 = true ∧ tt_litOk ex5 = true ∧ tt_litOk ex6 = true := by decide
example : tt_litNodup ex2 = true := by decide
example : Spec.renderable (.list [.enum ["a"]]) = false := by decide
/-- the generator itself, from two different states and under both flags -/
example : text (typeStr (env1 true) ex1 {}) = some "Map<String, List<Int?>>" := by decide
example : text (typeStr (env1 true) ex1 st1) = some "Map<String, List<Int?>>" := by decide
example : text (typeStr (env1 true) ex2 st1) = some "literal<1, \"a\", null>" := by decide
example : text (typeStr (env1 false) ex3 st1) =
    some "(param_1: Int, param_2: String) -> (result_1: Int, result_2: Float)" := by decide
example : text (typeStr (env1 true) ex4 st1) = some "union<Int, String, my_class, Nothing?>" := by decide
example : text (typeStr (env1 true) ex5 st1) = some "Set<my_class>?" := by decide
/-- the state really grows (so (5) is not vacuous) and non-renderable types really raise -/
example : (match typeStr (env1 true) ex5 st1 with
    | .ok (_, st') => (st'.todos, st'.imports, st'.outside)
    | .error _ => ([], [], [])) =
    (["variadic", "no set support"], ["a.b", "pkg.mod.my_class"], ["pkg.mod.my_class"]) := by decide
example : text (typeStr (env1 true) (.list [.enum ["a"]]) {}) = none := by decide
example : text (typeStr (env1 true) (.named "C" "") {}) = none := by decide
/-- the hypothesis `tt_seqImportable` of `typeStr_total` is needed: a generic class with arguments and
    no qualified name is `Spec.renderable`, and the generator raises on it -/
example : Spec.renderable (.namedSeq "C" "" [tInt]) = true ∧ tt_seqImportable (.namedSeq "C" "" [tInt]) = false ∧
    text (typeStr (env1 true) (.namedSeq "C" "" [tInt]) {}) = none := by decide
/-- keyword-named classes are back-quoted, generic classes with arguments are imported, names without
    a module path are not -/
example : Spec.typeText true (.named "from" "pkg.mod.from") = "`from`" ∧
    text (typeStr (env1 true) (.named "from" "pkg.mod.from") st1) = some "`from`" ∧
    Spec.typeText true (.namedSeq "in" "pkg.in" [tInt, tInt]) = "`in`<Int, Int>" ∧
    text (typeStr (env1 true) (.namedSeq "in" "pkg.in" [tInt, tInt]) st1) = some "`in`<Int, Int>" := by decide
example : (match typeStr (env1 true) (.namedSeq "Sequence" "typing.Sequence" [tInt]) st1 with
    | .ok (s, st') => (s, st'.todos, st'.imports, st'.outside)
    | .error _ => ("", [], [], [])) =
    ("Sequence<Int>", ["variadic"], ["a.b", "typing.Sequence"], ["typing.Sequence"]) := by decide
example : (match typeStr (env1 true) (.named "C" "C") st1 with
    | .ok (s, st') => (s, st'.imports, st'.outside)
    | .error _ => ("", [], [])) = ("C", ["a.b"], []) := by decide
/-- union normalisation on closed inputs -/
example : Spec.unionText ["B", "Nothing?", "A", "B"] true = "union<A, B, Nothing?>" := by decide
example : unionMembers ["B", "Nothing?", "A", "B"] = ["A", "B", "Nothing?"] := by decide
example : Spec.unionText ["Nothing?", "A", "A"] true = "A?" := by decide
example : Spec.unionText ["Nothing?", "A", "A"] false = "union<A, Nothing?>" := by decide
example : Spec.unionText ["A", "A"] true = "A" := by decide
/-- the `T?` shorthand is limited to nullable kinds (named, list, set, dict, tuple): `Optional[T]` for a
    type variable or a `Sequence[…]` stays a two-member union — specification and generator agree -/
example : Spec.typeText true (.union [.typeVar "T", tNone]) = "union<T, Nothing?>" ∧
    text (typeStr (env1 true) (.union [.typeVar "T", tNone]) st1) = some "union<T, Nothing?>" ∧
    Spec.typeText true (.union [.namedSeq "Sequence" "typing.Sequence" [tInt], tNone]) =
      "union<Sequence<Int>, Nothing?>" := by decide
/-- merged literal members are deduplicated (`true` and `1` stay different) — specification and generator -/
example : Spec.typeText true (.union [.literal [.int 1, .str "a"], .literal [.str "a", .int 2, .bool true], tInt])
      = "union<Int, literal<1, \"a\", 2, true>>" ∧
    text (typeStr (env1 true) (.union [.literal [.int 1, .str "a"], .literal [.str "a", .int 2, .bool true], tInt]) st1)
      = some "union<Int, literal<1, \"a\", 2, true>>" ∧
    text (typeStr (env1 true) (.union [.literal [.int 1, .str "a"], .literal [.str "a", .int 1], tNone]) st1)
      = some "literal<1, \"a\", null>" := by decide
/-- literal members keep their source order: permuting them changes the text -/
example : Spec.typeText true (.union [.literal [.int 1], .literal [.str "a"], tInt]) = "union<Int, literal<1, \"a\">>" ∧
    Spec.typeText true (.union [.literal [.str "a"], .literal [.int 1], tInt]) = "union<Int, literal<\"a\", 1>>" := by
  decide

end Examples

end StubGen.C05
