/-
C14 — type-source preference and the warning option (model: `StubGen.Model.Analyze`,
`reconcileParameter` / `reconcileResults` = `_ast_visitor.py` lines 278-334).

"When both a type hint and a docstring give a type for a parameter or result, the stub uses the hint
under the CODE preference and the docstring type under the DOCSTRING preference; when only one source
gives a type, that type is used under either preference.  The warning option affects log output only —
a discrepancy warning is logged exactly when both sources give different types and warnings are
enabled — and never the generated files."

All statements are for all inputs.  Proof machinery: `StubGen.Proofs.Reconcile`.
Known findings that the statements make explicit (they are part of the theorems, not hidden):
* whenever the docstring type is taken, the parameter's `isOptional`/`default` are REPLACED by the
  docstring default (`param_choice`), also when the code has a default and the docstring has none;
* results appended for surplus documented results without a name are numbered `result_<position + 1>`
  (`result_choice`), 1-based like the names `parseResults` generates; with generated code names and unnamed
  documented results the names of the returned list are pairwise distinct (`appended_names_fresh`);
* a documented result WITHOUT a type still consumes its position (`result_choice`, `result_warn_iff`).
-/
import StubGen.Proofs.Reconcile

set_option linter.unusedSimpArgs false

namespace StubGen.C14

open StubGen

/-! ### 1, 2 — parameters -/

/-- `reconcileParameter` never raises. -/
theorem param_total (env : AEnv) (fid : String) (p : Parameter) (st : VSt) :
    ∃ p' st', reconcileParameter env fid p st = .ok (p', st') :=
  ⟨_, _, l14_reconcileParameter_run env fid p st⟩

/-- The decision table of the parameter type, and what else changes: nothing but `type`,
    `isOptional`, `default`; the latter two change exactly when the docstring type is taken, and then
    they become the docstring's default (finding: the code default is replaced). -/
theorem param_choice (env : AEnv) (fid : String) (p p' : Parameter) (st st' : VSt)
    (h : reconcileParameter env fid p st = .ok (p', st')) :
    p'.type = (match p.type, p.doc.type with
      | _, none => p.type
      | none, some d => some d
      | some h, some d => if env.opts.preferDocstring then some d else some h) ∧
    p'.id = p.id ∧ p'.name = p.name ∧ p'.assignedBy = p.assignedBy ∧ p'.doc = p.doc ∧
    (if p.doc.type.isSome ∧ (p.type.isNone ∨ env.opts.preferDocstring) then
       p'.isOptional = (p.doc.defaultValue != "") ∧ p'.default = .str p.doc.defaultValue
     else p'.isOptional = p.isOptional ∧ p'.default = p.default) := by
  rw [l14_reconcileParameter_run] at h
  simp only [Except.ok.injEq, Prod.mk.injEq] at h
  obtain ⟨rfl, -⟩ := h
  unfold l14_paramOut
  cases ht : p.type <;> cases hd : p.doc.type <;> cases hp : env.opts.preferDocstring <;> simp [ht, hd]

/-- The same as one equation between records. -/
theorem param_choice_record (env : AEnv) (fid : String) (p p' : Parameter) (st st' : VSt)
    (h : reconcileParameter env fid p st = .ok (p', st')) :
    p' = (match p.type, p.doc.type with
      | _, none => p
      | none, some d =>
        { p with type := some d, isOptional := p.doc.defaultValue != "", default := .str p.doc.defaultValue }
      | some _, some d =>
        if env.opts.preferDocstring then
          { p with type := some d, isOptional := p.doc.defaultValue != "", default := .str p.doc.defaultValue }
        else p) := by
  rw [l14_reconcileParameter_run] at h
  simp only [Except.ok.injEq, Prod.mk.injEq] at h
  exact h.1.symm

/-- The state changes in its warning log only, and the log grows by exactly one record when both
    sources give a type, the two differ (Python `!=`), and warnings are enabled; by nothing otherwise. -/
theorem param_warn_iff (env : AEnv) (fid : String) (p p' : Parameter) (st st' : VSt)
    (h : reconcileParameter env fid p st = .ok (p', st')) :
    st' = { st with warnings := st.warnings ++
      (match p.type, p.doc.type with
       | some h, some d =>
         if env.opts.warn = true ∧ h.pyEq d = false then
           ["Different type hint and docstring types for '" ++ fid ++ "'."]
         else []
       | _, _ => []) } := by
  rw [l14_reconcileParameter_run] at h
  simp only [Except.ok.injEq, Prod.mk.injEq] at h
  exact h.2.symm

/-- A record is logged iff both sources give different types and warnings are enabled. -/
theorem param_warn_logged_iff (env : AEnv) (fid : String) (p p' : Parameter) (st st' : VSt)
    (h : reconcileParameter env fid p st = .ok (p', st')) :
    (st'.warnings = st.warnings ++ ["Different type hint and docstring types for '" ++ fid ++ "'."] ↔
      (env.opts.warn = true ∧ ∃ h d, p.type = some h ∧ p.doc.type = some d ∧ h.pyEq d = false)) ∧
    (st'.warnings = st.warnings ↔
      ¬ (env.opts.warn = true ∧ ∃ h d, p.type = some h ∧ p.doc.type = some d ∧ h.pyEq d = false)) := by
  have := param_warn_iff env fid p p' st st' h
  subst this
  dsimp only
  cases ht : p.type <;> cases hd : p.doc.type <;> simp

/-! ### 3, 4 — results -/

/-- `reconcileResults` never raises (any arguments). -/
theorem result_total (env : AEnv) (fid : String) (i : Nat) (all rs : List Result) (docs : List ResultDoc)
    (st : VSt) : ∃ rs' st', reconcileResults env fid i all rs docs st = .ok (rs', st') :=
  ⟨_, _, l14_reconcileResults_run env fid docs i all rs st⟩

/-- The general form.  The recursion threads the loop counter `i`, the list `all` being built and the
    not yet visited code results `rs`; the invariant is `all = pre ++ rs` with `pre.length = i`
    (true at the call in `enterFuncdef`: `i = 0`, `pre = []`).  Then the returned list is
    * `pre`, untouched,
    * the remaining code results, position by position against the documented results: the type is the
      documented one iff there is one and the preference is DOCSTRING; `id` and `name` never change,
    * one appended result per documented result BEYOND the code results that has a type, named by the
      docstring or else `result_<k + 1>` with `k` the loop counter (= `i` + position in `docs`). -/
theorem result_choice_general (env : AEnv) (fid : String) (i : Nat) (pre rs rs' : List Result)
    (docs : List ResultDoc) (st st' : VSt) (hpre : pre.length = i)
    (h : reconcileResults env fid i (pre ++ rs) rs docs st = .ok (rs', st')) :
    rs' = pre
      ++ rs.mapIdx (fun k r => match docs[k]? with
          | some d => if d.type.isSome ∧ env.opts.preferDocstring then { r with type := d.type } else r
          | none => r)
      ++ ((docs.drop rs.length).zipIdx (i + rs.length)).filterMap (fun (d, k) =>
          d.type.map fun dt =>
            { id := fid ++ "/" ++ (if d.name != "" then d.name else "result_" ++ toString (k + 1)),
              name := (if d.name != "" then d.name else "result_" ++ toString (k + 1)), type := some dt }) := by
  rw [l14_reconcileResults_run] at h
  simp only [Except.ok.injEq, Prod.mk.injEq] at h
  obtain ⟨rfl, -⟩ := h
  rw [l14_resOut_closed env fid docs i pre rs hpre, l14_appended_eq]
  congr 2
  symm
  rw [List.mapIdx_eq_iff]
  intro k
  rw [l14_zipUpd_getElem?]
  cases rs[k]? with
  | none => rfl
  | some r =>
    cases hd : docs[k]? with
    | none => rfl
    | some d =>
      simp only [Option.map_some, l14_updOne]
      cases hdt : d.type <;> cases hp : env.opts.preferDocstring <;> simp

/-- The call in `enterFuncdef` (`reconcileResults env fid 0 rs rs docs`), position by position:
    (a) every code result keeps its position, `id` and `name`; its type is the documented type iff the
        documented result at that position has a type and the preference is DOCSTRING;
    (b) behind them, one result per documented result at a position `≥ rs.length` that has a type,
        named by the docstring or else `result_<k + 1>` with `k` the 0-based position in `docs` — the
        same 1-based numbering as the generated names of code results; documented results without a type
        add nothing;
    (c) the resulting length. -/
theorem result_choice (env : AEnv) (fid : String) (rs rs' : List Result) (docs : List ResultDoc)
    (st st' : VSt) (h : reconcileResults env fid 0 rs rs docs st = .ok (rs', st')) :
    (∀ (i : Nat) (r : Result), rs[i]? = some r →
      rs'[i]? = some { r with type := match docs[i]? with
        | some d => if d.type.isSome ∧ env.opts.preferDocstring then d.type else r.type
        | none => r.type }) ∧
    rs'.drop rs.length = ((docs.drop rs.length).zipIdx rs.length).filterMap (fun (d, k) =>
        d.type.map fun dt =>
          { id := fid ++ "/" ++ (if d.name != "" then d.name else "result_" ++ toString (k + 1)),
            name := (if d.name != "" then d.name else "result_" ++ toString (k + 1)), type := some dt }) ∧
    rs'.length = rs.length + ((docs.drop rs.length).filter (·.type.isSome)).length := by
  rw [l14_reconcileResults_run] at h
  simp only [Except.ok.injEq, Prod.mk.injEq] at h
  obtain ⟨rfl, -⟩ := h
  have hc := l14_resOut_closed env fid docs 0 [] rs rfl
  simp only [List.nil_append, Nat.zero_add] at hc
  rw [hc]
  refine ⟨?_, ?_, ?_⟩
  · intro i r hr
    have hi : i < rs.length := by
      rcases Nat.lt_or_ge i rs.length with hlt | hge
      · exact hlt
      · rw [List.getElem?_eq_none hge] at hr; cases hr
    rw [List.getElem?_append_left (by rw [l14_zipUpd_length]; exact hi), l14_zipUpd_getElem?, hr]
    simp only [Option.map_some, Option.some.injEq]
    cases docs[i]? with
    | none => rfl
    | some d =>
      simp only [l14_updOne]
      cases hdt : d.type <;> cases hp : env.opts.preferDocstring <;> simp
  · rw [List.drop_append_of_le_length (by rw [l14_zipUpd_length]; exact Nat.le_refl _)]
    rw [List.drop_of_length_le (by rw [l14_zipUpd_length]; exact Nat.le_refl _), List.nil_append,
      l14_appended_eq]
    rfl
  · rw [List.length_append, l14_zipUpd_length, l14_appended_length]

/-- Appended names are fresh.  If the code results carry the generated names (`result_<j + 1>` at
    position `j`: what `parseResults` produces when the docstring gives no names) and the documented
    results beyond the code results that have a type are unnamed, then the names of the returned list
    are pairwise distinct (they are `result_1 … ` in increasing order, with gaps for documented results
    without a type). -/
theorem appended_names_fresh_general (env : AEnv) (fid : String) (rs rs' : List Result) (docs : List ResultDoc)
    (st st' : VSt) (h : reconcileResults env fid 0 rs rs docs st = .ok (rs', st'))
    (hrs : ∀ (j : Nat) (r : Result), rs[j]? = some r → r.name = "result_" ++ toString (j + 1))
    (hdocs : ∀ d ∈ docs.drop rs.length, d.type.isSome → d.name = "") :
    (rs'.map (·.name)).Nodup := by
  rw [l14_reconcileResults_run] at h
  simp only [Except.ok.injEq, Prod.mk.injEq] at h
  obtain ⟨rfl, -⟩ := h
  exact l14_resOut_names_nodup env fid rs docs hrs hdocs

/-- … in particular when no documented result has a name. -/
theorem appended_names_fresh (env : AEnv) (fid : String) (rs rs' : List Result) (docs : List ResultDoc)
    (st st' : VSt) (h : reconcileResults env fid 0 rs rs docs st = .ok (rs', st'))
    (hrs : ∀ (j : Nat) (r : Result), rs[j]? = some r → r.name = "result_" ++ toString (j + 1))
    (hdocs : ∀ d ∈ docs, d.name = "") :
    (rs'.map (·.name)).Nodup :=
  appended_names_fresh_general env fid rs rs' docs st st' h hrs
    (fun d hd _ => hdocs d (List.mem_of_mem_drop hd))

/-- … and the ids, which are `fid ++ "/" ++ name` for the appended results: if the code results have
    ids of that form too, the ids of the returned list are pairwise distinct. -/
theorem appended_ids_fresh (env : AEnv) (fid : String) (rs rs' : List Result) (docs : List ResultDoc)
    (st st' : VSt) (h : reconcileResults env fid 0 rs rs docs st = .ok (rs', st'))
    (hrs : ∀ (j : Nat) (r : Result), rs[j]? = some r →
      r.name = "result_" ++ toString (j + 1) ∧ r.id = fid ++ "/" ++ r.name)
    (hdocs : ∀ d ∈ docs, d.name = "") :
    (rs'.map (·.id)).Nodup := by
  have hn := appended_names_fresh env fid rs rs' docs st st' h (fun j r hj => (hrs j r hj).1) hdocs
  have hid : ∀ r ∈ rs', r.id = fid ++ "/" ++ r.name := by
    intro r hr
    obtain ⟨k, hk⟩ := List.getElem?_of_mem hr
    obtain ⟨h1, h2, -⟩ := result_choice env fid rs rs' docs st st' h
    rcases Nat.lt_or_ge k rs.length with hlt | hge
    · obtain ⟨r0, hr0⟩ : ∃ r0, rs[k]? = some r0 := ⟨rs[k], List.getElem?_eq_getElem hlt⟩
      have := h1 k r0 hr0
      rw [hk] at this
      simp only [Option.some.injEq] at this
      subst this
      exact (hrs k r0 hr0).2
    · have hm : r ∈ rs'.drop rs.length := by
        have : (rs'.drop rs.length)[k - rs.length]? = some r := by
          rw [List.getElem?_drop, ← hk]; congr 1; omega
        exact List.mem_of_getElem? this
      rw [h2, List.mem_filterMap] at hm
      obtain ⟨⟨d, j⟩, -, hdj⟩ := hm
      cases hdt : d.type with
      | none => simp [hdt] at hdj
      | some dt =>
        simp only [hdt, Option.map_some, Option.some.injEq] at hdj
        subst hdj
        rfl
  have : rs'.map (·.id) = (rs'.map (·.name)).map (fun n => fid ++ "/" ++ n) := by
    rw [List.map_map]
    exact List.map_congr_left (fun r hr => hid r hr)
  rw [this]
  refine List.Pairwise.map _ (fun a b hab e => hab ?_) hn
  have e' := congrArg String.toList e
  simp only [String.toList_append, List.append_cancel_left_eq] at e'
  exact String.toList_inj.1 e'

/-- The warning log (ANY arguments, no invariant needed): the state changes in its warning log only;
    one record per position `k < min rs.length docs.length` (in order of position; the records are all
    the same string) at which BOTH the code result and the documented result have a type, the types
    differ (Python `!=`), and warnings are enabled.  Nothing is logged for appended results, for
    positions where either type is missing, or with warnings disabled. -/
theorem result_warn_iff (env : AEnv) (fid : String) (i : Nat) (all rs rs' : List Result)
    (docs : List ResultDoc) (st st' : VSt)
    (h : reconcileResults env fid i all rs docs st = .ok (rs', st')) :
    st' = { st with
      warnings := st.warnings ++
        List.map (fun _ => "Different type hint and docstring types for the result of '" ++ fid ++ "'.")
          ((rs.zip docs).filter (fun (r, d) => match r.type, d.type with
            | some h, some dt => env.opts.warn && !(h.pyEq dt)
            | _, _ => false)) } := by
  rw [l14_reconcileResults_run] at h
  simp only [Except.ok.injEq, Prod.mk.injEq] at h
  obtain ⟨-, rfl⟩ := h
  rw [l14_resWarn_eq]
  rfl

/-- … hence: nothing at all is logged with warnings disabled, … -/
theorem result_warn_off (env : AEnv) (fid : String) (i : Nat) (all rs rs' : List Result)
    (docs : List ResultDoc) (st st' : VSt) (hw : env.opts.warn = false)
    (h : reconcileResults env fid i all rs docs st = .ok (rs', st')) : st' = st := by
  rw [result_warn_iff env fid i all rs rs' docs st st' h]
  have : ∀ l : List (Result × ResultDoc), List.filter (fun (x : Result × ResultDoc) =>
      match x.fst.type, x.snd.type with
      | some h, some dt => env.opts.warn && !(h.pyEq dt)
      | _, _ => false) l = [] := by
    intro l
    rw [List.filter_eq_nil_iff]
    intro a _
    rw [hw]
    split <;> simp
  rw [this]
  simp

/-- … and the number of records is the number of differing positions. -/
theorem result_warn_count (env : AEnv) (fid : String) (i : Nat) (all rs rs' : List Result)
    (docs : List ResultDoc) (st st' : VSt)
    (h : reconcileResults env fid i all rs docs st = .ok (rs', st')) :
    st'.warnings = st.warnings ++ List.replicate
      ((rs.zip docs).countP (fun (r, d) => match r.type, d.type with
          | some h, some dt => env.opts.warn && !(h.pyEq dt)
          | _, _ => false))
      ("Different type hint and docstring types for the result of '" ++ fid ++ "'.") := by
  rw [result_warn_iff env fid i all rs rs' docs st st' h]
  dsimp only
  rw [List.countP_eq_length_filter]
  congr 1
  generalize List.filter _ _ = l
  induction l with
  | nil => rfl
  | cons a l ih => simp [List.replicate_succ, ih]

/-! ### 5 — the warning option never alters the result

`l14_Sim x x'` (in `StubGen.Proofs.Reconcile`): run from two states that differ in the warning log only,
`x` and `x'` return the same value and final states that again differ in the log only, or raise the
same error.  It is proved for EVERY function of the analyser — the `toAbstract*` family, parameters,
results, attributes, classes, enums, modules and the mutual walker `walkDef`/`walkDefs` — between `env`
and `env` with `opts.warn` replaced; so the full statement holds, no `_partial` variant is needed. -/

/-- The API (all tables) produced by the analysis is identical for every value of `opts.warn`; only the
    warning list (the second component, projected away) may differ; an error under one setting is the
    same error under the other. -/
theorem warning_pure (env : AEnv) (w : Bool) (docRoot : GNode) (mods : List SrcModule) :
    (analyze env docRoot mods).map Prod.fst =
      (analyze { env with opts := { env.opts with warn := w } } docRoot mods).map Prod.fst :=
  l14_analyze_envW env w docRoot mods

/-- the same for any two environments that differ in `opts.warn` only -/
theorem warning_pure' (env env' : AEnv) (w : Bool) (h : env' = { env with opts := { env.opts with warn := w } })
    (docRoot : GNode) (mods : List SrcModule) :
    (analyze env docRoot mods).map Prod.fst = (analyze env' docRoot mods).map Prod.fst := by
  subst h
  exact warning_pure env w docRoot mods

/-- an error occurs under one setting iff it occurs under the other, and it is the same error -/
theorem warning_pure_error (env : AEnv) (w : Bool) (docRoot : GNode) (mods : List SrcModule) (e : PyErr) :
    analyze env docRoot mods = .error e ↔
      analyze { env with opts := { env.opts with warn := w } } docRoot mods = .error e := by
  have h := warning_pure env w docRoot mods
  revert h
  cases analyze env docRoot mods <;>
    cases analyze { env with opts := { env.opts with warn := w } } docRoot mods <;>
    simp [Except.map]
  rintro rfl
  rfl

/-- a successful analysis yields the same API under both settings -/
theorem warning_pure_ok (env : AEnv) (w : Bool) (docRoot : GNode) (mods : List SrcModule)
    (api : AnaResult) (log : List String) (h : analyze env docRoot mods = .ok (api, log)) :
    ∃ log', analyze { env with opts := { env.opts with warn := w } } docRoot mods = .ok (api, log') := by
  have h' := warning_pure env w docRoot mods
  rw [h] at h'
  revert h'
  cases analyze { env with opts := { env.opts with warn := w } } docRoot mods with
  | error e => simp [Except.map]
  | ok r =>
    obtain ⟨api', log'⟩ := r
    simp only [Except.map, Except.ok.injEq]
    rintro rfl
    exact ⟨log', rfl⟩

/-- The step-level statement for `enterFuncdef` (the only function whose callees read `opts.warn`):
    started in states that differ in the warning log only, the two runs raise the same error, or end in
    states that differ in the warning log only — in particular with the same function frame on the stack. -/
theorem enterFuncdef_warning_pure (env : AEnv) (w : Bool) (f : FuncDef) (s : VSt) (log : List String) :
    match enterFuncdef env f s,
      enterFuncdef { env with opts := { env.opts with warn := w } } f { s with warnings := log } with
    | .ok (_, t), .ok (_, t') => ∃ log', t' = { t with warnings := log' }
    | .error e, .error e' => e = e'
    | _, _ => False := by
  have h := (l14_enterFuncdef_sim env w f).run s log
  revert h
  show l14_Rel (enterFuncdef env f s) (enterFuncdef (l14_envW env w) f (l14_setW s log)) → _
  cases enterFuncdef env f s with
  | error e => cases enterFuncdef (l14_envW env w) f (l14_setW s log) <;> exact fun h => h
  | ok r =>
    cases enterFuncdef (l14_envW env w) f (l14_setW s log) with
    | error e => exact fun h => h
    | ok r' => exact fun h => h.2

/-- the same for a whole function (`enter`, constructor assignments, `leave`) -/
theorem walkFunc_warning_pure (env : AEnv) (w : Bool) (f : FuncDef) (s : VSt) (log : List String) :
    match walkFunc env f s,
      walkFunc { env with opts := { env.opts with warn := w } } f { s with warnings := log } with
    | .ok (_, t), .ok (_, t') => ∃ log', t' = { t with warnings := log' }
    | .error e, .error e' => e = e'
    | _, _ => False := by
  have h := (l14_walkFunc_sim env w f).run s log
  revert h
  show l14_Rel (walkFunc env f s) (walkFunc (l14_envW env w) f (l14_setW s log)) → _
  cases walkFunc env f s with
  | error e => cases walkFunc (l14_envW env w) f (l14_setW s log) <;> exact fun h => h
  | ok r =>
    cases walkFunc (l14_envW env w) f (l14_setW s log) with
    | error e => exact fun h => h
    | ok r' => exact fun h => h.2

/-! ### 6 — non-vacuity: closed instances -/

section Examples

private def intT : AType := .named "int" "builtins.int"
private def strT : AType := .named "str" "builtins.str"

private def envOf (preferDoc warn : Bool) : AEnv :=
  { opts := { plaintext := false, style := .numpy, preferDocstring := preferDoc, warn := warn },
    aliases := [], infoBases := [] }

private def st0 : VSt := { doc := { root := { name := "m" }, style := .numpy }, warnings := ["earlier"] }

/-- `x: int = 3`, documented as `x : str` (no documented default) -/
private def pBoth : Parameter :=
  { id := "m/f/x", name := "x", isOptional := true, default := .int 3, assignedBy := .positionOrName,
    doc := { type := some strT, defaultValue := "", description := "d" }, type := some intT }

/-- hint and docstring agree up to Python `==` (`Literal[True]` vs `Literal[1]`), not syntactically -/
private def pEqual : Parameter :=
  { pBoth with doc := { type := some (.literal [.int 1]) }, type := some (.literal [.bool true]) }

private def pHintOnly : Parameter := { pBoth with doc := {} }
private def pDocOnly : Parameter := { pBoth with type := none }

private def typeIs (t : Option AType) (u : AType) : Bool :=
  match t with
  | some t => AType.beq t u
  | none => false

/-- what the examples observe of a run: chosen type, `isOptional`, `default`, the log -/
private def paramRun (env : AEnv) (p : Parameter) (t : AType) (opt : Bool) (dflt : DefaultVal)
    (log : List String) : Bool :=
  match reconcileParameter env "m/f" p st0 with
  | .ok (p', s') => typeIs p'.type t && p'.isOptional == opt && p'.default == dflt && s'.warnings == log
  | .error _ => false

private def msgP : String := "Different type hint and docstring types for 'm/f'."

/-- hint `int`, docstring `str`, all four option pairs (preference, warning):
    CODE keeps `int` and the code default; DOCSTRING takes `str` and REPLACES the default `3` by the
    (absent) docstring default — the finding; the record appears iff warnings are enabled. -/
example : paramRun (envOf false true) pBoth intT true (.int 3) ["earlier", msgP] = true := by decide +kernel
example : paramRun (envOf false false) pBoth intT true (.int 3) ["earlier"] = true := by decide +kernel
example : paramRun (envOf true true) pBoth strT false (.str "") ["earlier", msgP] = true := by decide +kernel
example : paramRun (envOf true false) pBoth strT false (.str "") ["earlier"] = true := by decide +kernel
/-- equal types (by `==`, syntactically different): no record, even with warnings enabled;
    the preference still selects the source -/
example : paramRun (envOf false true) pEqual (.literal [.bool true]) true (.int 3) ["earlier"] = true := by
  decide +kernel
example : paramRun (envOf true true) pEqual (.literal [.int 1]) false (.str "") ["earlier"] = true := by
  decide +kernel
/-- only one source: that type under either preference, never a record -/
example : paramRun (envOf false true) pHintOnly intT true (.int 3) ["earlier"] = true := by decide +kernel
example : paramRun (envOf true true) pHintOnly intT true (.int 3) ["earlier"] = true := by decide +kernel
example : paramRun (envOf false true) pDocOnly strT false (.str "") ["earlier"] = true := by decide +kernel
example : paramRun (envOf true true) pDocOnly strT false (.str "") ["earlier"] = true := by decide +kernel

/-- two code results `(int, str)`, three documented results: `a : str`, one WITHOUT a type, `float` unnamed -/
private def rs2 : List Result :=
  [{ id := "m/f/result_1", name := "result_1", type := some intT },
   { id := "m/f/result_2", name := "result_2", type := some strT }]
private def docs3 : List ResultDoc :=
  [{ type := some strT, name := "a" }, { type := none, name := "b" },
   { type := some (.named "float" "builtins.float"), name := "" }]

private def resultRun (env : AEnv) (rs : List Result) (docs : List ResultDoc)
    (expect : List (String × String × AType)) (log : List String) : Bool :=
  match reconcileResults env "m/f" 0 rs rs docs st0 with
  | .ok (rs', s') =>
    rs'.length == expect.length
      && (rs'.zip expect).all (fun (r, e) => r.id == e.1 && r.name == e.2.1 && typeIs r.type e.2.2)
      && s'.warnings == log
  | .error _ => false

private def msgR : String := "Different type hint and docstring types for the result of 'm/f'."

/-- CODE preference: the hints stay; position 0 differs (`int` vs `str`) → one record; position 1 has no
    documented type → nothing; position 2 has no code result → appended as `result_3` (position 2, numbered
    from 1): no collision with the id `m/f/result_2` of the second code result -/
example : resultRun (envOf false true) rs2 docs3
    [("m/f/result_1", "result_1", intT), ("m/f/result_2", "result_2", strT),
     ("m/f/result_3", "result_3", .named "float" "builtins.float")] ["earlier", msgR] = true := by
  decide +kernel
/-- DOCSTRING preference: position 0 takes `str` but keeps id and name; same record -/
example : resultRun (envOf true true) rs2 docs3
    [("m/f/result_1", "result_1", strT), ("m/f/result_2", "result_2", strT),
     ("m/f/result_3", "result_3", .named "float" "builtins.float")] ["earlier", msgR] = true := by
  decide +kernel
/-- warnings disabled: the same lists, an unchanged log -/
example : resultRun (envOf false false) rs2 docs3
    [("m/f/result_1", "result_1", intT), ("m/f/result_2", "result_2", strT),
     ("m/f/result_3", "result_3", .named "float" "builtins.float")] ["earlier"] = true := by
  decide +kernel
example : resultRun (envOf true false) rs2 docs3
    [("m/f/result_1", "result_1", strT), ("m/f/result_2", "result_2", strT),
     ("m/f/result_3", "result_3", .named "float" "builtins.float")] ["earlier"] = true := by
  decide +kernel
/-- no code results, one unnamed documented result → `result_1` (numbered from 1) -/
example : resultRun (envOf false true) [] [{ type := some intT }] [("m/f/result_1", "result_1", intT)]
    ["earlier"] = true := by
  decide +kernel

/-- ids and names of a run are pairwise distinct -/
private def distinctRun (env : AEnv) (rs : List Result) (docs : List ResultDoc) : Bool :=
  match reconcileResults env "m/f" 0 rs rs docs st0 with
  | .ok (rs', _) => decide (rs'.map (·.id)).Nodup && decide (rs'.map (·.name)).Nodup
  | .error _ => false

/-- the former id collision is gone: two code results and an unnamed third documented result give three
    distinct ids `m/f/result_1`, `m/f/result_2`, `m/f/result_3` (an instance of `appended_names_fresh_general`
    / `appended_ids_fresh`'s conclusion; `docs3` names only positions covered by code results) -/
example : distinctRun (envOf false true) rs2 docs3 = true := by decide +kernel
example : distinctRun (envOf true false) rs2 docs3 = true := by decide +kernel
/-- the hypothesis "surplus documented results are unnamed" of `appended_names_fresh` is needed: a surplus
    documented result NAMED `result_1` collides with the first code result -/
example : distinctRun (envOf false true) rs2
    [{ type := some strT }, { type := none }, { type := some intT, name := "result_1" }] = false := by
  decide +kernel

/-! end to end: `m.py` with `def f(x: int) -> None` and the numpy docstring `x : str` -/

private def docF : GDoc :=
  { value := "doc",
    parsed := [.parameters [{ name := "x", annotation := some (.name "str" "str"), description := "d",
                              default := none }]] }

private def rootM : GNode := { name := "m", functions := [{ name := "f", docstring := some docF }] }

private def argX : Arg :=
  { name := "x", isSelf := false, isCls := false, kind := 0, posOnly := false,
    varType := some (.inst "int" "builtins.int" []), annotation := some (.unbound "int" []), init := none }

private def funF : FuncDef :=
  { name := "f", fullname := "m.f", isStatic := false, isClass := false, isProperty := false, args := [argX],
    hasCallableType := true, retType := some .none, unanalyzedRet := some .none,
    unanalyzedRetLiteralIsNone := false, body := [] }

private def modM : SrcModule :=
  { path := "m.py", fullname := "m", name := "m", imports := [], defs := [.func funF] }

/-- the analysis succeeds, the parameter table is `[m/f/x : t]`, and the log is `log` -/
private def anaRun (env : AEnv) (t : AType) (log : List String) : Bool :=
  match analyze env rootM [modM] with
  | .ok (api, l) =>
    (match api.parameters with
     | [p] => p.id == "m/f/x" && typeIs p.type t
     | _ => false) && l == log
  | .error _ => false

/-- `warning_pure` is not vacuous: the log DOES differ between the two settings, the API does not -/
example : anaRun (envOf false true) intT [msgP] = true := by decide +kernel
example : anaRun (envOf false false) intT [] = true := by decide +kernel
example : anaRun (envOf true true) strT [msgP] = true := by decide +kernel
example : anaRun (envOf true false) strT [] = true := by decide +kernel

/-- … and the error case: a parameter without `variable.type` is a `ValueError` under both settings -/
private def modBad : SrcModule :=
  { modM with defs := [.func { funF with args := [{ argX with varType := none }] }] }
example : (match analyze (envOf false true) rootM [modBad] with | .error .valueError => true | _ => false) = true := by
  decide +kernel
example : (match analyze (envOf false false) rootM [modBad] with | .error .valueError => true | _ => false) = true := by
  decide +kernel

end Examples

end StubGen.C14
