/-
T2 obligations (attribute strings): the model's finite decision functions agree, on EVERY point of their domain, with the table that
`tie/tabulate.py` computes by calling the real function of /repo's working tree (`Generated/DecAttrs.lean`).  A change of
behaviour changes a row and breaks the kernel-checked `decide` here; one module per table, so that a changed table breaks the
obligations of the properties it belongs to and no others.
-/
import StubGen.Generated.DecAttrs
import StubGen.Theorems.DecCommon

namespace StubGen.Decisions

open StubGen

/-! ### `_create_class_attribute_string` on one attribute: public × static × 5 types × 3 names × flag -/

def attrTypeOf : Nat → Option AType
  | 0 => none | 1 => some intT | 2 => some (.tuple [intT]) | 3 => some (.typeVar "T") | _ => some (.set [intT])

def attrOf (pub static : Bool) (t n : Nat) : Attribute :=
  { id := "p/m/C/" ++ nameOf n, name := nameOf n, isPublic := pub, isStatic := static, type := attrTypeOf t }

/-- the model's text, (sorted) TODO keys and (sorted) attribute names -/
def modelAttributeString (pub static : Bool) (t n : Nat) (safe : Bool) : String × List String × List String :=
  let env : Env := { api := { package := "p" }, safe := safe }
  match (createClassAttributeString env [attrOf pub static t n] "    ").run { moduleId := "p/m" } with
  | .ok ((s, names), st) => (s, sortStrings st.todos, sortStrings names)
  | .error e => ("!" ++ e.name, [], [])

theorem attribute_string_table :
    Generated.attributeStringTable.all (fun r =>
      let m := modelAttributeString r.1.1 r.1.2.1 r.1.2.2.1 r.1.2.2.2.1 r.1.2.2.2.2
      m.1 == r.2.1 && m.2.1 == r.2.2.1 && m.2.2 == r.2.2.2) = true := by
  decide +kernel

end StubGen.Decisions
