/-
C01 (generator half) — "a run either completes — writing the API JSON file and the stub files — or
rejects the input with the documented 'No files found to analyse' error.  It never aborts with an
internal error raised from the tool's own code and never fails to terminate."

Termination of the generator model is checked by Lean (every definition of `Model/Gen.lean` and
`Model/Files.lean` is total; recursion over the class hierarchy is by fuel).  What is proved here is
that no `.error` branch — the model of a Python exception raised by the generator's own code — is
reached on the APIs of `Spec.Scope01` (`Spec/Scope01.lean`: decidable, one clause per `raise` site).

1. `generator_total`: on `Scope01` APIs `runGenerator` returns normally.
2. kernel-checked boundary examples: violating one clause of `Scope01` gives the corresponding error.
3. `errors_only_from_scope` and the sharper `never_keyError`: a failing run ends in one of
   `ValueError`, `IndexError`, `LookupError`, `.unsupported` (recursion budget) — never `KeyError`, never
   from `_create_outside_package_class` — and the API is outside `Scope01`.
4. per-function totality (from *all* states where no markers are flushed, under "every pending key has
   a message" otherwise), the invariant, and the fuel lemmas for classes.
5. non-vacuity.

Proof machinery: `StubGen.Proofs.Totality` (names `o01_…`).
-/
import StubGen.Proofs.Totality

namespace StubGen.C01

open StubGen Spec

/-- every pending marker key has a message in the generator's table -/
def PendingOk (st : St) : Prop := ∀ k ∈ st.todos, (assocGet? Generated.todoMessages k).isSome = true

/-! ### 1. the generator never raises on `Scope01` APIs -/

theorem generator_total (api : API) (safe : Bool) (pre : List String) (h : Scope01 api = true) :
    ∃ r, runGenerator api safe pre = .ok r :=
  o01_runGenerator_ok api safe pre h

/-! ### 3. which errors, and only outside the scope -/

/-- a failing run: `ValueError` (a type that cannot be rendered or imported, an empty superclass),
    `IndexError` (a class type with an empty name), `LookupError` (a private superclass that is not in
    the package) or the recursion budget.  In particular no `KeyError` (marker and variance tables), and
    `_create_outside_package_class` (`IndexError` on a path without a dot) never raises in a run. -/
theorem never_keyError (api : API) (safe : Bool) (pre : List String) (e : PyErr)
    (h : runGenerator api safe pre = .error e) :
    e ∈ [PyErr.valueError, .indexError, .lookupError, .unsupported] :=
  o01_runGenerator_errs api safe pre e h

theorem errors_only_from_scope (api : API) (safe : Bool) (pre : List String) (e : PyErr)
    (h : runGenerator api safe pre = .error e) :
    e ∈ [PyErr.valueError, .indexError, .lookupError, .keyError, .unsupported] ∧ Scope01 api = false := by
  refine ⟨?_, ?_⟩
  · have := never_keyError api safe pre e h
    simp only [List.mem_cons, List.not_mem_nil, or_false] at this ⊢
    tauto
  · cases hs : Scope01 api with
    | false => rfl
    | true =>
      obtain ⟨r, hr⟩ := generator_total api safe pre hs
      rw [hr] at h
      cases h

/-- (e) every class path that reaches `classes_outside_package` contains a dot — it is an import name with
    at least two dot-segments (`_add_to_imports` returns early for a single segment; a class found in the
    package is not added) — so `_create_outside_package_class` (`path_parts[-1]`, `IndexError`) never raises
    in a run.  No hypothesis on the API. -/
theorem placeholder_stubs_never_raise (api : API) (safe : Bool) (stubs : List StubData) (st : St)
    (h : (generateStubData ⟨api, safe⟩).run {} = .ok (stubs, st)) (pre : List String) :
    (∀ q ∈ st.outside, '.' ∈ q.toList) ∧ ∃ ops, createStubFiles safe stubs st.outside pre = .ok ops := by
  have hk := (o01_generateStubData_keeps (P := o01_P0) ⟨api, safe⟩).run {} (o01_inv_init _)
  have h' : generateStubData ⟨api, safe⟩ {} = .ok (stubs, st) := h
  rw [h'] at hk
  exact ⟨hk.outside, o01_createStubFiles_ok safe stubs st.outside pre hk.outside⟩

/-- `typeOk` is `Spec.renderable` together with `tt_seqImportable` of C05 -/
theorem typeOk_iff (t : AType) : typeOk t = true ↔ renderable t = true ∧ tt_seqImportable t = true := by
  unfold typeOk
  rw [Bool.and_eq_true, o01_importable_eq]

/-! ### 4. per-function totality -/

/-- `varianceKeyword` never raises: the three variance names are keys of `Generated.varianceKeywords` -/
theorem varianceKeyword_total (v : Variance) (st : St) : ∃ k, varianceKeyword v st = .ok (k, st) := by
  rw [o01_varianceKeyword_eq]
  exact ⟨_, rfl⟩

/-- a type: `typeStr_total` of C05, in terms of `Spec.typeOk` -/
theorem typeStr_total (env : Env) (t : AType) (h : typeOk t = true) (st : St) :
    ∃ s st', typeStr env t st = .ok (s, st') :=
  (o01_typeOk_safe o01_PTriv_good env t h).total st

theorem createParameter_total (env : Env) (p : Parameter) (h : optTypeOk p.type = true) (st : St) :
    ∃ r st', createParameter env p st = .ok (r, st') :=
  (o01_createParameter_safe o01_PTriv_good env p h).total st

/-- the first parameter of an instance method is not rendered -/
theorem createParameterString_total (env : Env) (ps : List Parameter) (indent : String) (isInstanceMethod : Bool)
    (h : paramsOk (if isInstanceMethod then ps.drop 1 else ps) = true) (st : St) :
    ∃ r st', createParameterString env ps indent isInstanceMethod st = .ok (r, st') :=
  (o01_createParameterString_safe o01_PTriv_good env ps indent isInstanceMethod h).total st

theorem createResultString_total (env : Env) (rs : List Result) (h : resultsOk rs = true) (st : St) :
    ∃ r st', createResultString env rs st = .ok (r, st') :=
  (o01_createResultString_safe o01_PTriv_good env rs h).total st

theorem typeVarStrings_total (env : Env) (isMethod : Bool) (tvs : List TypeVar) (h : typeVarsOk tvs = true)
    (st : St) : ∃ r st', typeVarStrings env isMethod tvs st = .ok (r, st') :=
  (o01_typeVarStrings_safe o01_PTriv_good env isMethod tvs h).total st

theorem typeParamStrings_total (env : Env) (tps : List TypeParam) (h : typeParamsOk tps = true) (st : St) :
    ∃ r st', typeParamStrings env tps st = .ok (r, st') :=
  (o01_typeParamStrings_safe o01_PTriv_good env tps h).total st

/-- `_create_imports_string` never raises -/
theorem createImportsString_total (env : Env) (st : St) : ∃ r, createImportsString env st = .ok (r, st) :=
  o01_createImportsString_ok env st

/-- `_create_enum_string` is a pure function of the enum (no state, no exception) -/
example (env : Env) (e : Enum) : String := createEnumString env e

/-- flushing the markers succeeds when every pending key has a message, and leaves none pending -/
theorem createTodoMsg_total (indent : String) (st : St) (h : PendingOk st) :
    ∃ s, createTodoMsg indent st = .ok (s, { st with todos := [] }) :=
  ⟨_, (createTodoMsg_ok indent st _).2 ⟨h, rfl⟩⟩

/-- without that invariant it raises `KeyError` -/
example : (match createTodoMsg "" { todos := ["no such key"] } with
    | .error e => some e | .ok _ => none) = some PyErr.keyError := by decide +kernel

theorem createFunctionString_total (env : Env) (f : Function) (indent : String) (isMethod inRe : Bool)
    (h : functionOk isMethod f = true) (st : St) (hst : PendingOk st) :
    ∃ r st', createFunctionString env f indent isMethod inRe st = .ok (r, st') ∧ PendingOk st' := by
  obtain ⟨r, st', h1, h2⟩ := (o01_createFunctionString_safe o01_PTodo_good o01_PTodo_flush env f indent isMethod inRe h
    (fun _ _ => ⟨trivial, fun _ => trivial⟩)).run st (o01_inv_todo hst)
  exact ⟨r, st', h1, h2.todos⟩

theorem createPropertyFunctionString_total (env : Env) (f : Function) (indent : String)
    (h : resultsOk f.results = true) (st : St) (hst : PendingOk st) :
    ∃ r st', createPropertyFunctionString env f indent st = .ok (r, st') ∧ PendingOk st' := by
  obtain ⟨r, st', h1, h2⟩ := (o01_createPropertyFunctionString_safe o01_PTodo_good o01_PTodo_flush env f indent
    h).run st (o01_inv_todo hst)
  exact ⟨r, st', h1, h2.todos⟩

/-- a private attribute is skipped whatever its type -/
theorem createAttribute_total (env : Env) (a : Attribute) (inner : String)
    (h : (!a.isPublic || optTypeOk a.type) = true) (st : St) (hst : PendingOk st) :
    ∃ r st', createAttribute env a inner st = .ok (r, st') ∧ PendingOk st' := by
  obtain ⟨r, st', h1, h2⟩ := (o01_createAttribute_safe o01_PTodo_good o01_PTodo_flush env a inner h).run st
    (o01_inv_todo hst)
  exact ⟨r, st', h1, h2.todos⟩

/-! #### classes: fuel -/

/-- `createClassString` with fuel `n` succeeds on a class that passes the check with fuel `n` … -/
theorem createClassString_total (env : Env) (n : Nat) (c : Class) (indent : String) (inRe : Bool)
    (h : classOk env.api n c = true) (st : St) (hst : PendingOk st) :
    ∃ r st', createClassString env n c indent inRe st = .ok (r, st') ∧ PendingOk st' := by
  obtain ⟨r, st', h1, h2⟩ := (o01_createClassString_safe o01_PTodo_good o01_PTodo_flush env n c indent inRe h
    (fun _ => ⟨trivial, fun _ => trivial⟩)).run st (o01_inv_todo hst)
  exact ⟨r, st', h1, h2.todos⟩

/-- … the check is monotone in the fuel, so any larger fuel does as well … -/
theorem classOk_mono (api : API) {n m : Nat} (hnm : n ≤ m) (c : Class) (h : classOk api n c = true) :
    classOk api m c = true :=
  o01_classOk_mono api hnm c h

theorem createClassString_total_of_le (env : Env) {n m : Nat} (hnm : n ≤ m) (c : Class) (indent : String)
    (inRe : Bool) (h : classOk env.api n c = true) (st : St) (hst : PendingOk st) :
    ∃ r st', createClassString env m c indent inRe st = .ok (r, st') ∧ PendingOk st' :=
  createClassString_total env m c indent inRe (classOk_mono env.api hnm c h) st hst

/-- … and when no rendered class of the hierarchy has a private superclass (`localOk`: the conditions
    on types and superclass strings only), fuel above the nesting depth suffices. -/
theorem classOk_of_nesting (api : API) (n : Nat) (c : Class) (hl : localOk c = true) (hd : nestDepth c ≤ n) :
    classOk api n c = true :=
  o01_classOk_of_depth api n c hl hd

/-- the generator's budget `#classes + 64` therefore covers every hierarchy without private
    superclasses that is nested at most `#classes + 64` deep -/
theorem scope_of_nesting (api : API)
    (h : ∀ m ∈ api.modules, (m.name == "__init__") = false →
      (∀ f ∈ m.functions, f.isPublic = true → functionOk false f = true) ∧
      (∀ c ∈ m.classes, c.isPublic = true → c.inheritsFromException = false →
        localOk c = true ∧ nestDepth c ≤ api.classes.length + 64)) :
    Scope01 api = true := by
  unfold Scope01
  refine List.all_eq_true.2 fun m hm => ?_
  unfold moduleOk
  cases hn : m.name == "__init__" with
  | true => rfl
  | false =>
    obtain ⟨h1, h2⟩ := h m hm hn
    simp only [Bool.false_or, Bool.and_eq_true, List.all_eq_true, Bool.or_eq_true, Bool.not_eq_true',
      Bool.and_eq_false_imp]
    refine ⟨fun f hf => ?_, fun c hc => ?_⟩
    · cases hp : f.isPublic with
      | false => exact Or.inl rfl
      | true => exact Or.inr (h1 f hf hp)
    · cases hp : c.isPublic with
      | false => exact Or.inl (by simp)
      | true =>
        cases he : c.inheritsFromException with
        | true => exact Or.inl (by simp)
        | false =>
          obtain ⟨hl, hd⟩ := h2 c hc hp he
          exact Or.inr (classOk_of_nesting api _ c hl hd)

/-! #### the invariant "every pending key has a message" -/

/-- Every function of the generator keeps the invariant, whatever its arguments: all keys it adds are
    literal keys of the message table (or `"Set"`/`"List"`).  Moreover the only exceptions are the four
    of `never_keyError`.  (`o01_Keeps`, proved for each function in `Proofs/Totality.lean`.) -/
theorem pending_preserved {α : Type} {x : G α} (hx : o01_Keeps o01_PTodo x) {st st' : St} {a : α}
    (hst : PendingOk st) (h : x st = .ok (a, st')) : PendingOk st' := by
  have := hx.run st (o01_inv_todo hst)
  rw [h] at this
  exact this.todos

theorem errors_of_keeps {α : Type} {x : G α} (hx : o01_Keeps o01_PTodo x) {st : St} {e : PyErr}
    (hst : PendingOk st) (h : x st = .error e) :
    e ∈ [PyErr.valueError, .indexError, .lookupError, .unsupported] := by
  have := hx.run st (o01_inv_todo hst)
  rw [h] at this
  exact this

/-- the instances for the declaration-level functions -/
theorem generator_functions_keep_pending (env : Env) :
    (∀ t, o01_Keeps o01_PTodo (typeStr env t)) ∧
    (∀ p, o01_Keeps o01_PTodo (createParameter env p)) ∧
    (∀ ps indent b, o01_Keeps o01_PTodo (createParameterString env ps indent b)) ∧
    (∀ rs, o01_Keeps o01_PTodo (createResultString env rs)) ∧
    (∀ f indent b1 b2, o01_Keeps o01_PTodo (createFunctionString env f indent b1 b2)) ∧
    (∀ f indent, o01_Keeps o01_PTodo (createPropertyFunctionString env f indent)) ∧
    (∀ a inner, o01_Keeps o01_PTodo (createAttribute env a inner)) ∧
    (∀ n c indent b, o01_Keeps o01_PTodo (createClassString env n c indent b)) ∧
    (∀ n sc inner ad, o01_Keeps o01_PTodo (createInternalClassString env n sc inner ad)) ∧
    (∀ m, o01_Keeps o01_PTodo (createModuleString env m)) ∧
    (∀ m, o01_Keeps o01_PTodo (callGenerator env m)) ∧
    o01_Keeps o01_PTodo (createReexportModuleStrings env) ∧
    o01_Keeps o01_PTodo (generateStubData env) :=
  ⟨o01_typeStr_keeps env, o01_createParameter_keeps env, o01_createParameterString_keeps env,
    o01_createResultString_keeps env, o01_createFunctionString_keeps env,
    o01_createPropertyFunctionString_keeps env, o01_createAttribute_keeps env, o01_createClassString_keeps env,
    o01_createInternalClassString_keeps env, o01_createModuleString_keeps env, o01_callGenerator_keeps env,
    o01_createReexportModuleStrings_keeps env, o01_generateStubData_keeps env⟩

/-! ### 2. the boundaries: one clause of `Scope01` violated, the corresponding exception raised

(kernel-evaluated; `errOf r = none` means that the run returned normally) -/

/-- the exception a run ends in -/
private def errOf (r : Except PyErr GenResult) : Option PyErr :=
  match r with
  | .error e => some e
  | .ok _ => none

private def tInt : AType := .named "int" "builtins.int"
private def tStr : AType := .named "str" "builtins.str"

private def mkP (n : String) (a : Assign) (t : Option AType) (opt : Bool := false) (d : DefaultVal := .none) :
    Parameter :=
  { id := n, name := n, isOptional := opt, default := d, assignedBy := a, type := t }

/-- a package with one module, one public function `f(x: t)` -/
private def fnApi (t : AType) : API :=
  { package := "pkg",
    modules := [{ id := "pkg/m", name := "m",
                  functions := [{ id := "pkg/m/f", name := "f", isPublic := true,
                                  params := [mkP "x" .positionOrName (some t)] }] }] }

/-- a package with one module, one public class `C` with the given superclasses and inner classes;
    `table` is the flat class table of the API -/
private def clsApi (supers : List String) (inner : List Class) (table : List Class) : API :=
  { package := "pkg",
    modules := [{ id := "pkg/m", name := "m",
                  classes := [{ id := "pkg/m/C", name := "C", isPublic := true, superclasses := supers,
                                classes := inner }] }],
    classes := table }

/-- inside the scope -/
example : Scope01 (fnApi tInt) = true ∧ errOf (runGenerator (fnApi tInt) true) = none := by decide +kernel
/-- an `EnumType` (or `BoundaryType`) anywhere in a rendered type: `raise ValueError("Unexpected type")` -/
example : Scope01 (fnApi (.list [.enum ["a"]])) = false ∧
    errOf (runGenerator (fnApi (.list [.enum ["a"]])) true) = some .valueError := by decide +kernel
/-- a class type with an empty name: `name[0]` raises `IndexError` -/
example : Scope01 (fnApi (.named "" "pkg.m.X")) = false ∧
    errOf (runGenerator (fnApi (.named "" "pkg.m.X")) true) = some .indexError := by decide +kernel
/-- a class type without qualified name: `raise ValueError("Type has no import source.")` -/
example : Scope01 (fnApi (.named "X" "")) = false ∧
    errOf (runGenerator (fnApi (.named "X" "")) true) = some .valueError := by decide +kernel
/-- the same for a generic class with arguments (`importable`) -/
example : Scope01 (fnApi (.namedSeq "Sequence" "" [tInt])) = false ∧
    errOf (runGenerator (fnApi (.namedSeq "Sequence" "" [tInt])) true) = some .valueError := by decide +kernel
/-- a public superclass from another library is fine (it is imported, a placeholder stub is written) … -/
example : Scope01 (clsApi ["other.Base"] [] []) = true ∧ errOf (runGenerator (clsApi ["other.Base"] [] []) true) = none := by
  decide +kernel
/-- … an empty superclass string is not: the same `ValueError` of `_add_to_imports` -/
example : Scope01 (clsApi [""] [] []) = false ∧ errOf (runGenerator (clsApi [""] [] []) true) = some .valueError := by
  decide +kernel
/-- a private superclass that is not a class of the package (a private base class from another library):
    `_get_class_in_package` raises `LookupError` -/
example : Scope01 (clsApi ["other_lib.base._Base"] [] []) = false ∧
    errOf (runGenerator (clsApi ["other_lib.base._Base"] [] []) true) = some .lookupError := by decide +kernel

/-- a private class that is its own superclass: the inlining never ends (`RecursionError` in Python, the
    recursion budget in the model) -/
private def cyclic : Class :=
  { id := "pkg/m/_A", name := "_A", isPublic := false, superclasses := ["pkg.m._A"] }
example : Scope01 (clsApi ["pkg.m._A"] [] [cyclic]) = false ∧
    errOf (runGenerator (clsApi ["pkg.m._A"] [] [cyclic]) true) = some .unsupported := by decide +kernel

/-- `nest k`: a chain of `k + 1` nested public classes -/
private def nest : Nat → Class
  | 0 => { id := "pkg/m/C/D", name := "D", isPublic := true }
  | n + 1 => { id := "pkg/m/C/D", name := "D", isPublic := true, classes := [nest n] }

/-- with an empty class table the budget is 64: `C` may contain a chain of 63 nested classes … -/
example : nestDepth (nest 62) = 63 ∧ Scope01 (clsApi [] [nest 62] []) = true := by decide +kernel
/-- … but not of 64 -/
example : nestDepth (nest 63) = 64 ∧ Scope01 (clsApi [] [nest 63] []) = false ∧
    errOf (runGenerator (clsApi [] [nest 63] []) true) = some .unsupported := by decide +kernel

/-- `Scope01` is sufficient, not necessary: it asks every result type to be `typeOk`, but a lone `None`
    result is dropped before its (here empty) name is looked at -/
private def noneOnlyApi : API :=
  { package := "pkg",
    modules := [{ id := "pkg/m", name := "m",
                  functions := [{ id := "pkg/m/f", name := "f", isPublic := true,
                                  results := [{ id := "r", name := "result_1",
                                                type := some (.named "" "builtins.None") }] }] }] }
example : Scope01 noneOnlyApi = false ∧ errOf (runGenerator noneOnlyApi true) = none := by decide +kernel

/-- the same at the level of one type: the return type `None` of a callable is recognised by its name and
    never imported, so its missing qualified name does no harm -/
example : typeOk (.callable [] (.named "None" "")) = false ∧
    (match typeStr ⟨{}, true⟩ (.callable [] (.named "None" "")) {} with
      | .ok (s, _) => some s
      | .error _ => none) = some "() -> ()" := by decide +kernel

/-! ### 5. non-vacuity: a package with a re-exported function with all parameter kinds, a function without
types, a generic class with constructor, property, nested class and a private base class in another module
(whose method is inlined), and an enum -/

private def clsBase : Class :=
  { id := "pkg/_mod_b/_Base", name := "_Base", isPublic := false,
    methods := [{ id := "pkg/_mod_b/_Base/helper", name := "helper", isPublic := true,
                  params := [mkP "self" .implicit none, mkP "x" .positionOrName (some tInt)],
                  results := [{ id := "r", name := "result_1", type := some (.list [tStr]) }] }] }

private def clsInner : Class :=
  { id := "pkg/shapes/Widget/Inner", name := "Inner", isPublic := true,
    attributes := [{ id := "pkg/shapes/Widget/Inner/size", name := "size", isPublic := true, isStatic := false, type := some tInt }] }

private def clsWidget : Class :=
  { id := "pkg/shapes/Widget", name := "Widget", isPublic := true,
    superclasses := ["pkg._mod_b._Base"],
    ctor := some { id := "pkg/shapes/Widget/__init__", name := "__init__", isPublic := true,
                   params := [mkP "self" .implicit none, mkP "label" .positionOrName (some tStr)] },
    methods := [{ id := "pkg/shapes/Widget/area", name := "area", isPublic := true, isProperty := true,
                  results := [{ id := "r", name := "result_1", type := some (.union [tInt, .named "None" "builtins.None"]) }] }],
    classes := [clsInner],
    typeParams := [{ name := "T", type := some tInt, variance := .covariant }] }

private def exApi : API :=
  { package := "pkg",
    modules := [
      { id := "pkg/__init__", name := "__init__",
        qualifiedImports := [{ qualifiedName := "pkg.funcs.do_it", «alias» := none }] },
      { id := "pkg/funcs", name := "funcs",
        functions := [
          { id := "pkg/funcs/do_it", name := "do_it", isPublic := true,
            reexportedBy := [{ id := "pkg", qualifiedImports := [{ qualifiedName := "pkg.funcs.do_it", «alias» := none }] }],
            typeVars := [{ name := "T", upperBound := some tInt }],
            params := [mkP "a" .positionOnly (some tInt),
                       mkP "b" .positionOrName (some (.named "Array" "numpy.core.Array")) true (.str "None"),
                       mkP "args" .positionalVararg (some (.tuple [tInt])),
                       mkP "c" .nameOnly (some (.set [tStr])),
                       mkP "kwargs" .namedVararg (some (.dict tStr tInt))],
            results := [{ id := "r", name := "result_1", type := some (.typeVar "T") }] },
          { id := "pkg/funcs/plain", name := "plain", isPublic := true,
            params := [mkP "x" .positionOrName none] }] },
      { id := "pkg/shapes", name := "shapes", classes := [clsWidget] },
      { id := "pkg/colors", name := "colors", docstring := "Doc.",
        enums := [{ id := "pkg/colors/Color", name := "Color",
                    instances := [{ id := "pkg/colors/Color/RED", name := "RED" }] }] },
      { id := "pkg/_mod_b", name := "_mod_b", classes := [clsBase] }],
    classes := [clsWidget, clsInner, clsBase] }


private def exApiA : API := { exApi with modules := exApi.modules.filter (fun m => m.classes.isEmpty) }
private def exApiB : API := { exApi with modules := exApi.modules.filter (fun m => !m.classes.isEmpty) }

private def summary (r : Except PyErr GenResult) : Option (List String × List String) :=
  match r with
  | .ok g => some (g.ops.map (·.path), g.log.map (fun e => e.1 ++ " " ++ e.2))
  | .error _ => none

/-- the package is in the scope … -/
example : Scope01 exApi = true := by decide +kernel
/-- … hence the run returns normally (by the theorem) … -/
example : ∃ r, runGenerator exApi true = .ok r := generator_total exApi true [] (by decide +kernel)
/-- … and by evaluation (in two halves, to keep each kernel evaluation short): files written and
    declarations emitted by the function/enum half -/
example : summary (runGenerator exApiA true) = some (
    ["pkg/funcs/funcs.sdsstub", "pkg/colors/colors.sdsstub", "pkg/do_it.sdsstub", "numpy/core/core.sdsstub"],
    ["module pkg/funcs", "moved pkg/funcs/do_it", "fun pkg/funcs/plain", "module pkg/colors", "enum pkg/colors/Color",
     "restub pkg/do_it", "fun pkg/funcs/do_it"]) := by decide +kernel

/-- the class half of the same package -/
example : summary (runGenerator exApiB true) = some (
    ["pkg/shapes/shapes.sdsstub"],
    ["module pkg/shapes", "class pkg/shapes/Widget", "class pkg/shapes/Widget/Inner", "attr pkg/shapes/Widget/Inner/size",
     "endclass pkg/shapes/Widget/Inner", "prop pkg/shapes/Widget/area", "fun pkg/_mod_b/_Base/helper",
     "endclass pkg/shapes/Widget", "module pkg/_mod_b"]) := by decide +kernel

end StubGen.C01
