/-
C12 — whole-tool part: the API FILE (`API.to_dict` + `json.dump(indent=2)`), not only the tables of the API object.
-/
import StubGen.Proofs.ApiDict
import StubGen.Proofs.ApiDictTotal
import StubGen.Proofs.JsonLex
import StubGen.Proofs.Pipeline
import StubGen.Theorems.C12

namespace StubGen.C12b

open StubGen

/-- `API.to_dict()`: schema version 1, the package name, and the eight top-level lists hold the entries of the eight tables
    in the order `sorted(values, key=id)`: their `"id"` sequences are `C12.jsonIds` of the tables. -/
theorem api_dict_lists {pkg : String} {r : AnaResult} {j : JVal} (h : r.toJ pkg = .ok j) :
    j.get "schemaVersion" = .int 1 ∧ j.get "package" = .str pkg ∧
    (j.get "modules").idList = C12.jsonIds r.modules (·.id) ∧
    (j.get "classes").idList = C12.jsonIds r.classes (·.id) ∧
    (j.get "functions").idList = C12.jsonIds r.functions (·.id) ∧
    (j.get "results").idList = C12.jsonIds r.results (·.id) ∧
    (j.get "enums").idList = C12.jsonIds r.enums (·.id) ∧
    (j.get "enum_instances").idList = C12.jsonIds r.enumInstances (·.id) ∧
    (j.get "attributes").idList = C12.jsonIds r.attributes (·.id) ∧
    (j.get "parameters").idList = C12.jsonIds r.parameters (·.id) := by
  obtain ⟨attrs, params, ha, hp, hj⟩ := aj_toJ_ok h
  subst hj
  unfold C12.jsonIds
  refine ⟨rfl, rfl, ?_, ?_, ?_, ?_, ?_, ?_, ?_, ?_⟩
  · show (JVal.list _).idList = _
    rw [aj_idList_map (·.id) Module.toJ aj_module_id, aj_sortedById_ids]
  · show (JVal.list _).idList = _
    rw [aj_idList_map (·.id) Class.toJ aj_class_id, aj_sortedById_ids]
  · show (JVal.list _).idList = _
    rw [aj_idList_map (·.id) Function.toJ aj_function_id, aj_sortedById_ids]
  · show (JVal.list _).idList = _
    rw [aj_idList_map (·.id) Result.toJ aj_result_id, aj_sortedById_ids]
  · show (JVal.list _).idList = _
    rw [aj_idList_map (·.id) Enum.toJ aj_enum_id, aj_sortedById_ids]
  · show (JVal.list _).idList = _
    rw [aj_idList_map (·.id) EnumInstance.toJ aj_enumInstance_id, aj_sortedById_ids]
  · show (JVal.list attrs).idList = _
    rw [aj_mapExcept_ids (·.id) Attribute.toJ aj_attribute_id _ _ ha, aj_sortedById_ids]
  · show (JVal.list params).idList = _
    rw [aj_mapExcept_ids (·.id) Parameter.toJ aj_parameter_id _ _ hp, aj_sortedById_ids]

/-- END TO END: in the API file of a completed run the eight top-level lists are strictly increasing in the id
    (sorted by id and free of duplicates), the schema version is 1, the package is named after the adjusted root. -/
theorem api_file_lists_sorted_nodup {i : ToolInput} {o : ToolOutput} (h : runTool i = .ok o) :
    ∃ j, o.api.toJ o.packageName = .ok j ∧ o.apiFileText = j.dumps 0 ∧
      j.get "schemaVersion" = .int 1 ∧ j.get "package" = .str o.packageName ∧
      (j.get "modules").idList.Pairwise (· < ·) ∧ (j.get "classes").idList.Pairwise (· < ·) ∧
      (j.get "functions").idList.Pairwise (· < ·) ∧ (j.get "results").idList.Pairwise (· < ·) ∧
      (j.get "enums").idList.Pairwise (· < ·) ∧ (j.get "enum_instances").idList.Pairwise (· < ·) ∧
      (j.get "attributes").idList.Pairwise (· < ·) ∧ (j.get "parameters").idList.Pairwise (· < ·) := by
  obtain ⟨root, d, r, ws, text, gen, _, ha, ht, _, ho⟩ := pl_runTool_ok h
  subst ho
  unfold apiJsonText at ht
  cases hj : r.toJ (pathStem root) with
  | error e => simp [hj, bind, Except.bind] at ht
  | ok j =>
    simp only [hj, bind, Except.bind, pure, Except.pure, Except.ok.injEq] at ht
    obtain ⟨h1, h2, l1, l2, l3, l4, l5, l6, l7, l8⟩ := api_dict_lists hj
    obtain ⟨s1, s2, s3, s4, s5, s6, s7, s8⟩ := C12.json_lists_sorted_nodup ha
    refine ⟨j, rfl, ht.symm, h1, h2, ?_, ?_, ?_, ?_, ?_, ?_, ?_, ?_⟩
    · rw [l1]; exact s1
    · rw [l2]; exact s2
    · rw [l3]; exact s3
    · rw [l4]; exact s4
    · rw [l5]; exact s5
    · rw [l6]; exact s6
    · rw [l7]; exact s7
    · rw [l8]; exact s8

/-- every entry of a module / class / function / enum in the file names its parts by id, in declaration order -/
theorem entry_references (m : Module) (c : Class) (f : Function) (e : Enum) :
    m.toJ.get "classes" = strsJ (m.classes.map (·.id)) ∧ m.toJ.get "functions" = strsJ (m.functions.map (·.id)) ∧
    m.toJ.get "enums" = strsJ (m.enums.map (·.id)) ∧
    c.toJ.get "methods" = strsJ (c.methods.map (·.id)) ∧ c.toJ.get "attributes" = strsJ (c.attributes.map (·.id)) ∧
    c.toJ.get "classes" = strsJ (c.classes.map (·.id)) ∧ c.toJ.get "superclasses" = strsJ c.superclasses ∧
    f.toJ.get "parameters" = strsJ (f.params.map (·.id)) ∧ f.toJ.get "results" = strsJ (f.results.map (·.id)) ∧
    f.toJ.get "is_static" = .bool f.isStatic ∧ f.toJ.get "is_class_method" = .bool f.isClassMethod ∧
    f.toJ.get "is_property" = .bool f.isProperty ∧
    e.toJ.get "instances" = strsJ (e.instances.map (·.id)) :=
  ⟨rfl, rfl, rfl, rfl, rfl, rfl, rfl, rfl, rfl, rfl, rfl, rfl, rfl⟩

/-- The serialisation of a docstring type (`dataclasses.asdict`, then `json.dump`) fails on an `EnumType` only (the error
    branch below); every type the docstring parser derives from an annotation (`_griffe_annotation_to_api_type`, any
    nesting depth) is free of them and serialises. -/
theorem docstring_types_serialise (e : GExpr) (t : AType) (h : annToType e = some t) : ∃ j, t.asdict = .ok j :=
  asdict_ok_of_noEnum t (annToType_noEnum e t h)

/-- "The API file is valid JSON", lexical part: every string token the serialiser writes — keys, ids, names, docstring
    texts with any characters whatsoever — is a quote, a sequence of unescaped characters ≥ U+0020 other than `"` and `\\`
    and of RFC 8259 escape sequences (`\\" \\\\ \\b \\f \\n \\r \\t \\uXXXX`, a surrogate pair above the BMP), and a quote. -/
theorem api_file_strings_valid (s : String) :
    ∃ body, (jsonStr s).toList = '"' :: body ++ ['"'] ∧ JsonBodyOk body :=
  let ⟨body, h1, h2, _⟩ := jsonStr_valid s
  ⟨body, h1, h2⟩

/-- `json.dump(…, indent=2)` on a small inventory: the exact text (S-P compares this text byte for byte with the file the
    tool writes) -/
example : (JVal.dict [("schemaVersion", .int 1), ("package", .str "p\"q"), ("modules", .list []),
    ("x", .list [.str "é", .null, .bool true, .floatTok "1.5"])]).dumps 0
    = "{\n  \"schemaVersion\": 1,\n  \"package\": \"p\\\"q\",\n  \"modules\": [],\n  \"x\": [\n    \"\\u00e9\",\n    null,\n    true,\n    1.5\n  ]\n}" := by
  decide

/-- a docstring type that is an `EnumType` cannot be serialised (`frozenset` is not JSON serialisable): the error branch -/
def enumDocAttr : Attribute :=
  { id := "p/C/x", name := "x", isPublic := true, isStatic := false, type := none, doc := { type := some (.enum ["a"]) } }
example : (Attribute.toJ enumDocAttr).toOption.isNone = true := by decide

end StubGen.C12b
