/- shared row decoders of the T2 obligation modules -/
import StubGen.Model.Analyze
import StubGen.Model.Gen

namespace StubGen.Decisions

open StubGen

def intT : AType := .named "int" "builtins.int"

def nameOf : Nat → String
  | 0 => "x" | 1 => "my_arg" | _ => "class"

end StubGen.Decisions
