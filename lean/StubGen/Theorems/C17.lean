/-
C17 — "A public class that derives, directly or transitively, from private classes of the package shows in
its stub every public method of those private ancestors exactly once, the subclass's own definition taking
precedence over inherited ones and nearer ancestors over farther ones.  Private ancestors are never named in
the stub's superclass list, while public superclasses are listed in declaration order …"
GENERATOR side, on the emission log (exact logs: `StubGen.C03`; machinery: `StubGen.Proofs.Emission`).

What is proved for ALL inputs: the superclass list (8), own definitions win (9), the exact inherited part of a
class block for every hierarchy (`C03.class_log_shape` + `C03.internalLog_eq`).  "Exactly once, nearer wins"
holds when the private ancestry is a CHAIN (10); for a DIAMOND it is FALSE of the model (and of the tool): the
set of defined names is handed DOWN each branch but not ACROSS sibling bases — known finding K17
(`diamond_logged_twice`, `diamond_inherited_twice`).
-/
import StubGen.Proofs.Emission

namespace StubGen.C17

open StubGen

/-! ### 8. the superclass list -/

/-- for ANY inlining function: the names returned by the superclass loop are the last dotted components of
    the superclasses whose last component has no `_` prefix, keyword-escaped, in declaration order — a private
    ancestor is never named -/
theorem private_supers_not_named (env : Env) (inline : String → G String) (scs : List String) (st st' : St)
    (names : List String) (text : String) (h : superclassesG env inline scs st = .ok ((names, text), st')) :
    names = (scs.filter fun s => !isInternal (lastD "" (splitDot s))).map
      fun s => escapeKeyword (lastD "" (splitDot s)) :=
  n03_superclassesG_names env inline scs st (names, text) st' h

/-- the log of the loop: the private superclasses, and only they, are inlined, in declaration order (for the
    public ones `addToImports` runs instead, which logs nothing) -/
theorem supers_log (env : Env) (fuel : Nat) (inner : String) (ad : List String) (scs : List String) (st st' : St)
    (r : List String × String)
    (h : superclassesG env (fun sc => createInternalClassString env fuel sc inner ad) scs st = .ok (r, st')) :
    st'.log = st.log ++ (scs.filter fun s => isInternal (lastD "" (splitDot s))).flatMap
      fun sc => n03_internalLog env fuel sc ad :=
  (n03_superclassesG_tr env (L := fun sc => n03_internalLog env fuel sc ad)
    (fun sc st => (n03_class_tr env fuel).2 sc inner ad st) scs st r st' h).2.log

/-! ### 9. the subclass's own definition wins -/

/-- whatever the kind of class: a method whose name is in `already` is skipped -/
theorem own_definition_wins (m : Function) (isInternalClass : Bool) (already : List String)
    (h : m.name ∈ already) : methodSkipped m isInternalClass already = true := by
  unfold methodSkipped
  have : already.contains m.name = true := by simpa using h
  rw [this, Bool.or_true]

/-- the set handed to the inlining of the private bases (`n03_ownNames c`, see `C03.class_log_shape`: the
    inlined part of the block of `c` is `n03_internalLog env fuel sc (n03_ownNames c)`) contains exactly the
    names of the emitted attributes, of the emitted own methods and of the public inner classes -/
theorem own_names (c : Class) (n : String) :
    n ∈ n03_ownNames c ↔
      (∃ a ∈ c.attributes, a.isPublic = true ∧ isTypeVarType a.type = false ∧ a.name = n) ∨
      (∃ m ∈ c.methods, m.isPublic = true ∧ m.name = n) ∨
      (∃ ic ∈ c.classes, ic.isPublic = true ∧ ic.name = n) := by
  unfold n03_ownNames
  rw [n03_mem_unionSet, n03_mem_unionSet, n03_mem_attrNames, n03_mem_methNames, or_assoc]
  have hic : n ∈ (c.classes.filter (·.isPublic)).map (·.name) ↔
      ∃ ic ∈ c.classes, ic.isPublic = true ∧ ic.name = n := by
    simp only [List.mem_map, List.mem_filter, and_assoc]
  rw [hic]
  constructor
  · rintro (⟨a, ha, hs, hn⟩ | ⟨m, hm, hs, hn⟩ | h)
    · have : a.isPublic = true ∧ isTypeVarType a.type = false := by simpa [n03_attrShown] using hs
      exact Or.inl ⟨a, ha, this.1, this.2, hn⟩
    · right; left
      refine ⟨m, hm, ?_, hn⟩
      by_contra hp
      have : methodSkipped m false [] = true := (n03_methodSkipped_public m []).2 (Or.inl (by simpa using hp))
      rw [hs] at this; cases this
    · exact Or.inr (Or.inr h)
  · rintro (⟨a, ha, h1, h2, hn⟩ | ⟨m, hm, hp, hn⟩ | h)
    · exact Or.inl ⟨a, ha, by simp [n03_attrShown, h1, h2], hn⟩
    · right; left
      refine ⟨m, hm, ?_, hn⟩
      cases hs : methodSkipped m false []
      · rfl
      · rcases (n03_methodSkipped_public m []).1 hs with h | h
        · rw [hp] at h; cases h
        · cases h
    · exact Or.inr (Or.inr h)

/-- this IS the set `createClassString` builds in the run: the sets `createClassAttributeString` /
    `createClassMethodString` return, and the names of the public inner classes -/
theorem own_names_in_run (env : Env) (c : Class) (inner : String) (st st' st'' : St) (ra rm : String × List String)
    (h1 : createClassAttributeString env c.attributes inner st = .ok (ra, st'))
    (h2 : createClassMethodString env c.methods inner false [] st' = .ok (rm, st'')) :
    unionSet (unionSet ra.2 rm.2) ((c.classes.filter (·.isPublic)).map (·.name)) = n03_ownNames c := by
  rw [(n03_createClassAttributeString_tr env c.attributes inner st ra st' h1).1,
    (n03_createClassMethodString_tr env c.methods inner false [] st' rm st'' h2).1]
  rfl

/-- hence no method of a directly inlined private base `k` whose name the class defines itself is logged -/
theorem inherited_shadowed_by_own (c k : Class) :
    ∀ e ∈ n03_methLog true (n03_ownNames c) k.methods,
      ∃ m ∈ k.methods, m.name ∉ n03_ownNames c ∧ e = (if m.isProperty then "prop" else "fun", m.id) := by
  intro e he
  simp only [n03_methLog, List.mem_map] at he
  obtain ⟨m, hm, rfl⟩ := he
  obtain ⟨h1, h2⟩ := List.mem_filter.1 hm
  refine ⟨m, h1, fun hin => ?_, rfl⟩
  rw [own_definition_wins m true _ hin] at h2
  cases h2

/-- and the set only grows on the way up: what the class or a nearer ancestor defines stays defined -/
theorem defined_grows (ad : List String) (ms : List Function) (n : String) (h : n ∈ ad) :
    n ∈ unionSet ad (n03_methNames true ad ms) :=
  (n03_mem_unionSet _ _ _).2 (Or.inl h)

/-! ### 10. a chain of private ancestors: inherited exactly once, nearer wins -/

/-- `n03_chain env fuel scs = some ks` says: following the private superclasses from `scs`, every class on the
    path has at most one private superclass, each resolves through `getClassInPackage`, the path ends within
    `fuel` steps; `ks` is the path, nearest ancestor first -/
theorem chain_eq (env : Env) (fuel : Nat) (scs : List String) :
    n03_chain env 0 scs = (if (scs.filter n03_privSuper).isEmpty then some [] else none) ∧
    n03_chain env (fuel + 1) scs =
      match scs.filter n03_privSuper with
      | [] => some []
      | [s] =>
        (match getClassInPackage env s with
         | .ok k => (n03_chain env fuel k.superclasses).map (k :: ·)
         | .error _ => none)
      | _ => none :=
  ⟨by rw [n03_chain], rfl⟩

/-- the block of a class with a chain ancestry: the inherited part is `n03_inheritedLog` -/
theorem chain_block (env : Env) (fuel : Nat) (c : Class) (ks : List Class)
    (hchain : n03_chain env fuel c.renderedSupers = some ks) (hab : c.isAbstract = false) :
    n03_classLog env (fuel + 1) c = ("class", c.id) ::
      (n03_attrLog c.attributes
        ++ (c.classes.filter (·.isPublic)).flatMap (n03_classLog env fuel)
        ++ n03_methLog false [] c.methods
        ++ n03_inheritedLog env fuel (n03_ownNames c) ks
        ++ [("endclass", c.id)]) := by
  rw [n03_classLog_succ]
  have hi := n03_chain_log env fuel c.renderedSupers ks (n03_ownNames c) (n03_ownNames c) hchain (fun _ => Iff.rfl)
  by_cases he : c.renderedSupers.isEmpty = true
  · have hnil : c.renderedSupers = [] := by simpa using he
    rw [hnil] at hi
    simp only [List.filter_nil, List.flatMap_nil] at hi
    simp only [he, Bool.not_true, Bool.false_and, Bool.false_eq_true, if_false, ← hi]
  · have he' : c.renderedSupers.isEmpty = false := by simpa using he
    simp only [he', hab, Bool.not_false, Bool.and_self, if_true, hi]

/-- per ancestor, nearest first: its methods that are visible (public, or without `_` prefix) and whose name
    is not yet defined; the blocks of its inner classes without `_` prefix; then the rest of the chain with the
    visible method names of this ancestor added to the defined set -/
theorem inheritedLog_eq (env : Env) (fuel : Nat) (defined : List String) (k : Class) (ks : List Class) :
    n03_inheritedLog env fuel defined [] = [] ∧
    n03_inheritedLog env (fuel + 1) defined (k :: ks) =
      (k.methods.filter fun m => (m.isPublic || !isInternal m.name) && !defined.contains m.name).map
          (fun m => (if m.isProperty then "prop" else "fun", m.id))
        ++ (k.classes.filter fun ic => !isInternal ic.name && !defined.contains ic.name).flatMap (n03_classLog env fuel)
        ++ n03_inheritedLog env fuel
            (defined ++ (k.methods.filter fun m => m.isPublic || !isInternal m.name).map (·.name)) ks := by
  refine ⟨by cases fuel <;> rfl, ?_⟩
  rw [n03_inheritedLog]
  rfl

/-- INHERITED EXACTLY ONCE, NEARER WINS.  For a class whose private ancestry is the chain `ks`, the inherited
    method entries of its block (those outside inner-class blocks) are `n03_inheritedMeths (own names) ks`, one
    entry per list element, in order; and the method `m` of the `i`-th ancestor is in that list iff its name
    is visible, is not defined by the class itself, and is not the name of a visible method of a nearer
    ancestor — a shadowed method is not logged. -/
theorem inherited_once_chain (env : Env) (fuel : Nat) (c : Class) (ks : List Class)
    (hchain : n03_chain env fuel c.renderedSupers = some ks) :
    n03_topMeths (n03_inheritedLog env fuel (n03_ownNames c) ks) =
        (n03_inheritedMeths (n03_ownNames c) ks).map (fun m => (if m.isProperty then "prop" else "fun", m.id)) ∧
    ∀ m : Function, m ∈ n03_inheritedMeths (n03_ownNames c) ks ↔
      ∃ (i : Nat) (k : Class), ks[i]? = some k ∧ m ∈ k.methods ∧ (m.isPublic = true ∨ isInternal m.name = false) ∧
        m.name ∉ n03_ownNames c ∧
        ∀ (j : Nat) (k' : Class) (m' : Function), j < i → ks[j]? = some k' → m' ∈ k'.methods →
          (m'.isPublic = true ∨ isInternal m'.name = false) → m'.name ≠ m.name := by
  refine ⟨n03_topMeths_inherited env fuel _ ks (n03_chain_length env fuel _ ks hchain), fun m => ?_⟩
  rw [n03_mem_inheritedMeths]
  have hv : ∀ x : Function, n03_visName x = true ↔ (x.isPublic = true ∨ isInternal x.name = false) := by
    intro x; simp [n03_visName]
  constructor
  · rintro ⟨i, k, h1, h2, h3, h4, h5⟩
    exact ⟨i, k, h1, h2, (hv m).1 h3, h4, fun j k' m' hj hk hm hvis => h5 j k' m' hj hk hm ((hv m').2 hvis)⟩
  · rintro ⟨i, k, h1, h2, h3, h4, h5⟩
    exact ⟨i, k, h1, h2, (hv m).2 h3, h4, fun j k' m' hj hk hm hvis => h5 j k' m' hj hk hm ((hv m').1 hvis)⟩

theorem inheritedMeths_eq (defined : List String) (k : Class) (ks : List Class) :
    n03_inheritedMeths defined [] = [] ∧
    n03_inheritedMeths defined (k :: ks) =
      (k.methods.filter fun m => n03_visName m && !defined.contains m.name)
        ++ n03_inheritedMeths (defined ++ (k.methods.filter n03_visName).map (·.name)) ks :=
  ⟨rfl, rfl⟩

theorem topMeths_eq (Δ : List LogEntry) : n03_topMeths Δ = (n03_top 0 Δ).filter fun e => e.1 != "class" := rfl

/-! ### K17: the diamond -/

private def dA : Class :=
  { id := "pkg/mod/_A", name := "_A", isPublic := false,
    methods := [{ id := "pkg/mod/_A/shared", name := "shared", isPublic := true }] }
private def dB : Class :=
  { id := "pkg/mod/_B", name := "_B", isPublic := false,
    methods := [{ id := "pkg/mod/_B/shared", name := "shared", isPublic := true }] }
private def dC : Class :=
  { id := "pkg/mod/C", name := "C", isPublic := true, superclasses := ["pkg.mod._A", "pkg.mod._B"] }
private def dEnv : Env := { api := { package := "pkg", classes := [dC, dA, dB] }, safe := true }

/-- two private sibling bases both DEFINE `shared`: it is emitted twice (log and text) -/
theorem diamond_logged_twice :
    (match createClassString dEnv 5 dC "" true {} with
      | .ok (t, st') => (t, st'.log)
      | .error _ => ("", [])) =
    ("class C() {\n    // TODO Result type information missing.\n    @Pure\n    fun shared()\n\n" ++
      "    // TODO Result type information missing.\n    @Pure\n    fun shared()\n}",
     [("class", "pkg/mod/C"), ("fun", "pkg/mod/_A/shared"), ("fun", "pkg/mod/_B/shared"),
      ("endclass", "pkg/mod/C")]) := by
  decide +kernel

private def eBase : Class :=
  { id := "pkg/mod/_Base", name := "_Base", isPublic := false,
    methods := [{ id := "pkg/mod/_Base/shared", name := "shared", isPublic := true }] }
private def eA : Class := { id := "pkg/mod/_A", name := "_A", isPublic := false, superclasses := ["pkg.mod._Base"] }
private def eB : Class := { id := "pkg/mod/_B", name := "_B", isPublic := false, superclasses := ["pkg.mod._Base"] }
private def eEnv : Env := { api := { package := "pkg", classes := [dC, eA, eB, eBase] }, safe := true }

/-- two private sibling bases both INHERIT `shared` from a common private base: the very same method
    (`pkg/mod/_Base/shared`) is logged twice -/
theorem diamond_inherited_twice :
    (match createClassString eEnv 5 dC "" true {} with
      | .ok (_, st') => st'.log
      | .error _ => []) =
    [("class", "pkg/mod/C"), ("fun", "pkg/mod/_Base/shared"), ("fun", "pkg/mod/_Base/shared"),
     ("endclass", "pkg/mod/C")] := by
  decide +kernel

/-- the chain hypothesis of `inherited_once_chain` rules the diamonds out -/
example : (n03_chain dEnv 4 dC.superclasses).isNone = true ∧ (n03_chain eEnv 4 dC.superclasses).isNone = true := by
  decide +kernel

/-- hence "every inherited method is logged exactly once" is false without the chain hypothesis -/
theorem inherited_once_false_for_diamond :
    ¬ ∀ (env : Env) (fuel : Nat) (c : Class) (st st' : St) (t : String),
        createClassString env fuel c "" true st = .ok (t, st') →
        ∀ e ∈ st'.log, e.1 = "fun" → (st'.log.filter (· == e)).length = 1 := by
  intro H
  cases hrun : createClassString eEnv 5 dC "" true {} with
  | error e =>
    have := diamond_inherited_twice
    rw [hrun] at this
    simp at this
  | ok r =>
    obtain ⟨t, st'⟩ := r
    have hlog := diamond_inherited_twice
    rw [hrun] at hlog
    dsimp only at hlog
    have := H eEnv 5 dC {} st' t hrun ("fun", "pkg/mod/_Base/shared") (by rw [hlog]; decide) rfl
    rw [hlog] at this
    revert this
    decide

/-! ### 11. non-vacuity: a closed example through `callGenerator` -/

private def xInt : AType := .named "int" "builtins.int"
private def xB : Class :=
  { id := "pkg/mod/_B", name := "_B", isPublic := false,
    methods := [{ id := "pkg/mod/_B/bar", name := "bar", isPublic := true },
                { id := "pkg/mod/_B/baz", name := "baz", isPublic := true },
                { id := "pkg/mod/_B/_hidden", name := "_hidden", isPublic := false }] }
private def xA : Class :=
  { id := "pkg/mod/_A", name := "_A", isPublic := false, superclasses := ["pkg.mod._B"],
    methods := [{ id := "pkg/mod/_A/foo", name := "foo", isPublic := true },
                { id := "pkg/mod/_A/bar", name := "bar", isPublic := true }] }
private def xC : Class :=
  { id := "pkg/mod/C", name := "C", isPublic := true, superclasses := ["pkg.mod._A", "other.Pub"],
    attributes := [{ id := "pkg/mod/C/x", name := "x", isPublic := true, isStatic := false, type := some xInt }],
    methods := [{ id := "pkg/mod/C/foo", name := "foo", isPublic := true }] }
private def xM : Module :=
  { id := "pkg/mod", name := "mod",
    functions := [{ id := "pkg/mod/f", name := "f", isPublic := true },
                  { id := "pkg/mod/_g", name := "_g", isPublic := false }],
    classes := [xC, xA, xB],
    enums := [{ id := "pkg/mod/E", name := "E" }] }
private def xEnv : Env := { api := { package := "pkg", modules := [xM], classes := [xC, xA, xB] }, safe := true }

/-- module with a public and a private function, a public class `C(_A, other.Pub)` with an attribute, the
    private chain `_A(_B)`, `C.foo` overriding `_A.foo`, `_A.bar` shadowing `_B.bar`, an enum.
    LOG order inside the class: attribute, own `foo`, inherited `bar` (from `_A`), inherited `baz` (from `_B`). -/
example :
    (match callGenerator xEnv xM {} with
      | .ok (_, st') => st'.log
      | .error _ => []) =
    [("module", "pkg/mod"), ("fun", "pkg/mod/f"), ("class", "pkg/mod/C"), ("attr", "pkg/mod/C/x"),
     ("fun", "pkg/mod/C/foo"), ("fun", "pkg/mod/_A/bar"), ("fun", "pkg/mod/_B/baz"), ("endclass", "pkg/mod/C"),
     ("enum", "pkg/mod/E")] := by
  decide +kernel

/-- TEXT order inside the class: attribute, inherited `bar`, inherited `baz`, and only then the own `foo`;
    the private ancestor `_A` is not named after `sub`, the public `Pub` is -/
example :
    (match callGenerator xEnv xM {} with
      | .ok (r, _) => r.1
      | .error _ => "") =
    "package pkg.mod\n\nfrom other import Pub\n\n// TODO Result type information missing.\n@Pure\nfun f()\n\n" ++
    "class C() sub Pub {\n    attr x: Int\n\n" ++
    "    // TODO Result type information missing.\n    @Pure\n    fun bar()\n\n" ++
    "    // TODO Result type information missing.\n    @Pure\n    fun baz()\n\n" ++
    "    // TODO Result type information missing.\n    @Pure\n    fun foo()\n}\n\nenum E\n" := by
  decide +kernel

/-- the chain hypothesis holds for it, with the ancestors nearest first -/
example : (n03_chain xEnv (classFuel xEnv - 1) xC.superclasses).map (·.map (·.id)) =
    some ["pkg/mod/_A", "pkg/mod/_B"] := by
  decide +kernel

/-- and the theorem's list is what the run logged -/
example : (n03_inheritedMeths (n03_ownNames xC) [xA, xB]).map (·.id) = ["pkg/mod/_A/bar", "pkg/mod/_B/baz"] := by
  decide +kernel

/-! a public inner class hides an inherited member of the same name: `C` has the public inner class `foo`,
    its private base `_B` has a method `foo` — the method is neither logged nor printed (`bar` is) -/

private def zB : Class :=
  { id := "pkg/mod/_B", name := "_B", isPublic := false,
    methods := [{ id := "pkg/mod/_B/foo", name := "foo", isPublic := true },
                { id := "pkg/mod/_B/bar", name := "bar", isPublic := true }] }
private def zFoo : Class := { id := "pkg/mod/C/foo", name := "foo", isPublic := true }
private def zC : Class :=
  { id := "pkg/mod/C", name := "C", isPublic := true, superclasses := ["pkg.mod._B"], classes := [zFoo] }
private def zEnv : Env := { api := { package := "pkg", classes := [zC, zB, zFoo] }, safe := true }

example : n03_ownNames zC = ["foo"] := by decide +kernel

example :
    (match createClassString zEnv 5 zC "" true {} with
      | .ok (t, st') => (t, st'.log)
      | .error _ => ("", [])) =
    ("class C() {\n    @PythonName(\"foo\")\n    class Foo()\n\n    // TODO Result type information missing.\n    @Pure\n    fun bar()\n}",
     [("class", "pkg/mod/C"), ("class", "pkg/mod/C/foo"), ("endclass", "pkg/mod/C/foo"),
      ("fun", "pkg/mod/_B/bar"), ("endclass", "pkg/mod/C")]) := by
  decide +kernel

/-! a moved declaration: `f` is re-exported by the package `pkg` (shorter path) — logged `moved` in its module,
    emitted once in the re-export stub `pkg/f` -/

private def pkgRef : ModRef := { id := "pkg", qualifiedImports := [⟨"pkg.mod.f", none⟩] }
private def yM : Module :=
  { id := "pkg/mod", name := "mod",
    functions := [{ id := "pkg/mod/f", name := "f", isPublic := true, reexportedBy := [pkgRef] },
                  { id := "pkg/mod/h", name := "h", isPublic := true }] }
private def yEnv : Env := { api := { package := "pkg", modules := [yM] }, safe := true }

example :
    (match generateStubData yEnv {} with
      | .ok (ds, st') => (st'.log, ds.map fun d => (d.dir, d.name))
      | .error _ => ([], [])) =
    ([("module", "pkg/mod"), ("moved", "pkg/mod/f"), ("fun", "pkg/mod/h"), ("restub", "pkg/f"), ("fun", "pkg/mod/f")],
     [("pkg/mod", "mod"), ("pkg/f", "f")]) := by
  decide +kernel

end StubGen.C17
