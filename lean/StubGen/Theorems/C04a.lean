/-
C04a — "No declaration that is private by Python convention — a name with a leading underscore that is not
a dunder name, or anything nested in or defined in a private class, module or package — appears in any stub
file, unless a package `__init__` re-exports it under a public name.  The API JSON marks exactly those
declarations as non-public."  ANALYSER side: what `isPublicV` (the model of `MyPyAstVisitor._is_public`)
computes.  The generator side (stubs follow the `isPublic` flags) is `StubGen.C04`.

`isPublicV s name qname` reads the visitor state through four things only (`isPublicV_congr`): the kind of
the parent on the declaration stack (`parentKind s`), the re-export map, and the qualified and the short
name of the file being analysed.  It works in three steps (`isPublicV_eq`):

 1. parent kind `.other` (empty stack, enum, assignment frame, a function other than `__init__`):
    `TypeError` (`parent_other_is_error`, `parentKind_other_iff`);
 2. unless the parent is a constructor, `checkPublicityInReexports` is asked; it answers `some true` or
    `none`, never `some false` (`reexport_never_false`); `some true` is final;
 3. otherwise the DECISION TABLE `isPublic_no_reexport`:

      name                          | module / ctor outside a class | public class (or its ctor) | private class (or its ctor)
      ------------------------------+-------------------------------+----------------------------+----------------------------
      `_x` (leading `_`, no `__` end)| false                         | false                      | false
      `__init__`                    | ¬ privatePath qname           | true                       | false
      no leading `_`                | ¬ privatePath qname           | true                       | false
      other `_…__` (dunder)         | ¬ privatePath qname           | ¬ privatePath qname        | ¬ privatePath qname

The table agrees with the convention predicate (`isPublic_false_of_private`, `isPublic_true_of_public`,
`isPublic_true_only_if`); the verdict is what the API records (`enterFuncdef_flag`, `enterClassdef_flag`,
`createAttributeV_flag`; enums and enum instances carry no flag).

Remarks on the table:
* the class columns do not look at the path: the class's own flag — computed by the same function when the
  class was entered — stands for it.  The dunder row does not look at the class: with a class that is public
  only thanks to a re-export (`pkg._impl.C`), `C.m` is public and `C.__len__` is not (example below).
* below a constructor the re-export map is not consulted at all (`reexportVerdict_init`).

Re-exports (`reexport_decides_iff`): `some true` iff some map entry `key ↦ {… src …}` `Decides` — the
re-exporting module `src` is the `__init__` of the file's package, or `key` (stripped of trailing `.`/`*`) is
the declaration's or the file's qualified name; and one of three routes: W (`src` wildcard-imports the
analysed module; public name, public parent), M (`src` imports the analysed module under a public name; public
name, public parent), D (`key` ENDS WITH the name and SOME qualified import of `src` is a STRING SUFFIX of
`qname` and binds a public name — the alias if there is one; the parent is not asked).  For a declaration
whose own name is internal only route D with a non-internal alias works (`reexport_of_private_requires_alias`).

Findings (kernel-checked below):
* F04a-1 suffix matching, module names: `from .a import _helper as helper` in `pkg/__init__.py` also publishes
  the unrelated private `pkg.data._helper`, because `"pkg.data._helper".endswith("a._helper")` —
  `suffix_interference`, `suffix_interference_analyze`.  (`pkg.b._helper` is NOT affected: neither
  `a._helper` nor `pkg.a._helper` is a suffix of `pkg.b._helper`.)
* F04a-2 suffix matching, bare names: `from . import x` (a submodule) in `pkg/__init__.py` publishes every
  declaration named `x` in the modules of `pkg`, whatever private module or private class it sits in —
  `submodule_import_interference_analyze`.
  No interference when no key names the analysed module and no qualified import of a re-exporting module is a
  string suffix of the declaration's qualified name (`no_interference`).
-/
import StubGen.Proofs.Publicity

namespace StubGen.C04a

open StubGen

/-! ### 1. the convention -/

/-- private by name: a leading underscore, and not a dunder name -/
def conventionPrivateName (name : String) : Bool := isInternal name && !pyEndsWith name "__"

/-- some enclosing module / package / class segment of the qualified name is private -/
def privatePath (qname : String) : Bool := (dropLast' (splitDot qname)).any isInternal

/-- the parent is a class (or the constructor of a class) with this publicity -/
def ownerClass : ParentKind → Option Bool
  | .publicClass => some true
  | .privateClass => some false
  | .initFunction o => o
  | _ => none

/-- the parent is a module — or a constructor that is not a method of a class, which the code treats alike -/
def moduleLike : ParentKind → Bool
  | .module => true
  | .initFunction none => true
  | _ => false

/-- the re-export verdict as `isPublicV` obtains it: none below a constructor; otherwise
    `checkPublicityInReexports` with `parentOk` = "the parent is a module or a public class" -/
def reexportVerdict (s : VSt) (name qname : String) : Option Bool :=
  match parentKind s with
  | .initFunction _ => none
  | .module => checkPublicityInReexports s name qname true
  | .publicClass => checkPublicityInReexports s name qname true
  | _ => checkPublicityInReexports s name qname false

/-- the decision table, as a function -/
def table (pk : ParentKind) (name qname : String) : Bool :=
  if conventionPrivateName name then false
  else match ownerClass pk with
    | some ownerPublic => if name = "__init__" ∨ isInternal name = false then ownerPublic else !privatePath qname
    | none => !privatePath qname

theorem reexportVerdict_eq (s : VSt) (name qname : String) :
    reexportVerdict s name qname = s04_viaReexport s name qname := by
  unfold reexportVerdict s04_viaReexport
  cases parentKind s <;> rfl

theorem table_eq (pk : ParentKind) (name qname : String) : table pk name qname = s04_table pk name qname := by
  unfold table s04_table conventionPrivateName privatePath
  have ho : ownerClass pk = s04_owner pk := by cases pk <;> rfl
  rw [ho]
  split
  · rfl
  · cases s04_owner pk with
    | none => rfl
    | some b =>
      dsimp only
      by_cases h : name = "__init__" ∨ isInternal name = false
      · rw [if_pos h, if_pos (by simpa using h)]
      · rw [if_neg h, if_neg (by simpa using h)]

/-- `_is_public` in three steps -/
theorem isPublicV_eq (s : VSt) (name qname : String) :
    isPublicV s name qname =
      match parentKind s with
      | .other => .error .typeError
      | pk => match reexportVerdict s name qname with
        | some b => .ok b
        | none => .ok (table pk name qname) := by
  rw [s04_isPublicV_eq, reexportVerdict_eq]
  cases parentKind s <;> simp only [table_eq] <;> rfl

/-! ### 3. the parent check -/

theorem parent_other_is_error (s : VSt) (name qname : String) (h : parentKind s = .other) :
    isPublicV s name qname = .error .typeError := by
  rw [isPublicV_eq, h]

/-- … and that is the only error -/
theorem isPublicV_error_iff (s : VSt) (name qname : String) (e : PyErr) :
    isPublicV s name qname = .error e ↔ parentKind s = .other ∧ e = .typeError := by
  rw [isPublicV_eq]
  cases parentKind s with
  | other => simp [eq_comm]
  | _ => cases reexportVerdict s name qname <;> simp

/-- which stacks have parent kind `.other` -/
theorem parentKind_other_iff (s : VSt) :
    parentKind s = .other ↔
      s.stack = [] ∨ (∃ e rest, s.stack = .enum e :: rest) ∨ (∃ items rest, s.stack = .assigns items :: rest)
      ∨ (∃ f rest, s.stack = .fn f :: rest ∧ f.name ≠ "__init__") := by
  unfold parentKind
  cases s.stack with
  | nil => simp
  | cons fr rest =>
    cases fr with
    | module m => simp
    | cls c => by_cases hc : c.isPublic = true <;> simp [hc]
    | fn f => by_cases hf : f.name = "__init__" <;> simp [hf]
    | enum e => simp
    | assigns items => simp

/-! ### 2. the decision table -/

/-- the exact table, row by row, when no re-export decides (`reexportVerdict … = none`; this holds for every
    declaration below a constructor, and for every package without re-exports, see
    `reexportVerdict_init`, `reexportVerdict_empty_map`) -/
theorem isPublic_no_reexport (s : VSt) (name qname : String) (hre : reexportVerdict s name qname = none)
    (hpk : parentKind s ≠ .other) :
    -- private by name: never public
    (conventionPrivateName name = true → isPublicV s name qname = .ok false) ∧
    -- `__init__` or a name without leading underscore in a class / in a constructor of a class: the class decides
    (∀ b, ownerClass (parentKind s) = some b → (name = "__init__" ∨ isInternal name = false) →
        isPublicV s name qname = .ok b) ∧
    -- module parent: the path decides (for every name that is not private by name)
    (moduleLike (parentKind s) = true → conventionPrivateName name = false →
        isPublicV s name qname = .ok (!privatePath qname)) ∧
    -- dunder names (leading underscore and trailing `__`) other than `__init__`: the path decides, in classes too
    (isInternal name = true → pyEndsWith name "__" = true → name ≠ "__init__" →
        isPublicV s name qname = .ok (!privatePath qname)) := by
  have hinit : conventionPrivateName "__init__" = false := by decide
  have key : isPublicV s name qname = .ok (table (parentKind s) name qname) := by
    rw [isPublicV_eq, hre]
    cases h : parentKind s with
    | other => exact absurd h hpk
    | _ => rfl
  rw [key]
  unfold table
  refine ⟨fun h => by rw [if_pos h], fun b hb hn => ?_, fun hm hc => ?_, fun hi he hne => ?_⟩
  · have hc : conventionPrivateName name = false := by
      rcases hn with rfl | hn
      · exact hinit
      · unfold conventionPrivateName; rw [hn]; rfl
    rw [hc, hb]
    simp only [Bool.false_eq_true, if_false, if_pos hn]
  · have ho : ownerClass (parentKind s) = none := by
      cases h : parentKind s with
      | initFunction o => cases o <;> simp_all [moduleLike, ownerClass]
      | _ => simp_all [moduleLike, ownerClass]
    rw [hc, ho]
    simp only [Bool.false_eq_true, if_false]
  · have hc : conventionPrivateName name = false := by
      unfold conventionPrivateName; rw [hi, he]; rfl
    rw [hc]
    simp only [Bool.false_eq_true, if_false]
    cases ownerClass (parentKind s) with
    | none => rfl
    | some b =>
      dsimp only
      rw [if_neg]
      rintro (h | h)
      · exact hne h
      · rw [hi] at h; cases h

/-! ### 4. the re-export check

`checkPublicityInReexports s name qname parentOk` walks the entries `key ↦ {… src …}` of the re-export map
(`key` is an import of a package `__init__` as written there — `<id>.<name>` or `<id>.*`, see `addReexports`;
`src` that `__init__` module with all its imports) and answers `some true` at the first entry that
`Decides`; else `none`. -/

/-- `module_is_reexported`: the key is the analysed file's name or qualified name, possibly with `.*` -/
def keyNamesModule (s : VSt) (key : String) : Bool :=
  key == s.fileName || key == s.fileFullname || key == s.fileName ++ ".*" || key == s.fileFullname ++ ".*"

/-- `is_from_same_package`: the re-exporting module is the `__init__` of the analysed file's package -/
def fromSamePackage (s : VSt) (src : ModRef) : Bool :=
  src.id == joinWith "/" (dropLast' (splitDot s.fileFullname))

/-- `is_from_another_package`: the key (trailing `.` and `*` characters stripped) is the declaration's or the
    file's qualified name -/
def fromOtherPackage (s : VSt) (qname key : String) : Bool :=
  pyRstrip key ".*" == qname || pyRstrip key ".*" == s.fileFullname

/-- the import binds a public name: its alias if it has one, else the declaration's own name -/
def bindsPublicName (name : String) (q : QImport) : Bool :=
  match q.alias with
  | some a => !isInternal a
  | none => !isInternal name

/-- route W: the key names the analysed module and the re-exporting module wildcard-imports it -/
def ViaWildcard (s : VSt) (name qname : String) (parentOk : Bool) (key : String) (src : ModRef) : Prop :=
  keyNamesModule s key = true ∧ isInternal name = false ∧ parentOk = true ∧
  ∃ w ∈ src.wildcardImports,
    (fromSamePackage s src = true ∧ w = s.fileName) ∨ (fromOtherPackage s qname key = true ∧ w = s.fileFullname)

/-- route M: the key names the analysed module and the re-exporting module imports the module itself, binding
    a public name -/
def ViaModuleImport (s : VSt) (name : String) (parentOk : Bool) (key : String) (src : ModRef) : Prop :=
  keyNamesModule s key = true ∧ isInternal name = false ∧ parentOk = true ∧
  ∃ q ∈ src.qualifiedImports,
    (q.qualifiedName = s.fileName ∨ q.qualifiedName = s.fileFullname) ∧ bindsPublicName name q = true

/-- route D: the key ENDS WITH the declaration's name and SOME qualified import of the re-exporting module is
    a STRING SUFFIX of the declaration's qualified name and binds a public name (`parentOk` is not asked) -/
def ViaNameImport (name qname : String) (key : String) (src : ModRef) : Prop :=
  pyEndsWith key name = true ∧
  ∃ q ∈ src.qualifiedImports, pyEndsWith qname q.qualifiedName = true ∧ bindsPublicName name q = true

/-- the map entry `key ↦ {… src …}` makes the declaration public -/
def Decides (s : VSt) (name qname : String) (parentOk : Bool) (key : String) (src : ModRef) : Prop :=
  (fromSamePackage s src = true ∨ fromOtherPackage s qname key = true) ∧
  (ViaWildcard s name qname parentOk key src ∨ ViaModuleImport s name parentOk key src
    ∨ ViaNameImport name qname key src)

/-- some entry of the re-export map decides -/
def SomeEntryDecides (s : VSt) (name qname : String) (parentOk : Bool) : Prop :=
  ∃ key srcs src, (key, srcs) ∈ s.api.reexportMap ∧ src ∈ srcs ∧ Decides s name qname parentOk key src

private theorem bindsPublicName_iff₁ (name : String) (q : QImport) :
    (q.alias.isNone = true ∧ isInternal name = false ∨
      (match q.alias with | some a => !isInternal a | none => false) = true) ↔ bindsPublicName name q = true := by
  unfold bindsPublicName; cases q.alias <;> simp

private theorem bindsPublicName_iff₂ (name : String) (q : QImport) :
    ((match q.alias with | some a => !isInternal a | none => false) = true ∨
      q.alias.isNone = true ∧ isInternal name = false) ↔ bindsPublicName name q = true := by
  unfold bindsPublicName; cases q.alias <;> simp

theorem reexport_some_true_iff (s : VSt) (name qname : String) (parentOk : Bool) :
    checkPublicityInReexports s name qname parentOk = some true ↔ SomeEntryDecides s name qname parentOk := by
  unfold checkPublicityInReexports SomeEntryDecides
  rw [s04_ite_some_true_iff]
  simp only [List.any_eq_true, Bool.and_eq_true, Bool.or_eq_true]
  unfold Decides ViaWildcard ViaModuleImport ViaNameImport keyNamesModule fromSamePackage fromOtherPackage
  simp only [Bool.or_eq_true, beq_iff_eq, Bool.not_eq_true']
  constructor
  · rintro ⟨⟨key, srcs⟩, hmem, _, src, hsrc, hpkg, hr⟩
    refine ⟨key, srcs, src, hmem, hsrc, hpkg, ?_⟩
    rcases hr with ⟨hm, ⟨w, hw, ⟨hwc, hni⟩, hp⟩ | ⟨q, hq, ⟨⟨hqn, hal⟩, hni⟩, hp⟩⟩ | ⟨hend, q, hq, hsuf, hal⟩
    · exact Or.inl ⟨hm, hni, hp, w, hw, hwc⟩
    · exact Or.inr (Or.inl ⟨hm, hni, hp, q, hq, hqn, (bindsPublicName_iff₁ name q).1 hal⟩)
    · exact Or.inr (Or.inr ⟨hend, q, hq, hsuf, (bindsPublicName_iff₂ name q).1 hal⟩)
  · rintro ⟨key, srcs, src, hmem, hsrc, hpkg, hr⟩
    refine ⟨(key, srcs), hmem, ?_, src, hsrc, hpkg, ?_⟩
    · rcases hr with ⟨hm, _⟩ | ⟨hm, _⟩ | ⟨hend, _⟩
      · exact Or.inr hm
      · exact Or.inr hm
      · exact Or.inl hend
    · rcases hr with ⟨hm, hni, hp, w, hw, hwc⟩ | ⟨hm, hni, hp, q, hq, hqn, hal⟩ | ⟨hend, q, hq, hsuf, hal⟩
      · exact Or.inl ⟨hm, Or.inl ⟨w, hw, ⟨hwc, hni⟩, hp⟩⟩
      · exact Or.inl ⟨hm, Or.inr ⟨q, hq, ⟨⟨hqn, (bindsPublicName_iff₁ name q).2 hal⟩, hni⟩, hp⟩⟩
      · exact Or.inr ⟨hend, q, hq, hsuf, (bindsPublicName_iff₂ name q).2 hal⟩

/-- (c) the check never answers "private": a re-export can only ADD publicity -/
theorem reexport_never_false (s : VSt) (name qname : String) (parentOk : Bool) :
    checkPublicityInReexports s name qname parentOk ≠ some false := by
  unfold checkPublicityInReexports
  exact s04_ite_ne_some_false _

theorem reexport_none_iff (s : VSt) (name qname : String) (parentOk : Bool) :
    checkPublicityInReexports s name qname parentOk = none ↔ ¬ SomeEntryDecides s name qname parentOk := by
  rw [← reexport_some_true_iff]
  have := reexport_never_false s name qname parentOk
  cases h : checkPublicityInReexports s name qname parentOk with
  | none => simp
  | some b => cases b <;> simp_all

/-- exactly when the check answers what -/
theorem reexport_decides_iff (s : VSt) (name qname : String) (parentOk : Bool) :
    (checkPublicityInReexports s name qname parentOk = some true ↔ SomeEntryDecides s name qname parentOk) ∧
    (checkPublicityInReexports s name qname parentOk = none ↔ ¬ SomeEntryDecides s name qname parentOk) ∧
    checkPublicityInReexports s name qname parentOk ≠ some false :=
  ⟨reexport_some_true_iff s name qname parentOk, reexport_none_iff s name qname parentOk,
   reexport_never_false s name qname parentOk⟩

/-- (a) no re-exports, no verdict -/
theorem reexport_empty_map (s : VSt) (name qname : String) (parentOk : Bool) (h : s.api.reexportMap = []) :
    checkPublicityInReexports s name qname parentOk = none := by
  rw [reexport_none_iff]
  rintro ⟨key, srcs, src, hmem, _⟩
  rw [h] at hmem
  cases hmem

/-- a public parent only helps -/
theorem reexport_parentOk_mono (s : VSt) (name qname : String)
    (h : checkPublicityInReexports s name qname false = some true) :
    checkPublicityInReexports s name qname true = some true := by
  rw [reexport_some_true_iff] at h ⊢
  obtain ⟨key, srcs, src, hmem, hsrc, hpkg, hr⟩ := h
  refine ⟨key, srcs, src, hmem, hsrc, hpkg, ?_⟩
  rcases hr with ⟨_, _, hp, _⟩ | ⟨_, _, hp, _⟩ | hr
  · cases hp
  · cases hp
  · exact Or.inr (Or.inr hr)

/-- (b) what `some true` needs for a declaration whose own name is internal: route D with an ALIAS that is
    not internal — an entry whose key ends with the name, from the `__init__` of the same package (or with the
    declaration's / file's qualified name as key), and a qualified import
    `… import <string suffix of qname> as <public alias>` of that `__init__` -/
theorem reexport_of_private_requires_alias (s : VSt) (name qname : String) (parentOk : Bool)
    (hpriv : isInternal name = true)
    (h : checkPublicityInReexports s name qname parentOk = some true) :
    ∃ key srcs src q a, (key, srcs) ∈ s.api.reexportMap ∧ src ∈ srcs ∧
      (fromSamePackage s src = true ∨ fromOtherPackage s qname key = true) ∧
      pyEndsWith key name = true ∧ q ∈ src.qualifiedImports ∧ pyEndsWith qname q.qualifiedName = true ∧
      q.alias = some a ∧ isInternal a = false := by
  rw [reexport_some_true_iff] at h
  obtain ⟨key, srcs, src, hmem, hsrc, hpkg, hr⟩ := h
  rcases hr with ⟨_, hn, _⟩ | ⟨_, hn, _⟩ | ⟨hend, q, hq, hsuf, hal⟩
  · rw [hpriv] at hn; cases hn
  · rw [hpriv] at hn; cases hn
  · unfold bindsPublicName at hal
    cases hqa : q.alias with
    | none => rw [hqa] at hal; simp [hpriv] at hal
    | some a =>
      rw [hqa] at hal
      exact ⟨key, srcs, src, q, a, hmem, hsrc, hpkg, hend, hq, hsuf, hqa, by simpa using hal⟩

/-- … below a private class the parent shuts routes W and M, route D remains (alias or public own name) -/
theorem reexport_in_private_class_requires_name_import (s : VSt) (name qname : String)
    (h : checkPublicityInReexports s name qname false = some true) :
    ∃ key srcs src, (key, srcs) ∈ s.api.reexportMap ∧ src ∈ srcs ∧
      (fromSamePackage s src = true ∨ fromOtherPackage s qname key = true) ∧ ViaNameImport name qname key src := by
  rw [reexport_some_true_iff] at h
  obtain ⟨key, srcs, src, hmem, hsrc, hpkg, hr⟩ := h
  rcases hr with ⟨_, _, hp, _⟩ | ⟨_, _, hp, _⟩ | hr
  · cases hp
  · cases hp
  · exact ⟨key, srcs, src, hmem, hsrc, hpkg, hr⟩

/-- no interference: if no key names the analysed module and no qualified import of any re-exporting module
    is a string suffix of the declaration's qualified name, no re-export decides -/
theorem no_interference (s : VSt) (name qname : String) (parentOk : Bool)
    (hkeys : ∀ key srcs, (key, srcs) ∈ s.api.reexportMap → keyNamesModule s key = false)
    (himps : ∀ key srcs src q, (key, srcs) ∈ s.api.reexportMap → src ∈ srcs → q ∈ src.qualifiedImports →
        pyEndsWith qname q.qualifiedName = false) :
    checkPublicityInReexports s name qname parentOk = none := by
  rw [reexport_none_iff]
  rintro ⟨key, srcs, src, hmem, hsrc, _, hr⟩
  rcases hr with ⟨hm, _⟩ | ⟨hm, _⟩ | ⟨_, q, hq, hsuf, _⟩
  · rw [hkeys key srcs hmem] at hm; cases hm
  · rw [hkeys key srcs hmem] at hm; cases hm
  · rw [himps key srcs src q hmem hsrc hq] at hsuf; cases hsuf

/-! #### the verdict `isPublicV` uses -/

theorem reexportVerdict_never_false (s : VSt) (name qname : String) : reexportVerdict s name qname ≠ some false := by
  unfold reexportVerdict
  cases parentKind s <;> first | exact reexport_never_false _ _ _ _ | simp

/-- below a constructor re-exports are not consulted -/
theorem reexportVerdict_init (s : VSt) (name qname : String) (o : Option Bool)
    (h : parentKind s = .initFunction o) : reexportVerdict s name qname = none := by
  unfold reexportVerdict; rw [h]

/-- (a) for `isPublicV`: in a package without re-exports the table applies to every declaration -/
theorem reexportVerdict_empty_map (s : VSt) (name qname : String) (h : s.api.reexportMap = []) :
    reexportVerdict s name qname = none := by
  unfold reexportVerdict
  cases parentKind s <;> first | exact reexport_empty_map _ _ _ _ h | rfl

theorem reexportVerdict_none_of_check (s : VSt) (name qname : String)
    (h : ∀ parentOk, checkPublicityInReexports s name qname parentOk = none) : reexportVerdict s name qname = none := by
  unfold reexportVerdict
  cases parentKind s <;> first | exact h _ | rfl

/-- a re-export that decides makes the declaration public, whatever the table says -/
theorem isPublic_of_reexport (s : VSt) (name qname : String) (hpk : parentKind s ≠ .other)
    (h : reexportVerdict s name qname = some true) : isPublicV s name qname = .ok true := by
  rw [isPublicV_eq, h]
  cases hk : parentKind s with
  | other => exact absurd hk hpk
  | _ => rfl

/-- the whole function in one line: public iff a re-export decides or the table says so -/
theorem isPublicV_ok_iff (s : VSt) (name qname : String) (b : Bool) :
    isPublicV s name qname = .ok b ↔
      parentKind s ≠ .other ∧
      b = (reexportVerdict s name qname == some true || table (parentKind s) name qname) := by
  rw [isPublicV_eq]
  have hnf := reexportVerdict_never_false s name qname
  cases hk : parentKind s with
  | other => simp
  | _ =>
    cases hv : reexportVerdict s name qname with
    | none => simp [eq_comm]
    | some c =>
      cases c with
      | false => exact absurd hv hnf
      | true => simp [eq_comm]

/-! ### the property's words -/

/-- the property's words, negative half: private by name, or in a non-public class, or (module level) below
    a private module / package / class ⇒ marked non-public unless a re-export decides.
    (For the class case the name must not be a dunder other than `__init__` — see F04a-2.) -/
theorem isPublic_false_of_private (s : VSt) (name qname : String) (hre : reexportVerdict s name qname = none)
    (hpk : parentKind s ≠ .other)
    (h : conventionPrivateName name = true
       ∨ (ownerClass (parentKind s) = some false ∧ (name = "__init__" ∨ isInternal name = false))
       ∨ (moduleLike (parentKind s) = true ∧ privatePath qname = true)) :
    isPublicV s name qname = .ok false := by
  obtain ⟨r1, r2, r3, _⟩ := isPublic_no_reexport s name qname hre hpk
  rcases h with h | ⟨h1, h2⟩ | ⟨h1, h2⟩
  · exact r1 h
  · exact r2 false h1 h2
  · cases hc : conventionPrivateName name with
    | true => exact r1 hc
    | false => rw [r3 h1 hc, h2]; rfl

/-- positive half (needs no hypothesis on re-exports, they only add publicity): a public name in a public
    class, or at module level with no private segment on its path ⇒ marked public -/
theorem isPublic_true_of_public (s : VSt) (name qname : String) (hname : isInternal name = false)
    (h : ownerClass (parentKind s) = some true ∨ (moduleLike (parentKind s) = true ∧ privatePath qname = false)) :
    isPublicV s name qname = .ok true := by
  have hpk : parentKind s ≠ .other := by
    intro e; rw [e] at h; simp [ownerClass, moduleLike] at h
  cases hv : reexportVerdict s name qname with
  | some c =>
    cases c with
    | true => exact isPublic_of_reexport s name qname hpk hv
    | false => exact absurd hv (reexportVerdict_never_false s name qname)
  | none =>
    obtain ⟨_, r2, r3, _⟩ := isPublic_no_reexport s name qname hv hpk
    rcases h with h | ⟨h1, h2⟩
    · exact r2 true h (Or.inr hname)
    · have hc : conventionPrivateName name = false := by unfold conventionPrivateName; rw [hname]; rfl
      rw [r3 h1 hc, h2]; rfl

/-- the API marks a declaration public ONLY IF a re-export decides or the convention allows it: not private by
    name, and — class member — the class is public or — module level / dunder — no private segment on the path -/
theorem isPublic_true_only_if (s : VSt) (name qname : String) (h : isPublicV s name qname = .ok true) :
    reexportVerdict s name qname = some true ∨
    (conventionPrivateName name = false ∧
      (ownerClass (parentKind s) = some true ∨ privatePath qname = false)) := by
  rw [isPublicV_ok_iff] at h
  obtain ⟨_, h⟩ := h
  cases hv : reexportVerdict s name qname with
  | some c =>
    cases c with
    | true => exact Or.inl rfl
    | false => exact absurd hv (reexportVerdict_never_false s name qname)
  | none =>
    right
    rw [hv] at h
    have ht : table (parentKind s) name qname = true := by simpa using h.symm
    unfold table at ht
    cases hc : conventionPrivateName name with
    | true => rw [hc] at ht; simp at ht
    | false =>
      refine ⟨rfl, ?_⟩
      rw [hc] at ht
      simp only [Bool.false_eq_true, if_false] at ht
      cases ho : ownerClass (parentKind s) with
      | none => rw [ho] at ht; right; simpa using ht
      | some b =>
        rw [ho] at ht
        dsimp only at ht
        split at ht
        · left; rw [ht]
        · right; simpa using ht

/-! ### 5. what `isPublicV` reads -/

theorem isPublicV_congr {s s' : VSt} (hk : parentKind s = parentKind s')
    (hm : s.api.reexportMap = s'.api.reexportMap) (hq : s.fileFullname = s'.fileFullname)
    (hn : s.fileName = s'.fileName) (name qname : String) :
    isPublicV s name qname = isPublicV s' name qname :=
  s04_isPublicV_congr hk hm hq hn name qname

/-! ### where the verdict goes: the `isPublic` flags of the API

Functions, classes and attributes get `isPublic` := the verdict in the state in which the definition is
entered; enums (`enterEnumdef`) and enum instances have no such flag at all (K04-private-enum in `C04`). -/

theorem enterFuncdef_flag {env : AEnv} {f : FuncDef} {s s' : VSt} {u : Unit}
    (h : enterFuncdef env f s = .ok (u, s')) :
    ∃ fn, s'.stack = .fn fn :: s.stack ∧ fn.name = f.name ∧ isPublicV s f.name f.fullname = .ok fn.isPublic :=
  s04_enterFuncdef_flag h

theorem enterClassdef_flag {env : AEnv} {name fullname : String} {bases removed : List BaseExpr} {defs : List Def}
    {s s' : VSt} {u : Unit} (h : enterClassdef env name fullname bases removed defs s = .ok (u, s')) :
    ∃ c, s'.stack = .cls c :: s.stack ∧ c.name = name ∧ isPublicV s name fullname = .ok c.isPublic :=
  s04_enterClassdef_flag h

/-- attributes: the qualified name tested is the variable's own (`node.fullname`) when the l-value has none -/
theorem createAttributeV_flag {env : AEnv} {isMember : Bool} {name fullname : String} {isVar : Bool}
    {var : Option VarInfo} {un : Option MType} {isStatic : Bool} {s s' : VSt} {a : Attribute}
    (h : createAttributeV env isMember name fullname isVar var un isStatic s = .ok (a, s')) :
    a.name = name ∧ isPublicV s name (s04_attrQname name fullname var) = .ok a.isPublic :=
  s04_createAttributeV_flag h

/-- the property for functions, in one statement: a function that is private by convention and that no
    re-export makes public is recorded with `isPublic = false` -/
theorem private_function_marked {env : AEnv} {f : FuncDef} {s s' : VSt} {u : Unit}
    (h : enterFuncdef env f s = .ok (u, s')) (hre : reexportVerdict s f.name f.fullname = none)
    (hpriv : conventionPrivateName f.name = true
       ∨ (ownerClass (parentKind s) = some false ∧ (f.name = "__init__" ∨ isInternal f.name = false))
       ∨ (moduleLike (parentKind s) = true ∧ privatePath f.fullname = true)) :
    ∃ fn, s'.stack = .fn fn :: s.stack ∧ fn.name = f.name ∧ fn.isPublic = false := by
  obtain ⟨fn, h1, h2, h3⟩ := enterFuncdef_flag h
  have hpk : parentKind s ≠ .other := by
    intro e; rw [parent_other_is_error s _ _ e] at h3; cases h3
  rw [isPublic_false_of_private s _ _ hre hpk hpriv] at h3
  exact ⟨fn, h1, h2, by simpa using h3.symm⟩

/-- … and conversely a function recorded as public is re-exported or public by convention -/
theorem public_function_justified {env : AEnv} {f : FuncDef} {s s' : VSt} {u : Unit}
    (h : enterFuncdef env f s = .ok (u, s')) :
    ∃ fn, s'.stack = .fn fn :: s.stack ∧ fn.name = f.name ∧
      (fn.isPublic = true →
        reexportVerdict s f.name f.fullname = some true ∨
        (conventionPrivateName f.name = false ∧
          (ownerClass (parentKind s) = some true ∨ privatePath f.fullname = false))) := by
  obtain ⟨fn, h1, h2, h3⟩ := enterFuncdef_flag h
  refine ⟨fn, h1, h2, fun hp => ?_⟩
  rw [hp] at h3
  exact isPublic_true_only_if s _ _ h3

/-! ### 6. kernel-checked rows and findings -/

attribute [local instance] s04_decEqResult

private def doc0 : ParserState := { root := { name := "pkg" }, style := .numpy }

/-- a visitor state analysing file `full` (short name `short`) with the given stack and re-export map -/
private def stateOf (stack : List Frame) (full short : String) (rm : List (String × List ModRef) := []) : VSt :=
  { doc := doc0, stack := stack, fileFullname := full, fileName := short, api := { reexportMap := rm } }

private def modF : Frame := .module { id := "pkg/mod", name := "mod" }
private def clsF (name : String) (pub : Bool) : Frame := .cls { id := "pkg/mod/" ++ name, name := name, isPublic := pub }
private def fnF (name : String) : Frame := .fn { id := "pkg/mod/C/" ++ name, name := name, isPublic := true }

/-- rows of the table, module parent -/
example : isPublicV (stateOf [modF] "pkg.mod" "mod") "_f" "pkg.mod._f" = .ok false := by decide +kernel
example : isPublicV (stateOf [modF] "pkg.mod" "mod") "f" "pkg.mod.f" = .ok true := by decide +kernel
example : isPublicV (stateOf [modF] "pkg._impl" "_impl") "f" "pkg._impl.f" = .ok false := by decide +kernel
example : isPublicV (stateOf [modF] "_pkg.mod" "mod") "C" "_pkg.mod.C" = .ok false := by decide +kernel
example : isPublicV (stateOf [modF] "pkg.mod" "mod") "__version__" "pkg.mod.__version__" = .ok true := by decide +kernel
/-- public class -/
example : isPublicV (stateOf [clsF "C" true, modF] "pkg.mod" "mod") "m" "pkg.mod.C.m" = .ok true := by decide +kernel
example : isPublicV (stateOf [clsF "C" true, modF] "pkg.mod" "mod") "_m" "pkg.mod.C._m" = .ok false := by decide +kernel
example : isPublicV (stateOf [clsF "C" true, modF] "pkg.mod" "mod") "__init__" "pkg.mod.C.__init__" = .ok true := by decide +kernel
example : isPublicV (stateOf [clsF "C" true, modF] "pkg.mod" "mod") "__len__" "pkg.mod.C.__len__" = .ok true := by decide +kernel
/-- private class -/
example : isPublicV (stateOf [clsF "_C" false, modF] "pkg.mod" "mod") "m" "pkg.mod._C.m" = .ok false := by decide +kernel
example : isPublicV (stateOf [clsF "_C" false, modF] "pkg.mod" "mod") "__init__" "pkg.mod._C.__init__" = .ok false := by decide +kernel
example : isPublicV (stateOf [clsF "_C" false, modF] "pkg.mod" "mod") "__len__" "pkg.mod._C.__len__" = .ok false := by decide +kernel
/-- constructor -/
example : isPublicV (stateOf [fnF "__init__", clsF "C" true, modF] "pkg.mod" "mod") "x" "pkg.mod.C.x" = .ok true := by decide +kernel
example : isPublicV (stateOf [fnF "__init__", clsF "C" true, modF] "pkg.mod" "mod") "_x" "pkg.mod.C._x" = .ok false := by decide +kernel
example : isPublicV (stateOf [fnF "__init__", clsF "_C" false, modF] "pkg.mod" "mod") "x" "pkg.mod._C.x" = .ok false := by decide +kernel
example : isPublicV (stateOf [fnF "__init__", modF] "pkg.mod" "mod") "x" "pkg.mod.x" = .ok true := by decide +kernel
/-- other parents -/
example : isPublicV (stateOf [fnF "f", modF] "pkg.mod" "mod") "x" "pkg.mod.f.x" = .error .typeError := by decide +kernel
example : isPublicV (stateOf [] "pkg.mod" "mod") "x" "pkg.mod.x" = .error .typeError := by decide +kernel
example : isPublicV (stateOf [.enum { id := "pkg/mod/E", name := "E" }, modF] "pkg.mod" "mod") "A" "pkg.mod.E.A" = .error .typeError := by decide +kernel

/-- the class columns do not look at the path, the dunder row does not look at the class: for a class `C` of
    the private module `pkg._impl` that is public (which only a re-export can make it) -/
theorem reexported_class_members : isPublicV (stateOf [clsF "C" true, modF] "pkg._impl" "_impl") "m" "pkg._impl.C.m" = .ok true
    ∧ isPublicV (stateOf [clsF "C" true, modF] "pkg._impl" "_impl") "__len__" "pkg._impl.C.__len__" = .ok false := by
  decide +kernel

/-! re-exports -/
private def initA : Module :=
  { id := "pkg", name := "__init__", qualifiedImports := [⟨"a._helper", some "helper"⟩] }

example : (addReexports {} initA).reexportMap = [("a._helper", [initA.ref])] := by decide +kernel

example : isPublicV (stateOf [modF] "pkg.a" "a" (addReexports {} initA).reexportMap) "_helper" "pkg.a._helper" = .ok true := by decide +kernel
/-- F04a-1, on `isPublicV`: the re-export of `pkg.a._helper` as `helper` publishes `pkg.data._helper` -/
theorem suffix_interference :
   isPublicV (stateOf [modF] "pkg.data" "data" (addReexports {} initA).reexportMap) "_helper" "pkg.data._helper" = .ok true
   ∧ isPublicV (stateOf [modF] "pkg.data" "data") "_helper" "pkg.data._helper" = .ok false := by decide +kernel
example : isPublicV (stateOf [modF] "pkg.b" "b" (addReexports {} initA).reexportMap) "_helper" "pkg.b._helper" = .ok false := by decide +kernel


/-! the same through the whole analyser -/

private def env0 : AEnv := { opts := {}, aliases := [], infoBases := [] }
private def fdef (name fullname : String) : FuncDef :=
  { name := name, fullname := fullname, isStatic := false, isClass := false, isProperty := false, args := [],
    hasCallableType := false, retType := none, unanalyzedRet := none, unanalyzedRetLiteralIsNone := false, body := [] }

/-- `pkg/__init__.py`: `from .a import _helper as helper`; `pkg/a.py` and `pkg/data.py` each define `_helper` -/
private def pkgSuffix (withReexport : Bool) : List SrcModule :=
  [ { path := "pkg/__init__.py", fullname := "pkg", name := "pkg",
      imports := if withReexport then [.from_ "a" [("_helper", some "helper")]] else [], defs := [] },
    { path := "pkg/a.py", fullname := "pkg.a", name := "a", imports := [],
      defs := [.func (fdef "_helper" "pkg.a._helper")] },
    { path := "pkg/data.py", fullname := "pkg.data", name := "data", imports := [],
      defs := [.func (fdef "_helper" "pkg.data._helper")] } ]

private def flags (mods : List SrcModule) : Option (List (String × Bool)) :=
  match analyze env0 { name := "pkg" } mods with
  | .ok (r, _) => some (r.functions.map fun f => (f.id, f.isPublic))
  | .error _ => none

theorem suffix_interference_analyze :
    flags (pkgSuffix true) = some [("pkg/a/_helper", true), ("pkg/data/_helper", true)]
    ∧ flags (pkgSuffix false) = some [("pkg/a/_helper", false), ("pkg/data/_helper", false)] := by
  decide +kernel

/-- `pkg/__init__.py`: `from . import x` (the submodule `pkg/x.py`); `pkg/_internal.py` defines a function `x`
    and a private class `_C` with a method `x` -/
private def pkgSub (withReexport : Bool) : List SrcModule :=
  [ { path := "pkg/__init__.py", fullname := "pkg", name := "pkg",
      imports := if withReexport then [.from_ "" [("x", none)]] else [], defs := [] },
    { path := "pkg/x.py", fullname := "pkg.x", name := "x", imports := [], defs := [] },
    { path := "pkg/_internal.py", fullname := "pkg._internal", name := "_internal", imports := [],
      defs := [.func (fdef "x" "pkg._internal.x"),
               .cls "_C" "pkg._internal._C" [] [] [.func (fdef "x" "pkg._internal._C.x")]] } ]

theorem submodule_import_interference_analyze :
    flags (pkgSub true) = some [("pkg/_internal/x", true), ("pkg/_internal/_C/x", true)]
    ∧ flags (pkgSub false) = some [("pkg/_internal/x", false), ("pkg/_internal/_C/x", false)] := by
  decide +kernel

end StubGen.C04a
